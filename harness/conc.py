"""Shared by C11 and C12: run programs under all schedules (bounded), compare with the model, judge the wire."""
from __future__ import print_function
import zlib

from . import core, fam, ref6455, ref7692, sched


def to_model(programs, compression=None):
    if compression == "clock0":
        compression = None
    out = []
    for p in programs:
        calls = []
        for c in p:
            if c[0] == "send":
                data = c[1] in ("text", "binary")
                calls.append([0, 1 if data else 0, 1 if (data and c[3] is True and compression) else 0, c[4] if len(c) > 4 else 0])
            elif c[0] == "close":
                calls.append([1, c[3] if len(c) > 3 else 0])
            elif c[0] == "server_close":
                calls.append([2])
            else:
                calls.append([3])
        out.append(calls)
    return out


def decode_wire(wire):
    """wire: [(tid, bytes)] in write order -> (frames, error). A frame must be contiguous and from one thread."""
    frames = []
    buf = b""
    owner = None
    for tid, b in wire:
        if not b:
            continue
        if buf and tid != owner:
            return frames, "bytes of thread %s were written in the middle of a frame of thread %s" % (tid, owner)
        owner = tid
        buf += b
        while buf:
            fr = _try_frame(buf)
            if fr is None:
                break
            f, n = fr
            f["tid"] = owner
            frames.append(f)
            buf = buf[n:]
    if buf:
        return frames, "the wire ends inside a frame"
    return frames, None


def _try_frame(buf):
    if len(buf) < 2:
        return None
    l7 = buf[1] & 0x7F
    pos = 2
    if l7 == 126:
        if len(buf) < 4:
            return None
        n = int.from_bytes(buf[2:4], "big")
        pos = 4
    elif l7 == 127:
        if len(buf) < 10:
            return None
        n = int.from_bytes(buf[2:10], "big")
        pos = 10
    else:
        n = l7
    if buf[1] & 0x80:
        pos += 4
    if len(buf) < pos + n:
        return None
    return ref6455.decode_client_frame(buf[:pos + n]), pos + n


def judge(programs, out, compression):
    """the statements of C11 and C12 on one execution of the real code; returns (c11 complaints, c12 complaints)"""
    if compression == "clock0":
        compression = None
    c11, c12 = [], []
    frames, err = decode_wire(out["wire"])
    if out.get("deadlock"):
        c11.append("deadlock: not every thread finished")
    if err:
        c11.append("the wire is not a sequence of whole frames: " + err)
        if any(c[0] in ("close", "server_close") for p in programs for c in p):
            c12.append("close() raced with a send and the wire is no longer a sequence of whole frames (%s): the peer cannot read the Close frame" % err)
        return c11, c12
    for prog, res in zip(programs, out["results"]):
        for c, r in zip(prog, res):
            if isinstance(r, str):
                if r == "exc:TypeError" and c[0] == "send" and not isinstance(c[2], bytes):
                    continue          # an argument of a type the API does not take: refused, nothing written
                c11.append("a call raised %s" % r)
    # accepted sends per thread, in call order
    per_thread = {}
    for tid, (prog, res) in enumerate(zip(programs, out["results"])):
        for c, r in zip(prog, res):
            if c[0] == "send" and r == 0:
                per_thread.setdefault(tid, []).append(c)
    peer = ref7692.Peer(15, 15, False, compression == "no_takeover") if compression else None
    seen = {}
    close_seen = False
    n_close = 0
    for f in frames:
        if f is None:
            c11.append("undecodable frame on the wire")
            continue
        if f["op"] == 8:
            n_close += 1
            close_seen = True
            continue
        if close_seen and f["op"] in (0, 1, 2):
            c12.append("a data frame (thread %s) was written after the Close frame" % f["tid"])
        payload = f["payload"]
        if f["rsv"] & 4:
            try:
                payload = peer.decompress(payload) if peer else payload
            except zlib.error as e:
                c11.append("the peer cannot inflate the compressed message of thread %s in wire order: %s" % (f["tid"], e))
                continue
        lst = per_thread.get(f["tid"], [])
        k = seen.get(f["tid"], 0)
        if k >= len(lst):
            c11.append("a frame of thread %s is on the wire but no accepted call accounts for it" % f["tid"])
            continue
        exp = lst[k]
        seen[f["tid"]] = k + 1
        want = exp[5] if len(exp) > 5 else exp[2]      # (what the argument held when the call was made, for mutable arguments)
        if payload != want:
            c11.append("thread %s: frame %d carries %r, the call sent %r (order or content broken)" % (f["tid"], k, payload[:20], bytes(want[:20])))
    for tid, lst in per_thread.items():
        if seen.get(tid, 0) != len(lst):
            c11.append("thread %s: %d accepted sends but %d frames on the wire" % (tid, len(lst), seen.get(tid, 0)))
    if n_close > 1:
        c12.append("%d Close frames were written" % n_close)
    # a send that was not written must have failed with a WebSocketError
    for tid, (prog, res) in enumerate(zip(programs, out["results"])):
        for c, r in zip(prog, res):
            if c[0] == "send" and r not in (0, 3, 4, 5, 6):
                c12.append("a losing send ended with %r instead of a WebSocketError" % (r,))
    return c11, c12


def run_programs(rep, model, pid, name, program_sets, bound, limit, which):
    """which: 'c11' or 'c12' -- whose complaints count for this property"""
    total = 0
    dis = 0
    first_dis = None
    for programs, compression in program_sets:
        mreqs = []
        outs = []
        for schedule, out in sched.explore(programs, compression, bound=bound, limit=limit):
            total += 1
            rep.add_case(repr((programs, compression, schedule)))
            rep.traces_vs_impl += 1
            c11, c12 = judge(programs, out, compression)
            complaints = c11 if which == "c11" else c12
            if complaints:
                rep.violation(complaints[0], scenario=dict(programs=_js(programs), compression=compression, schedule=schedule),
                              expected="see statement", actual=dict(wire=[(t, b.hex()) for t, b in out["wire"]], results=out["results"], log=out["log"]),
                              family=name)
            outs.append((schedule, out))
            mreqs.append([50, to_model(programs, compression), schedule])
        rep.count("programs", "%s%s" % ("+".join("|".join(c[0] + (":" + c[1] if c[0] == "send" else "") for c in p) for p in programs), " z" if compression else ""), len(outs))
        if model is not None and outs:
            mres = model.run(mreqs)
            if not getattr(rep, '_watched', False):
                rep._watched = True
                rep.watch_extraction(model, mreqs)
            for (schedule, out), m in zip(outs, mres):
                mlog = [tuple(x) for x in m[0]]
                ilog = out["log"]
                mresults = m[2]
                iresults = [[r if r != 6 else 6 for r in res] for res in out["results"]]
                mwire = [(w[0], w[1], w[5]) for w in m[1]]
                if mlog != ilog or mresults != iresults or len(mwire) != len(out["wire"]) or [w[0] for w in mwire] != [t for t, _ in out["wire"]]:
                    dis += 1
                    if first_dis is None:
                        k = 0
                        while k < min(len(mlog), len(ilog)) and mlog[k] == ilog[k]:
                            k += 1
                        first_dis = dict(programs=_js(programs), compression=compression, schedule=schedule, first_difference_at=k,
                                         impl_actions=ilog[max(0, k - 3):k + 4], model_actions=mlog[max(0, k - 3):k + 4], impl_results=iresults, model_results=mresults)
        if len(rep.samples) < 4 and outs:
            rep.sample(dict(programs=_js(programs), compression=compression, schedule=outs[-1][0], actions=outs[-1][1]["log"][:40], wire=[(t, b.hex()[:24]) for t, b in outs[-1][1]["wire"]]))
    if dis and not rep.violations:
        rep.broken("correspondence %s: the action sequences / results of the real code differ from the model's on %d of %d schedules; first: %r" % (name, dis, total, first_dis))
    rep.families.append(dict(name=name, cases=total, disagreements=dis, rule="real send_*/close()/feed(server Close)/on_disconnect on real threads under a deterministic baton scheduler with a point at every shared-state action (lock ops, reads/writes of the closing/closed flags, each half of sendall, zlib compress/flush, socket close); stateless DFS over schedules with preemption bound %d; each execution is compared action-by-action with Model.Conc.exec on the same schedule and judged on the decoded wire" % bound))


def run_programs_lines(rep, pid, name, program_sets, limit, which, two=0, offset=0):
    """line-level exploration (one preemption at every source line of lomond that thread 0 executes; with two > 0 also that many
    schedules per program with a second preemption of thread 0); judged on the wire only"""
    import itertools
    total = 0
    for programs, compression in program_sets:
        if len(programs) < 2:
            continue
        runs = sched.explore_lines(programs, compression, limit=limit)
        if two:
            runs = itertools.chain(runs, sched.explore_lines2(programs, compression, limit=two, offset=offset))
        for schedule, out in runs:
            total += 1
            rep.add_case(repr(("lines", programs, compression, schedule[:0], total)))
            if out.get("deadlock"):
                rep.violation("deadlock under a line-level schedule", scenario=dict(programs=_js(programs), compression=compression, schedule=schedule, lines=True), family=name)
                continue
            c11, c12 = judge(programs, out, compression)
            complaints = c11 if which == "c11" else c12
            if complaints:
                rep.violation(complaints[0] + " (line-level schedule: thread 0 preempted between two source lines)",
                              scenario=dict(programs=_js(programs), compression=compression, schedule=schedule, lines=True),
                              expected="see statement", actual=dict(wire=[(t, b.hex()[:80]) for t, b in out["wire"]], results=out["results"]), family=name)
    rep.families.append(dict(name=name, cases=total, rule="the same real threads, but every executed source line of lomond/{frame,compression,websocket,session,mask,message,stream}.py is a scheduling point: thread 0 is preempted once, at each line in turn, thread 1 then runs all / half / a quarter of its steps; and schedules with a second preemption of thread 0 (p lines, a fraction of thread 1, r more lines, the rest of thread 1, the rest of thread 0; all triples or an even sample); judged on the decoded wire (whole frames, per-thread order and content, the peer inflates in wire order)"))


def _fresh_sched_worker(args):
    (programs, schedule, compression), _opts = args
    from . import sched as _s
    out = _s.run_schedule(programs, schedule, compression, lines=True)
    taken = [c[1] for c in out["choices"] if c[1] is not None]
    return dict(wire=out["wire"], results=out["results"], deadlock=out.get("deadlock"), log=[], choices=[],
                steps=[sum(1 for t in taken if t == k) for k in (0, 1)])


def _one_fresh(job):
    return fam.fresh_run([job], runner="harness.conc:_fresh_sched_worker", timeout=300)[0]


def run_programs_fresh(rep, name, program_sets, per, which):
    """the first execution in a process: every schedule below runs in an interpreter of its own (lazily built tables, first-use
    initialisation and the like exist only once per process); thread 0 is preempted at `per` of its source lines, thread 1 runs
    to its end, thread 0 finishes"""
    jobs = []
    for programs, compression in program_sets:
        if len(programs) < 2:
            continue
        # how many source lines each thread executes is itself measured in a fresh interpreter (first use costs extra lines)
        base = _one_fresh((programs, [], compression))
        if not isinstance(base, dict):
            rep.broken("family %s: the base schedule could not be run in a fresh interpreter: %r" % (name, base))
            continue
        n0, n1 = base["steps"]
        if not n0 or not n1:
            continue
        pts = sorted(set(int(i * n0 / float(per)) for i in range(per)))
        for p in pts:
            jobs.append((programs, [0] * p + [1] * (n1 + 5) + [0] * (n0 + 5), compression))
    outs = fam.pool().map(_one_fresh, jobs) if jobs else []
    for (programs, schedule, compression), out in zip(jobs, outs):
        rep.add_case(repr(("fresh", programs, compression, schedule.count(0), len(schedule))))
        if not isinstance(out, dict):
            rep.broken("family %s: a schedule could not be run in a fresh interpreter: %r" % (name, out))
            continue
        c11, c12 = judge(programs, out, compression)
        complaints = c11 if which == "c11" else c12
        if complaints:
            rep.violation(complaints[0] + " (first execution in a fresh interpreter; line-level schedule)",
                          scenario=dict(programs=_js(programs), compression=compression, schedule=schedule, lines=True, fresh=True),
                          expected="see statement", actual=dict(wire=[(t, b.hex()[:80]) for t, b in out["wire"]], results=out["results"]), family=name)
    rep.families.append(dict(name=name, cases=len(jobs), rule="line-level schedules (one preemption of thread 0, at %d of its source lines) each run in an interpreter of its own: what is built lazily on first use is built under the race" % per))


def _js(programs):
    # (a bytearray is ONE object shared by all the calls that name it: stored with a marker so that a replay shares it again)
    return [[[x.hex() if isinstance(x, bytes) else ({"shared_bytearray": bytes(x).hex()} if isinstance(x, bytearray) else x) for x in c] for c in p] for p in programs]
