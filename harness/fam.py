"""Running scenario families: implementation (in worker processes) and extracted model, diff, oracle."""
from __future__ import print_function
import hashlib
import multiprocessing
import os
import sys

from . import core, simnet

_POOL = None


def pool():
    global _POOL
    if _POOL is None:
        ctx = multiprocessing.get_context("fork")
        _POOL = ctx.Pool(int(os.environ.get("VERIF_WORKERS", "14")))
    return _POOL


def _impl_worker(args):
    sc, opts = args
    try:
        r = simnet.run_impl(sc, **opts)
        extra = dict(sock_closed=(r.sock.closed if r.sock else None),
                     sel_closed=(r.selector.closed if r.selector else None),
                     sock_close_calls=(r.sock.close_calls if r.sock else 0),
                     sock_closed_after_with=getattr(r, "sock_closed_after_with", None),
                     escaped=r.escaped, wait_timeouts=r.wait_timeouts[:50], wake_script=r.wake_script,
                     request=r.request,
                     alias_ok=_alias_check(r),
                     stop_ok=_stop_check(r))
        return r.trace, extra
    except BaseException as e:  # harness failure
        import traceback
        return None, dict(error=traceback.format_exc())


def _alias_check(r):
    """event payloads must not change after they were yielded: recompute the canonical form now"""
    evs = [it[1] for it in r.trace if it[0] == 0]
    if len(evs) != len(r.events):
        return True
    for a, e in zip(evs, r.events):
        if simnet.canon_event(e) != a:
            return False
    return True


def _stop_check(r):
    return r.stop_ok


def run_impl_many(scenarios, opts=None, parallel=True):
    opts = opts or {}
    args = [(sc, opts) for sc in scenarios]
    if parallel and len(scenarios) > 40:
        return pool().map(_impl_worker, args, chunksize=max(1, len(args) // 200))
    return [_impl_worker(a) for a in args]


def fingerprint(sc):
    return hashlib.md5(repr(sorted(sc.items(), key=lambda kv: kv[0])).encode()).hexdigest()


def strip_meta(sc):
    return {k: v for k, v in sc.items() if not k.startswith("_")}


def earlier_connections():
    """connections that ended badly, used as the earlier life of the process (and never of the same WebSocket object) for one
    scenario in eight: nothing of them may be visible in the connection under test"""
    from . import scen, ref6455
    E = ref6455.encode_frame
    hs = scen.HANDSHAKE
    bodies = [
        hs + E(1, b"caf\xc3", fin=0),                                     # EOF inside a fragmented text message, inside a character
        hs + E(8, ref6455.close_payload(1000, b"\xe2\x82")),             # Close whose reason stops inside a character
        hs + E(2, b"half-a-frame" * 4)[:9],                               # EOF inside a frame
        hs + E(1, b"\xf0\x9f"),                                          # text ending inside a character
        hs + E(2, b"bin", fin=0) + E(9, b"p") + E(3, b""),                # reserved opcode while a message is open
        hs[:57],                                                          # EOF inside the upgrade reply
        hs + E(9, b"k" * 125) + E(1, b"m", mask_key=b"\x01\x02\x03\x04"),  # masked frame
        b"HTTP/1.1 101 X\r\nX-Pad: " + b"p" * 17000,                      # over-long reply block
    ]
    out = []
    for i, b in enumerate(bodies):
        out.append(dict(cfg=simnet.default_cfg(), steps=[("data", 10, b), ("eof", 10)], app={2: [("text", b"x", True)]} if i % 2 else {},
                        keys=[b"\x09\x09\x09\x09"] * 4, key16=scen.KEY16))
    # connections that negotiated permessage-deflate (never used as the earlier life of the SAME object: that object's own
    # settings decide what it offers): complete compressed messages; EOF inside a fragmented compressed message
    import zlib
    hz = ref6455.handshake_response(scen.ACCEPT, extra=b"Sec-WebSocket-Extensions: permessage-deflate\r\n")
    co = zlib.compressobj(9, zlib.DEFLATED, -15)
    z1 = (co.compress(b"hello hello hello") + co.flush(zlib.Z_SYNC_FLUSH))[:-4]
    z2 = (co.compress(b"\x00\x01\x02 more of the same hello hello") + co.flush(zlib.Z_SYNC_FLUSH))[:-4]
    for body in (hz + E(1, z1, rsv=4) + E(2, z2, rsv=4) + E(9, b"p"), hz + E(1, z1, rsv=4) + E(2, z2[:5], rsv=4, fin=0) + E(0, z2[5:9], fin=0)):
        out.append(dict(cfg=simnet.default_cfg(), steps=[("data", 10, body), ("eof", 10)], app={2: [("text", b"compress me compress me", True)]},
                        keys=[b"\x09\x09\x09\x09"] * 4, key16=scen.KEY16, ws_kwargs=dict(compress=True)))
    return out


_EARLIER = None
_HELD_ENDINGS = None


def held_endings():
    """earlier connections of the SAME object whose consumer left the loop at Ready / at a message and still references the
    iterator: it is released only by the next connection's `events = ws.connect()` (simnet mechanism 'hold')"""
    global _HELD_ENDINGS
    if _HELD_ENDINGS is None:
        from . import scen, ref6455
        E = ref6455.encode_frame
        _HELD_ENDINGS = [dict(cfg=simnet.default_cfg(), steps=[("data", 10, scen.HANDSHAKE + E(1, b"one") + E(2, b"two")), ("eof", 10)],
                              app={at: [("abandon", "hold")]}, keys=[b"\x09\x09\x09\x09"] * 4, key16=scen.KEY16) for at in (2, 3, 4)]
    return _HELD_ENDINGS


def with_history(p):
    """deterministically (by the scenario's own fingerprint) give one scenario in eight an earlier connection in the process,
    and another one in eight an earlier connection on the very WebSocket object it uses"""
    global _EARLIER
    if "previously" in p or "_ws_object" in p or "steps" not in p or "cfg" not in p:
        return p
    h = int(fingerprint(p)[:8], 16)
    # equivalent spellings of the configuration: 0 and None both disable a timeout; whole numbers of seconds as int
    cfg = p["cfg"]
    if isinstance(cfg, dict):
        c2 = dict(cfg)
        if c2.get("close_timeout", 1) is None and (h >> 8) % 3 == 0:
            c2["close_timeout"] = 0
        if c2.get("ping_timeout", 1) is None and (h >> 10) % 3 == 0:
            c2["ping_timeout"] = 0
        if c2 != cfg or (h >> 12) % 3 == 0:
            p = dict(p, cfg=c2)
            if (h >> 12) % 3 == 0:
                p["int_seconds"] = True
    if (h >> 20) % 8 == 0 and "debug_log" not in p:
        # the application runs the library's logger at DEBUG level (what is logged must not change what is done)
        p = dict(p, debug_log=True)
    if (h >> 24) % 8 == 0 and "headers" not in p and "_ws_object" not in p:
        # the application has given the WebSocket custom headers (add_header): a cookie that is not ASCII, credentials encoded
        # with a trailing line break (base64.encodebytes), bytes that are no text at all -- what the request carries must not
        # change what the connection does
        p = dict(p, headers=[[(b"Cookie", u"sess=caf\u00e9".encode("utf-8"))], [(b"Authorization", b"Basic dXNlcjpwdw==\n")],
                             [(b"X-A", b"1"), (b"Cookie", b"k=\xff\xfe")]][(h >> 27) % 3])
    if (h >> 16) % 8 == 0 and "busy_lock" not in p:
        # other threads of the application keep the write lock busy: non-blocking probes fail, blocking acquisition succeeds
        p = dict(p, busy_lock=True)
    if h % 8 > 1 or (h % 8 == 1 and ("headers" in p or "previously_same" in p)):
        return p
    if _EARLIER is None:
        _EARLIER = earlier_connections()
    q = dict(p)
    # residue 0: another object's connection earlier in the process; residue 1: an earlier connection of the SAME object
    if h % 8 == 0:
        q["previously"] = [_EARLIER[(h // 8) % len(_EARLIER)]]
    else:
        plain = [e for e in _EARLIER if "ws_kwargs" not in e] + held_endings()
        q["previously_same"] = [plain[(h // 8) % len(plain)]]
    return q


def fresh_run(scs, opts=None, timeout=600, runner="harness.fam:_impl_worker"):
    """the scenarios, one after the other, in ONE fresh interpreter; list of results of the runner ((trace, extra) by default)"""
    import pickle
    import subprocess
    root = os.path.dirname(os.path.dirname(os.path.abspath(__file__)))
    p = subprocess.run([sys.executable, "-m", "harness.fresh"], input=pickle.dumps((runner, scs, opts or {}), protocol=2), cwd=root,
                       env=core.env_for_repo(), stdout=subprocess.PIPE, stderr=subprocess.PIPE, timeout=timeout)
    if p.returncode != 0:
        return [(None, dict(error=p.stderr.decode("utf-8", "replace")[-800:]))] * len(scs)
    return pickle.loads(p.stdout)


def _with_meta(p, sc):
    """the scenario as stored in a replay file: with the intent metadata ('_...' keys) its oracle needs, so that
    `check.py <Cnn> --replay <file>` can judge the re-run on its own"""
    q = {k: v for k, v in sc.items() if k.startswith("_") and k != "_ws_object"}
    q.update(p)
    return q


def _predecessor(p, plain, impl_opts, bad):
    """a single earlier connection q such that `q; p` in a fresh interpreter makes bad(trace, extra) true; (q, trace, extra) or None"""
    step = max(1, len(plain) // 40)
    cands = [q for q in (earlier_connections() + [plain[j] for j in range(0, len(plain), step)] + [p]) if "_ws_object" not in q]
    for q in cands:
        q0 = {k: v for k, v in q.items() if k not in ("previously", "previously_same")}
        res = fresh_run([q0, p], impl_opts)
        if res[1][0] is not None and bad(simnet.canon_trace(res[1][0]), res[1][1]):
            return q0, res[1][0], res[1][1]
    return None


def _localise(p, sc, oracle, plain, impl_opts):
    """a complaint was raised in a worker process that had run other connections before: make the stored scenario reproduce it
    in a fresh interpreter -- alone, or after one earlier connection; returns (scenario to store, note)"""
    res = fresh_run([p], impl_opts)[0]
    if res[0] is None or oracle(sc, simnet.canon_trace(res[0]), res[1]):
        return p, ""
    found = _predecessor(p, plain, impl_opts, lambda tr, extra: bool(oracle(sc, tr, extra)))
    if found is None:
        return p, " (seen in a process that had run other connections before; alone in a fresh interpreter the scenario behaves, and no single earlier connection reproduces it)"
    return dict(p, previously=[found[0]] + list(p.get("previously", []))), " (only after an earlier connection of the same process, stored with the scenario)"


def _again(rep, model, name, scenarios, plain, impl, mod, oracle, project, known, impl_opts):
    """Connections are independent of each other: one scenario in ten is run a second time, in reverse order, in the same
    worker processes -- which by then have been through the whole family.  A run that differs from the first one means that
    something survived in the process; a single predecessor that reproduces it in a fresh interpreter is then searched for,
    and the pair is judged like any other scenario (oracle and model)."""
    idx = [i for i in range(len(plain)) if i % 10 == 3 and impl[i][0] is not None and "_ws_object" not in plain[i]][:600]
    if not idx:
        return 0, 0
    idx.reverse()
    second = run_impl_many([plain[i] for i in idx], impl_opts)
    differ = [(i, it2) for i, (it2, _) in zip(idx, second) if it2 is not None and simnet.canon_trace(it2) != simnet.canon_trace(impl[i][0])]
    rep.count("run_again_later_in_the_same_process", name, len(idx))
    n_viol = n_dis = 0
    for i, it2 in differ[:3]:
        p = plain[i]
        base = fresh_run([p], impl_opts)[0][0]
        if base is None:
            continue
        want = simnet.canon_trace(base)
        found = _predecessor(p, plain, impl_opts, lambda tr, extra: tr != want)
        if found is None:
            rep.broken("family %s: a scenario gave a different trace when it was run again later in the same process (connections are not independent), but no single earlier connection reproduces it in a fresh interpreter; scenario: %s" % (
                name, core.json.dumps(jsonable_sc(p), default=core._jsonable)[:1200]))
            n_dis += 1
            continue
        q0, it3, extra3 = found
        pq = dict(p, previously=[q0] + list(p.get("previously", [])))
        cit = simnet.canon_trace(it3)
        rep.add_case(fingerprint(pq))
        complaints = oracle(scenarios[i], cit, extra3)
        if complaints and not (known and known(scenarios[i], complaints[0])):
            n_viol += 1
            rep.violation("after an earlier connection of the same process: " + complaints[0], scenario=jsonable_sc(_with_meta(pq, scenarios[i])), expected=scenarios[i].get("_expect"),
                          actual=dict(trace=cit[:400]), family=name)
        elif mod[i] is not None and project(cit) != project(simnet.canon_trace(mod[i])):
            n_dis += 1
            rep.broken("correspondence %s: after an earlier connection of the same process the implementation's trace differs from the model's (the model treats connections as independent); scenario: %s" % (
                name, core.json.dumps(jsonable_sc(pq), default=core._jsonable)[:1500]))
    return n_viol, n_dis


def run_family(rep, model, name, scenarios, oracle, project=None, rule="", known=None, impl_opts=None,
               nontrivial=None, sample_every=None):
    """scenarios: list of dicts (keys starting with '_' are intent metadata for the oracle).
    oracle(sc, trace, extra) -> list of complaint strings (independent of the model).
    project(trace) -> what model and implementation are compared on.
    known(sc, complaint) -> known-finding id or None."""
    project = project or (lambda t: t)
    oracle = judged(oracle)
    plain = [with_history(strip_meta(sc)) for sc in scenarios]
    rep.count("earlier_connection_in_process", name, sum(1 for p in plain if "previously" in p))
    rep.count("earlier_connection_of_the_same_object", name, sum(1 for p in plain if "previously_same" in p))
    impl = run_impl_many(plain, impl_opts)
    # scenarios run under the honest selector: the wake-ups that really happened are the step script the model (and the
    # oracle's time line) go by; where the application's handlers take time the model, which knows no such thing, is not asked
    eff = [_effective(p, ex) for p, (it, ex) in zip(plain, impl)]
    reqs = [simnet.to_sx(e) for e in eff] if model is not None else []
    mod = model.run(reqs) if model is not None else [None] * len(plain)
    mod = [None if _sleeps(p) else m for p, m in zip(plain, mod)]
    if model is not None and not getattr(rep, "_watched", False):
        rep._watched = True
        rep.watch_extraction(model, reqs)
    n_dis = 0
    n_viol = 0
    first_dis = None
    for sc, p, (it, extra), mt in zip(scenarios, plain, impl, mod):
        if it is None:
            rep.broken("harness error in family %s: %s" % (name, extra.get("error", "")[-800:]))
            continue
        fp = fingerprint(p)
        rep.add_case(fp, nontrivial=(nontrivial(sc) if nontrivial else True))
        rep.traces_vs_impl += 1
        cit = simnet.canon_trace(it)
        complaints = oracle(sc, cit, extra)
        if complaints:
            kf = known(sc, complaints[0]) if known else None
            note = ""
            pstore = p
            if not kf:
                n_viol += 1   # a known finding must not mask a model/implementation disagreement
                if n_viol <= 2 and "_ws_object" not in p and "steps" in p:
                    pstore, note = _localise(p, sc, oracle, plain, impl_opts)
            rep.violation(complaints[0] + note, scenario=jsonable_sc(_with_meta(pstore, sc)), expected=sc.get("_expect"),
                          actual=dict(trace=cit[:400], extra={k: v for k, v in extra.items() if k != "request"}),
                          family=name, kf=kf)
        if mt is not None:
            cmt = simnet.canon_trace(mt)
            if project(cit) != project(cmt):
                n_dis += 1
                if first_dis is None:
                    first_dis = (p, project(cit), project(cmt))
        if len(rep.samples) < 4 and (rep.evaluations % 97 == 1):
            rep.sample(dict(family=name, scenario=jsonable_sc(p), impl_trace=cit[:40]))
    if n_dis and not n_viol:
        p, a, b = first_dis
        k = 0
        while k < min(len(a), len(b)) and a[k] == b[k]:
            k += 1
        rep.broken("correspondence %s: model and implementation disagree on %d of %d scenarios; first: %s ; traces differ at item %d: impl=%r model=%r" % (
            name, n_dis, len(scenarios), core.json.dumps(jsonable_sc(p), default=core._jsonable)[:1500], k, a[k:k + 3], b[k:k + 3]))
    if not n_viol and not n_dis:
        v2, d2 = _again(rep, model, name, scenarios, plain, impl, mod, oracle, project, known, impl_opts)
        n_viol += v2
        n_dis += d2
    rep.families.append(dict(name=name, cases=len(scenarios), rule=rule, disagreements=n_dis, oracle_failures=n_viol))
    return n_viol, n_dis


def _effective(p, extra):
    if p.get("honest") and extra and extra.get("wake_script") is not None:
        return dict(p, steps=[tuple(x) for x in extra["wake_script"]])
    return p


def judged(oracle):
    """the oracle sees an honest-selector scenario with the wake-ups that really happened as its steps"""
    return lambda sc, tr, extra: oracle(_effective(sc, extra), tr, extra)


def _sleeps(p):
    return any(a[0] == "sleep" for acts in (p.get("app") or {}).values() for a in acts)


def jsonable_sc(sc):
    def conv(v):
        if isinstance(v, (bytes, bytearray)):
            return {"hex": bytes(v).hex()}
        if isinstance(v, dict):
            return {str(k): conv(x) for k, x in v.items()}
        if isinstance(v, (list, tuple)):
            return [conv(x) for x in v]
        return v
    return conv(sc)


def unjson_sc(v):
    if isinstance(v, dict):
        if set(v.keys()) == {"hex"}:
            return bytes.fromhex(v["hex"])
        return {(int(k) if k.isdigit() else k): unjson_sc(x) for k, x in v.items()}
    if isinstance(v, list):
        return [unjson_sc(x) for x in v]
    return v


# ---------------------------------------------------------------- projections
def events_only(tr):
    return [it for it in tr if it[0] == 0]


def no_waits(tr):
    """drop selector-wait markers and the model's zlib-call log (compared only by the compression checks)"""
    return [it for it in tr if it[0] not in (8, 9, 10)]


def message_events(tr):
    return [it[1] for it in tr if it[0] == 0 and it[1][0] in (6, 7, 8, 9, 10, 11)]


def writes(tr):
    return [it for it in tr if it[0] in (1, 2)]


def event_codes(tr):
    return [it[1][0] for it in tr if it[0] == 0]


# ---------------------------------------------------------------- timeline: trace items with virtual time and call attribution
def timeline(sc, tr):
    """Returns list of dicts {t, kind, ...} with virtual time in ticks.
    kind: 'ev' (code, fields), 'write' (ok, raw, frame, by_app), 'call' (action, result), 'sockclose', 'selclose', 'blocked', 'wait'."""
    from . import ref6455
    steps = sc.get("steps", [])
    app = sc.get("app", {})
    now = 0
    k = 0
    nev = 0
    pending_actions = []
    out = []
    for i, it in enumerate(tr):
        c = it[0]
        if c == 10:
            if k < len(steps):
                now += steps[k][1]
            k += 1
            out.append(dict(t=now, kind="wait"))
        elif c == 0:
            out.append(dict(t=now, kind="ev", code=it[1][0], fields=it[1][1:], index=nev))
            pending_actions = [a for a in app.get(nev, app.get(str(nev), ())) if a[0] != "sleep"]
            nev += 1
        elif c in (1, 2):
            by_app = i + 1 < len(tr) and tr[i + 1][0] == 4
            if it[1] == "close-1002":
                fr = dict(op=8, payload=b"\x03\xea", fin=it[2], rsv=it[3], masked=it[4], key=it[5], minimal=True)
            else:
                fr = ref6455.decode_client_frame(it[1])
            out.append(dict(t=now, kind="write", ok=(c == 1), raw=it[1], frame=fr, by_app=by_app))
        elif c == 3:
            out.append(dict(t=now, kind="request", ok=bool(it[1])))
        elif c == 4:
            act = pending_actions.pop(0) if pending_actions else None
            out.append(dict(t=now, kind="call", action=act, result=it[1]))
        elif c == 5:
            out.append(dict(t=now, kind="sockclose"))
        elif c == 6:
            out.append(dict(t=now, kind="selclose"))
        elif c == 7:
            out.append(dict(t=now, kind="blocked"))
    return out


def _tuplify(v):
    """replay files are JSON: sequences come back as lists; scenarios are built with tuples"""
    if isinstance(v, list):
        return tuple(_tuplify(x) for x in v)
    return v


def replay_generic(body, oracles, fix=None, show=40):
    """re-run the scenario of a replay file exactly as the family did (same worker function, earlier connections included) and
    let the family's own oracle judge it; exit status 1 = the stored input still fails, 0 = it does not, 2 = cannot tell"""
    fn = oracles.get(body.get("family"))
    if fn is None:
        print("no replay for family %r: re-run the quick check" % (body.get("family"),))
        return 2
    sc = unjson_sc(body["scenario"])
    if "steps" in sc:
        sc["steps"] = [tuple(x) for x in sc["steps"]]
    if isinstance(sc.get("app"), dict):
        sc["app"] = {k: [tuple(a) for a in v] for k, v in sc["app"].items()}
    for k in list(sc):
        if k.startswith("_") and isinstance(sc[k], list) and k not in ("_expect", "_expected", "_completed", "_between", "_seq"):
            sc[k] = _tuplify(sc[k]) if k in ("_params", "_hdr", "_shape", "_target", "_proxy") else sc[k]
    if fix:
        sc = fix(sc) or sc
    it, extra = _impl_worker((strip_meta(sc), {}))
    if it is None:
        print(extra.get("error", "")[-1500:])
        return 2
    cit = simnet.canon_trace(it)
    for x in cit[:show]:
        print(x)
    res = judged(fn)(sc, cit, extra)
    print("REPLAY:", ("VIOLATION reproduced: %s" % res[0]) if res else "property holds on this input")
    return 1 if res else 0
