"""Reference RFC 6455 codec, written from the RFC, independent of lomond and of the Coq model."""
import struct


def encode_frame(op, payload=b"", fin=1, rsv=0, mask_key=None, lenform=None):
    """rsv: 3-bit int (rsv1=4). lenform in (None=minimal, 7, 16, 64)."""
    b0 = (fin << 7) | (rsv << 4) | op
    n = len(payload)
    if lenform is None:
        lenform = 7 if n < 126 else (16 if n < 65536 else 64)
    m = 0x80 if mask_key is not None else 0
    if lenform == 7:
        assert n < 126
        hdr = struct.pack("!BB", b0, m | n)
    elif lenform == 16:
        assert n < 65536
        hdr = struct.pack("!BBH", b0, m | 126, n)
    else:
        hdr = struct.pack("!BBQ", b0, m | 127, n)
    if mask_key is not None:
        body = bytes(bytearray(b ^ mask_key[i % 4] for i, b in enumerate(bytearray(payload))))
        return hdr + mask_key + body
    return hdr + payload


def decode_client_frame(raw):
    """Decode exactly one client frame occupying all of raw; None if it is not one."""
    raw = bytes(raw)
    if len(raw) < 2:
        return None
    b0, b1 = raw[0], raw[1]
    masked = bool(b1 & 0x80)
    l7 = b1 & 0x7F
    pos = 2
    minimal = True
    if l7 == 126:
        if len(raw) < 4:
            return None
        (n,) = struct.unpack("!H", raw[2:4])
        pos = 4
        minimal = n >= 126
    elif l7 == 127:
        if len(raw) < 10:
            return None
        (n,) = struct.unpack("!Q", raw[2:10])
        pos = 10
        minimal = n >= 65536 and n < (1 << 63)
    else:
        n = l7
    key = b""
    if masked:
        key = raw[pos:pos + 4]
        if len(key) < 4:
            return None
        pos += 4
    body = raw[pos:]
    if len(body) != n:
        return None
    if masked:
        body = bytes(bytearray(b ^ key[i % 4] for i, b in enumerate(bytearray(body))))
    return dict(fin=b0 >> 7, rsv=(b0 >> 4) & 7, op=b0 & 15, masked=masked, key=key, minimal=minimal, payload=body, length=n)


def close_payload(code, reason=b""):
    if code is None:
        return b""
    return struct.pack("!H", code) + reason


def handshake_response(accept, extra=b"", status=b"101 Switching Protocols"):
    return (b"HTTP/1.1 " + status + b"\r\nUpgrade: websocket\r\nConnection: Upgrade\r\nSec-WebSocket-Accept: " + accept + b"\r\n" + extra + b"\r\n")
