"""C08 -- the closing handshake completes correctly in both directions."""
from __future__ import print_function
import itertools
import random

from . import core, fam, scen, simnet, ref6455

E = ref6455.encode_frame
CODES = [1000, 1001, 1002, 1003, 1007, 1008, 1009, 1010, 1011, 1012, 1013, 3000, 3999, 4000, 4999]


def close_checks(sc, tr, extra):
    """invariants of every single-threaded history + the two directed handshakes, judged on the trace alone"""
    out = []
    if extra.get("escaped"):
        return ["exception %s escaped the iterator" % extra["escaped"]]
    tl = fam.timeline(sc, tr)
    close_written = None     # index in tl of the first Close frame written (ok)
    n_close = 0
    client_closed_first = None
    closing_ev = None
    for i, x in enumerate(tl):
        if x["kind"] == "write" and x["frame"] is not None:
            fr = x["frame"]
            if fr["op"] == 8:
                if x["ok"]:
                    n_close += 1
                    if close_written is None:
                        close_written = i
            elif close_written is not None and x["ok"]:
                out.append("a %s frame (opcode %d) was written after the Close frame" % ("data" if fr["op"] < 8 else "control", fr["op"]))
        if x["kind"] == "ev" and x["code"] == 10 and closing_ev is None:
            closing_ev = i
    if n_close > 1:
        out.append("%d Close frames were written on one connection" % n_close)
    # ---- application close(): exactly one Close with the given code and reason, at that point
    for i, x in enumerate(tl):
        if x["kind"] == "call" and x["action"] and x["action"][0] == "close":
            code, reason = x["action"][1], x["action"][2]
            prior_close = any(y["kind"] == "write" and y["frame"] and y["frame"]["op"] == 8 for y in tl[:i - 1]) or \
                any(y["kind"] == "call" and y["action"] and y["action"][0] == "close" and y["result"] == 0 for y in tl[:i])
            ended = any(y["kind"] == "ev" and y["code"] in (14, 1, 3, 11) for y in tl[:i]) or any(y["kind"] == "sockclose" for y in tl[:i])
            pe = any(y["kind"] == "ev" and y["code"] == 13 for y in tl[:i])
            connected = any(y["kind"] == "ev" and y["code"] == 2 for y in tl[:i])
            if x["result"] == 0 and connected and not prior_close and not ended and not pe and len(ref6455.close_payload(code, reason)) <= 125:
                w = tl[i - 1] if i > 0 else None
                if not (w and w["kind"] == "write" and w["frame"] and w["frame"]["op"] == 8):
                    out.append("close(%r, %r) on a connected websocket wrote no Close frame" % (code, reason))
                elif w["ok"] and w["frame"]["payload"] != ref6455.close_payload(code, reason):
                    out.append("close(%r, %r) wrote a Close frame with payload %r" % (code, reason, w["frame"]["payload"]))
                if client_closed_first is None and (closing_ev is None or closing_ev > i):
                    client_closed_first = i
            if x["result"] not in (0, 2):
                out.append("close() raised (code %s)" % x["result"])
    # ---- sends after the Close frame fail with a WebSocketError and write nothing
    closed_flag_from = None
    for i, x in enumerate(tl):
        if closed_flag_from is None:
            if x["kind"] == "write" and x["frame"] and x["frame"]["op"] == 8:
                closed_flag_from = i
                # an application close() call's own marker follows its write
            elif x["kind"] == "call" and x["action"] and x["action"][0] == "close" and x["result"] == 0:
                # an accepted close() that wrote nothing (no connection yet, or the write failed): the websocket is closing all the same
                closed_flag_from = i
            continue
        if x["kind"] == "call" and x["action"] and x["action"][0] in ("text", "binary", "ping", "pong"):
            if i - 1 == closed_flag_from:
                continue
            if x["result"] not in (3, 4, 5, 6):
                big = x["action"][0] in ("ping", "pong") and len(x["action"][1]) > 125
                if not (big and x["result"] == 2):
                    out.append("send_%s after the Close frame / after an accepted close() did not raise a WebSocketError (result %s)" % (x["action"][0], x["result"]))
    # ---- client-initiated: server's Close reply -> Closed, graceful Disconnected, socket closed
    if client_closed_first is not None:
        reply = sc.get("_server_close_after_client")
        if reply is not None and not sc.get("_faulty"):
            evs = [(y["code"], y["fields"]) for y in tl[client_closed_first:] if y["kind"] == "ev"]
            codes = [c for c, _ in evs]
            if 11 not in codes:
                out.append("the server answered the client's Close but no Closed event was yielded (events after close(): %s)" % codes)
            else:
                k = codes.index(11)
                if evs[k][1] != reply:
                    out.append("Closed reports %r, the server sent %r" % (evs[k][1], reply))
                rest = codes[k + 1:]
                rest_np = [c for c in rest if c != 5]
                if rest_np[:1] != [14] or [f for c, f in evs[k + 1:] if c == 14][0] != [1]:
                    out.append("Closed was not followed by a graceful Disconnected (following events: %s)" % rest)
            if not extra.get("sock_closed"):
                out.append("the socket was not closed after the closing handshake")
        # messages that arrive between the client's Close and the server's reply are still delivered
        exp_between = sc.get("_between")
        if exp_between is not None and not sc.get("_faulty"):
            got = [[y["code"]] + y["fields"] for y in tl[client_closed_first:] if y["kind"] == "ev" and y["code"] in (6, 7, 8, 9)]
            if got != exp_between:
                out.append("messages arriving after the client's Close were not all delivered (got %d, expected %d)" % (len(got), len(exp_between)))
    # ---- server-initiated: Closing, sends allowed during that event only, one echo with the same code, graceful end at EOF
    if closing_ev is not None and (client_closed_first is None) and not sc.get("_faulty"):
        code_fields = tl[closing_ev]["fields"]
        j = closing_ev + 1
        during = []
        while j < len(tl) and tl[j]["kind"] in ("write", "call"):
            during.append(tl[j])
            j += 1
        calls = [y for y in during if y["kind"] == "call"]
        for y in calls:
            if y["action"] and y["action"][0] in ("text", "binary") and y["result"] != 0 and not any(z["kind"] == "call" and z["action"] and z["action"][0] == "close" for z in calls[:calls.index(y)]):
                out.append("a send during the Closing event was refused (result %s)" % y["result"])
        lib_closes = [y for y in during if y["kind"] == "write" and not y["by_app"] and y["frame"] and y["frame"]["op"] == 8]
        app_closes = [y for y in during if y["kind"] == "write" and y["by_app"] and y["frame"] and y["frame"]["op"] == 8]
        if len(lib_closes) + len(app_closes) != 1:
            out.append("after the Closing event %d Close frames were written (expected exactly one echo)" % (len(lib_closes) + len(app_closes)))
        elif lib_closes and lib_closes[0]["ok"]:
            exp_code = code_fields[0]
            p = lib_closes[0]["frame"]["payload"]
            got_code = [int.from_bytes(p[:2], "big")] if len(p) >= 2 else []
            if got_code != exp_code:
                out.append("the Close echo carries code %r, the server sent %r" % (got_code, exp_code))
        if sc.get("_eof_after"):
            evs = [(y["code"], y["fields"]) for y in tl[closing_ev:] if y["kind"] == "ev"]
            last = evs[-1]
            if last[0] != 14 or last[1] != [1]:
                out.append("server-initiated close did not end with a graceful Disconnected (last event %r)" % (last,))
    return out


def gen(rnd):
    """one history: data/pings, an application close at some event and/or a server close, app sends anywhere"""
    msgs_before = [scen.gen_message(rnd, big_ok=False) for _ in range(rnd.choice([0, 1, 2]))]
    between = [scen.gen_message(rnd, big_ok=False) for _ in range(rnd.choice([0, 0, 1, 2]))]
    mode = rnd.choice(["client", "client", "server", "server", "both", "client_no_reply", "crossing"])
    if mode == "crossing" and not msgs_before:
        msgs_before = [scen.gen_message(rnd, big_ok=False)]
    deflate = rnd.random() < 0.2      # the connection negotiated permessage-deflate (control frames are never compressed)
    code = rnd.choice(CODES + [None])
    reason = b"" if code is None else scen.rand_text(rnd, rnd.choice([0, 1, 10, 122, 123, 123]))
    scode = rnd.choice(CODES + [None])
    sreason = b"" if scode is None else scen.rand_text(rnd, rnd.choice([0, 2, 122, 123]))
    fb, cb = scen.wire_plan(rnd, msgs_before)
    fm, cm = scen.wire_plan(rnd, between)
    app = {}
    n_before_events = 4 + len(cb)      # connecting, connected, ready, poll + messages
    sc = {}
    if mode in ("client", "client_no_reply", "both"):
        at = rnd.choice([1, 2, 3, n_before_events - 1, rnd.randrange(1, n_before_events)])
        app[at] = [("close", code, reason)]
    if mode == "crossing":
        # the closes cross: the application closes in its handler of the last message, and the server's Close is already in the
        # same read, right behind that message
        app[n_before_events - 1] = [("close", code, reason)]
    # application sends sprinkled around
    for _ in range(rnd.choice([0, 1, 2, 3])):
        i = rnd.randrange(1, n_before_events + len(cm) + 3)
        app.setdefault(i, [])
        app[i] = app[i] + [rnd.choice([("text", b"late", not deflate), ("ping", b"pp"), ("binary", b"\x01\x02", not deflate), ("pong", b"")])]
    hs = scen.HANDSHAKE if not deflate else ref6455.handshake_response(scen.ACCEPT, extra=b"Sec-WebSocket-Extensions: permessage-deflate\r\n")
    stream1 = hs + scen.render(fb)
    if mode == "crossing":
        stream1 += E(8, ref6455.close_payload(scode, sreason))
    stream2 = scen.render(fm)
    steps = scen.steps_from_chunks(scen.chunkings(rnd, stream1, rnd.choice(["one", "random"]) if mode != "crossing" else "one"), dt=10, end=None)
    if stream2:
        steps += scen.steps_from_chunks(scen.chunkings(rnd, stream2, rnd.choice(["one", "random"])), dt=10, end=None)
    if mode in ("client", "server", "both"):
        steps.append(("data", 10, E(8, ref6455.close_payload(scode, sreason))))
        if mode == "client":
            sc["_server_close_after_client"] = [[] if scode is None else [scode], sreason]
            sc["_between"] = scen.expected_events(cb + cm) if (app and min(k for k, v in app.items() if any(a[0] == "close" for a in v)) <= 3) else None
    elif mode == "crossing":
        sc["_server_close_after_client"] = [[] if scode is None else [scode], sreason]
    else:
        steps += [("timeout", 5120)] * 2
    steps.append(("eof", 10))
    # automatic pings may fall due while the closing handshake is under way (a slow peer)
    ping_rate = rnd.choice([30 * 1024, 30 * 1024, 2048, 4096])
    if ping_rate < 30 * 1024 and rnd.random() < 0.6:
        k = rnd.randrange(1, len(steps))
        steps[k:k] = [("timeout", 5120)] * rnd.choice([1, 2])
    # close_timeout 0 and None both mean "no timeout"; a long one must not fire within these histories either
    sc.update(dict(cfg=simnet.default_cfg(close_timeout=rnd.choice([None, None, 0, 0, 90 * 1024]), ping_rate=ping_rate), steps=steps, app=app, keys=scen.keys(rnd, 24), key16=scen.KEY16))
    if deflate:
        sc["ws_kwargs"] = dict(compress=True)
    sc["_eof_after"] = True
    sc["_mode"] = mode
    return sc


def run(rep, info, model, tier, seed):
    rnd = random.Random(seed)
    proof_ok = rep.proof_obligations(info, "props/C08.v")
    n = 3000 if tier == "quick" else 40000
    scs = [gen(rnd) for _ in range(n)]
    # exhaustive small orders: app close at event k (0..6) x server close present or not x a send at event j
    small = []
    for k in range(0, 7):
        for server_close in (None, (1000, b"ok"), (None, b""), (4999, b"r" * 123)):
            for j in (None, 2, 3, 4, 5):
                for code, reason in ((1000, b"bye"), (None, b""), (1001, b"x" * 123)):
                    steps = [("data", 10, scen.HANDSHAKE + E(1, b"one") + E(9, b"p")), ("data", 10, E(2, b"two"))]
                    if server_close:
                        steps.append(("data", 10, E(8, ref6455.close_payload(*server_close))))
                    steps.append(("eof", 10))
                    app = {k: [("close", code, reason)]}
                    if j is not None:
                        app.setdefault(j, [])
                        app[j] = app[j] + [("text", b"s", True)]
                    sc = dict(cfg=simnet.default_cfg(close_timeout=(None, 0, 0, 90 * 1024)[(k + (j or 0)) % 4]), steps=steps, app=app, keys=[b"\x01\x01\x01\x01"] * 8, key16=scen.KEY16)
                    sc["_eof_after"] = True
                    sc["_mode"] = "small"
                    if server_close and k <= 6:
                        sc["_server_close_after_client"] = [[] if server_close[0] is None else [server_close[0]], server_close[1]]
                    small.append(sc)
    # the server never answers the client's Close: the handshake is cut short by the close timeout, counted from the moment
    # the Close frame went out -- also when that moment is session time 0 (close() at Connected or at Ready)
    for k in (1, 2, 3, 4):
        for ct in (10240, 30720):
            for tail in ([("eof", 10)], [("data", 10, E(1, b"late")), ("eof", 10)]):
                steps = [("data", 0, scen.HANDSHAKE + E(1, b"one"))] + [("timeout", 5120)] * 8 + tail
                sc = dict(cfg=simnet.default_cfg(close_timeout=ct), steps=steps, app={k: [("close", 1000, b"bye")]}, keys=[b"\x01\x01\x01\x01"] * 8, key16=scen.KEY16)
                sc["_eof_after"] = True
                sc["_mode"] = "unanswered"
                small.append(sc)
    # what an EARLIER connection of the same process received must not matter: a Close frame whose reason stops inside a
    # multi-byte character, is not UTF-8, is one byte long or carries a reserved code fails THAT connection only
    poisons = [ref6455.close_payload(1000, b"\xe2\x82"), ref6455.close_payload(1000, b"ok\xf0\x9f\x98"), ref6455.close_payload(1001, b"\xc3"),
               ref6455.close_payload(1000, b"\xf0\x9f"), ref6455.close_payload(1000, b"\xff"), b"\x03", ref6455.close_payload(1005, b"")]
    after = []
    for pz in poisons:
        prev = dict(cfg=simnet.default_cfg(close_timeout=None), steps=[("data", 10, scen.HANDSHAKE + E(8, pz)), ("eof", 10)], app={},
                    keys=[b"\x02\x02\x02\x02"] * 4, key16=scen.KEY16)
        for server_close in ((1000, "bye".encode()), (4000, "\u20acuro".encode("utf-8")), (1001, b"x")):
            for k in (None, 2, 3):
                steps = [("data", 10, scen.HANDSHAKE + E(1, b"one")), ("data", 10, E(8, ref6455.close_payload(*server_close))), ("eof", 10)]
                app = {} if k is None else {k: [("close", 1000, b"done")]}
                sc = dict(cfg=simnet.default_cfg(close_timeout=None), steps=steps, app=app, keys=[b"\x01\x01\x01\x01"] * 8, key16=scen.KEY16,
                          previously=[prev])
                sc["_eof_after"] = True
                sc["_mode"] = "after-bad-close"
                if k is not None:
                    sc["_server_close_after_client"] = [[server_close[0]], server_close[1]]
                after.append(sc)
    for sc in scs + small + after:
        rep.count("mode", sc["_mode"])
    fam.run_family(rep, model, "C08:close-histories", scs, close_checks, project=lambda t: t,
                   rule="random histories: data/control before and between, application close() at any event (incl. Connected, Ready), server Close with every valid code / empty payload / 123-byte reason, application sends at any event; oracle judges the wire (decoded by the harness' own RFC 6455 decoder) and the events")
    fam.run_family(rep, model, "C08:small-orders", small, close_checks, project=lambda t: t,
                   rule="all combinations: application close at event 0..6 x server close {absent, 1000, empty, 4999+max reason} x application send at event {none,2..5} x close arguments; and a client Close at Connected / Ready / Poll / a message that the server never answers, with a close timeout")
    fam.run_family(rep, model, "C08:after-a-bad-close", after, close_checks, project=lambda t: t,
                   rule="the same closing handshakes (server first, client first at Ready or later; non-empty reasons) on a connection made AFTER another connection of the same process received a malformed Close (reason cut inside a 2-, 3- or 4-byte character, invalid byte, one-byte payload, reserved code): the earlier connection must not influence this one")
    rep.exhaustive["C08 small orders"] = True
    if not proof_ok and not rep.violations:
        rep.broken("proof obligation props/C08.v no longer checks: %s" % (rep.coq_failure,))


def replay(body):
    return fam.replay_generic(body, {"C08:close-histories": close_checks, "C08:small-orders": close_checks, "C08:after-a-bad-close": close_checks}, show=200)
