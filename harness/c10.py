"""C10 -- Ready is granted only for a correct upgrade reply to a well-formed request."""
from __future__ import print_function
import base64
import hashlib
import random

from . import core, fam, scen, simnet, ref6455

GUID = b"258EAFA5-E914-47DA-95CA-C5AB0DC85B11"


def digest(key16):
    return base64.b64encode(hashlib.sha1(base64.b64encode(key16) + GUID).digest())


# ---------------------------------------------------------------- requests
def gen_request_case(rnd):
    scheme = rnd.choice(["ws", "wss"])
    host = rnd.choice(["example.test", "Example.TEST", "a.b-c.example", "127.0.0.1", "localhost"])
    port = rnd.choice([None, None, 80, 443, 8080, 9001, 65535, 1])
    path = rnd.choice(["", "/", "/chat", "/a/b/c", "/x%20y", "/p;q", "/a:b@c", "//double", "/[x]"])
    query = rnd.choice(["", "", "x=1", "a=b&c=d", "q=%C3%A9", "a?b", "u=http://x/y", "k=@:;"])
    # other spellings of the same target: scheme in capitals, user information (never part of the request), the port
    # with leading zeros or present but empty, a fragment (never part of the request)
    k = rnd.random()
    sch_txt = scheme if k > 0.15 else rnd.choice([scheme.upper(), scheme.capitalize()])
    userinfo = rnd.choice(["", "", "", "user@", "user:secret@", ":@", "a:b:c@"])
    port_txt = "" if port is None else ":%d" % port
    if port is not None and rnd.random() < 0.15:
        port_txt = ":0%d" % port
    elif port is None and rnd.random() < 0.15:
        port_txt = ":"
    fragment = rnd.choice(["", "", "", "#top", "#a?b=c", "#", "#/x"])
    url = "%s://%s%s%s%s%s%s" % (sch_txt, userinfo, host, port_txt, path, "?" + query if query else "", fragment)
    protocols = rnd.choice([[], [], ["chat"], ["chat", "superchat"], ["v1.proto", "v2.proto", "v3"]])
    compress = rnd.random() < 0.4
    agent = rnd.choice([None, "TestAgent/1.0", "x"])
    headers = rnd.choice([[], [], [(b"X-Custom", b"1")], [(b"Authorization", b"Bearer abc.def"), (b"X-Two", b"a b  c")]])
    key16 = bytes(bytearray(rnd.getrandbits(8) for _ in range(16)))
    exp = dict(host=host.lower(), port=port if port is not None else (443 if scheme == "wss" else 80),
               resource=(path or "/") + ("?" + query if query else ""), protocols=protocols, compress=compress, agent=agent, headers=headers, key16=key16)
    kw = dict(protocols=protocols, compress=compress, proxies={})
    if agent:
        kw["agent"] = agent
    sc = dict(cfg=simnet.default_cfg(), steps=[("data", 0, ref6455.handshake_response(simnet.accept_for(key16))), ("eof", 0)], key16=key16, url=url, ws_kwargs=kw, headers=headers, keys=[])
    sc["_exp"] = exp
    return sc


def url_readings(rep, model, rnd, tier):
    """the model's reading of a URL (Url.parse_url and what WebSocket.__init__ derives from it) against the real
    constructor, on URLs the request family does not produce: odd but legal spellings, and ports urlparse refuses"""
    if model is None:
        return
    import lomond.websocket as W
    urls = []
    for _ in range(300 if tier == "quick" else 5000):
        # (schemes of urllib's uses_params list -- http, https, ftp, ... -- additionally lose a ";params" suffix of the path; lomond takes
        #  only the authority from URLs of such schemes (the proxy), so the model does not follow that)
        scheme = rnd.choice(["ws", "wss", "WS", "wSs", "wsx", "ws+unix", "w-s.1"])
        host = rnd.choice(["h", "Example.TEST", "a_b", "x.y.z", "127.0.0.1", "h%41", "h~!$&'()*+,;="])
        userinfo = rnd.choice(["", "", "u@", "u:p@", ":@", "@", "a@b@", "u:p:q@", "U%40x:P@"])
        port = rnd.choice(["", "", ":", ":0", ":1", ":80", ":080", ":443", ":65535", ":65536", ":99999", ":+1", ":-1", ":8o", ": 80", ":1_0", ":٣", ":1e3", ":0x50",
                           ":%d" % rnd.randrange(0, 70000)])
        path = rnd.choice(["", "/", "/p", "/p/q;r", "/p:q@r", "//", "/%zz", "/a[b]c"])
        query = rnd.choice(["", "", "?", "?x", "?x=1&y=2", "?a?b", "?a#b", "?/x:y@z"])
        fragment = rnd.choice(["", "", "#", "#f", "#f?g", "#f#g"])
        urls.append("%s://%s%s%s%s%s%s" % (scheme, userinfo, host, port, path, query, fragment))
    urls += ["ws://h", "ws://h/", "wss://h", "ws://H:", "ws://h:0/", "ws://h?x", "ws://h#f", "ws://u:p@h:81/a?b#c"]
    mres = model.run([[38, u.encode("utf-8")] for u in urls])
    rep.watch_extraction(model, [[38, u.encode("utf-8")] for u in urls[:40]])
    dis = 0
    first = None
    for u, m in zip(urls, mres):
        rep.add_case(("url", u))
        if any(ord(ch) > 126 or ord(ch) < 33 for ch in u):
            rep.count("url_reading", "outside the modelled domain")
            continue
        try:
            ws = W.WebSocket(u, proxies={})
            impl = [ws.scheme.encode(), (ws.host or "").encode(), ws.port, ws.resource.encode(), 1 if ws.is_secure else 0]
        except ValueError:
            impl = None
        mod = None if not m else [m[0], m[3], m[8], m[7], m[9]]
        rep.count("url_reading", "refused" if impl is None else "read")
        if impl != mod:
            dis += 1
            first = first or (u, impl, mod)
    if dis and not rep.violations:
        rep.broken("correspondence C10:url-readings: the model's reading of %d URLs differs from WebSocket.__init__; first %r" % (dis, first))
    rep.families.append(dict(name="C10:url-readings", cases=len(urls), disagreements=dis,
                             rule="URL spellings (scheme case and characters, user information, empty/zero/zero-padded/out-of-range/non-numeric ports, delimiters inside path, query and fragment): scheme, host, port, resource and secure flag of the real WebSocket against the model's parse_url; a ValueError of the constructor against the model's refusal"))


def parse_request(raw):
    """independent HTTP/1.1 request parser (RFC 7230 grammar, strict)"""
    if not raw.endswith(b"\r\n\r\n"):
        return None, "request does not end with CRLF CRLF"
    head = raw[:-4]
    if b"\r\n\r\n" in head:
        return None, "empty line inside the header block"
    lines = head.split(b"\r\n")
    parts = lines[0].split(b" ")
    if len(parts) != 3 or parts[0] != b"GET" or parts[2] != b"HTTP/1.1":
        return None, "bad request line %r" % lines[0]
    hdrs = []
    for ln in lines[1:]:
        if b":" not in ln or ln[:1] in (b" ", b"\t"):
            return None, "bad header line %r" % ln
        n, v = ln.split(b":", 1)
        if not n or any(c in b" \t\r\n" for c in bytearray(n)) or b"\r" in v or b"\n" in v:
            return None, "bad header line %r" % ln
        hdrs.append((n.lower(), v.strip(b" \t")))
    return (parts[1], hdrs), None


def request_oracle(sc, tr, extra):
    exp = sc["_exp"]
    raw = extra.get("request")
    if raw is None:
        return ["no upgrade request was written"]
    parsed, err = parse_request(raw)
    if err:
        return ["the upgrade request is not well-formed HTTP/1.1: " + err]
    resource, hdrs = parsed
    out = []
    if resource != exp["resource"].encode():
        out.append("request target %r, the URL's resource is %r" % (resource, exp["resource"]))
    d = {}
    for n, v in hdrs:
        d.setdefault(n, []).append(v)

    def one(name, want):
        got = d.get(name)
        if got != [want]:
            out.append("header %s is %r, expected exactly one with value %r" % (name.decode(), got, want))
    one(b"host", ("%s:%d" % (exp["host"], exp["port"])).encode())
    one(b"upgrade", b"websocket")
    one(b"connection", b"Upgrade")
    one(b"sec-websocket-version", b"13")
    one(b"sec-websocket-key", base64.b64encode(exp["key16"]))
    if exp["protocols"]:
        got = d.get(b"sec-websocket-protocol")
        if not got or [p.strip() for p in b",".join(got).split(b",")] != [p.encode() for p in exp["protocols"]]:
            out.append("offered protocols %r, expected %r" % (got, exp["protocols"]))
    elif b"sec-websocket-protocol" in d:
        out.append("Sec-WebSocket-Protocol sent although no protocol is offered")
    if exp["compress"]:
        got = b",".join(d.get(b"sec-websocket-extensions", []))
        if b"permessage-deflate" not in got:
            out.append("compress=True but permessage-deflate is not offered")
    elif b"sec-websocket-extensions" in d:
        out.append("an extension is offered although compress=False")
    for n, v in exp["headers"]:
        if v not in d.get(n.lower(), []):
            out.append("custom header %r: %r missing" % (n, v))
    if exp["agent"] and d.get(b"user-agent") != [exp["agent"].encode()]:
        out.append("User-Agent %r, expected %r" % (d.get(b"user-agent"), exp["agent"]))
    return out


# ---------------------------------------------------------------- replies
def case_variant(rnd, b):
    return bytes(bytearray((c ^ 0x20) if (65 <= c <= 90 or 97 <= c <= 122) and rnd.random() < 0.5 else c for c in bytearray(b)))


def render_reply(rnd, status_line, headers, fold_ok=True):
    hs = list(headers)
    rnd.shuffle(hs)
    out = status_line + b"\r\n"
    for n, v in hs:
        n2 = case_variant(rnd, n)
        lead = rnd.choice([b" ", b"", b"  ", b"\t", b" \t "])
        trail = rnd.choice([b"", b"", b" ", b"\t "])
        if fold_ok and rnd.random() < 0.2:
            # obsolete line folding: the value continues on the next line after leading whitespace
            if b" " in v and rnd.random() < 0.5:
                i = v.index(b" ")
                out += n2 + b":" + lead + v[:i] + b"\r\n" + rnd.choice([b" ", b"\t", b"   "]) + v[i + 1:] + trail + b"\r\n"
            else:
                out += n2 + b":" + b"\r\n" + rnd.choice([b" ", b"\t"]) + v + trail + b"\r\n"
        else:
            out += n2 + b":" + lead + v + trail + b"\r\n"
        if fold_ok and rnd.random() < 0.06:
            # a fold whose continuation is empty: a line of blanks only.  It adds nothing to the value and ends nothing
            out += rnd.choice([b" ", b"\t", b"  \t "]) + b"\r\n"
    return out + b"\r\n"


def gen_reply_case(rnd, prev_key16):
    key16 = bytes(bytearray(rnd.getrandbits(8) for _ in range(16)))
    good = digest(key16)
    kind = rnd.choice(["good", "good", "good", "status", "no_upgrade", "bad_upgrade", "no_accept", "wrong_accept", "accept_other_key", "accept_prev_key",
                       "accept_case", "accept_trunc", "accept_extra", "accept_8bit", "upgrade_8bit", "big_terminated", "big_unterminated", "garbage", "smuggled", "dup_relevant"])
    status = b"101"
    headers = [(b"Upgrade", rnd.choice([b"websocket", b"WebSocket", b"WEBSOCKET"])), (b"Connection", b"Upgrade"), (b"Sec-WebSocket-Accept", good),
               (b"Server", b"unit test"), (b"X-Pad", b"a, b;c=d")]
    expect = "ready"
    proto = None
    ext = False
    if rnd.random() < 0.4:
        proto = rnd.choice([b"chat", b"v2.proto"])
        headers.append((b"Sec-WebSocket-Protocol", proto))
    if rnd.random() < 0.3:
        ext = True
        from . import c06
        headers.append((b"Sec-WebSocket-Extensions", rnd.choice([b"permessage-deflate", b"permessage-deflate; server_max_window_bits=12", b"permessage-deflate; client_no_context_takeover; client_max_window_bits=10",
                                                                  c06.ext_header(rnd, rnd.choice([9, 12, 15]), rnd.choice([10, 15]), rnd.random() < 0.5, rnd.random() < 0.5),
                                                                  b"permessage-deflate ; server_max_window_bits=12", b"permessage-deflate\t; client_max_window_bits = 11"])))
    if rnd.random() < 0.2:
        headers.append((b"X-Dup", b"1"))
        headers.append((b"X-Dup", b"2"))
    # (the reason phrase may be empty, with or without the blank in front of it: RFC 7230 3.1.2)
    reason = rnd.choice([b"Switching Protocols", b"OK", b"Web Socket Protocol Handshake", b"x", b"{reason} {0} %s", b"{", b"", b"", None])
    if kind == "status":
        status = str(rnd.choice([100, 102, 200, 201, 204, 301, 302, 400, 401, 403, 404, 426, 500, 503, 599, 110, 111, 191, 1010 % 1000])).encode()
        if status == b"101":
            status = b"201"
        expect = "rejected"
    elif kind == "no_upgrade":
        headers = [h for h in headers if h[0] != b"Upgrade"]
        expect = "rejected"
    elif kind == "bad_upgrade":
        headers = [(n, rnd.choice([b"websockets", b"h2c", b"web socket", b"", b"{websocket}", b"{}", b"websocket}", b"{0}", b"%s websocket %d", b"{upgrade!r:>{width}}"])) if n == b"Upgrade" else (n, v) for n, v in headers]
        expect = "rejected"
    elif kind == "no_accept":
        headers = [h for h in headers if h[0] != b"Sec-WebSocket-Accept"]
        expect = "rejected"
    elif kind == "dup_relevant":
        # a handshake header sent twice, spelled in different letter case, one value right and one wrong: repeated headers are
        # ONE header whose value is the comma-joined list (RFC 7230 3.2.2) -- neither "the first" nor "the last" -- so this
        # reply is not a correct one
        victim = rnd.choice([b"Upgrade", b"Sec-WebSocket-Accept"])
        wrong = rnd.choice([b"h2c", b"websockets"]) if victim == b"Upgrade" else digest(bytes(bytearray(rnd.getrandbits(8) for _ in range(16))))
        right = [v for n, v in headers if n == victim][0]
        rest = [(n, v) for n, v in headers if n != victim]
        pair = [(victim, wrong), (victim.upper() if rnd.random() < 0.7 else victim.lower(), right)]
        if rnd.random() < 0.5:
            pair = [(pair[1][0], wrong), (pair[0][0], right)]
        if rnd.random() < 0.5:
            pair.reverse()
        k = rnd.randrange(0, len(rest) + 1)
        headers = rest[:k] + [pair[0]] + rest[k:] + [pair[1]]
        expect = "rejected"
    elif kind == "smuggled":
        # a required header is missing; its text appears only INSIDE the value of another header, behind a bare LF, CR or
        # another character that some line splitters take for a line end: header lines end with CRLF and nothing else
        victim = rnd.choice([b"Upgrade", b"Sec-WebSocket-Accept", b"both"])
        sep = rnd.choice([b"\n", b"\r", b"\n", b"\x0b", b"\x0c", b"\x1c", b"\x1d", b"\x1e", b"\x85", b"\n "])
        hidden = b""
        for n, v in headers:
            if n == victim or (victim == b"both" and n in (b"Upgrade", b"Sec-WebSocket-Accept")):
                hidden += sep + n + b": " + v
        headers = [(n, v) for n, v in headers if not (n == victim or (victim == b"both" and n in (b"Upgrade", b"Sec-WebSocket-Accept")))]
        headers.append((rnd.choice([b"X-Powered-By", b"Via", b"Set-Cookie"]), b"Gateway/2.1" + hidden))
        expect = "rejected"
    elif kind == "upgrade_8bit":
        # bytes that are not ASCII inside a header value are not "nothing"
        headers = [(n, rnd.choice([b"web\xe2\x80\x8bsocket", b"websocket\xa0", b"\xffwebsocket"])) if n == b"Upgrade" else (n, v) for n, v in headers]
        expect = "rejected"
    elif kind == "accept_8bit":
        k = rnd.randrange(0, len(good) + 1)
        bad = good[:k] + rnd.choice([b"\xe2\x80\x8b", b"\xa0", b"\xff", b"\xc3\xa9"]) + good[k:]
        headers = [(n, bad) if n == b"Sec-WebSocket-Accept" else (n, v) for n, v in headers]
        expect = "rejected"
    elif kind in ("wrong_accept", "accept_other_key", "accept_prev_key", "accept_trunc", "accept_extra", "accept_case"):
        if kind == "wrong_accept":
            bad = base64.b64encode(bytes(bytearray(rnd.getrandbits(8) for _ in range(20))))
        elif kind == "accept_other_key":
            bad = digest(bytes(bytearray(rnd.getrandbits(8) for _ in range(16))))
        elif kind == "accept_prev_key":
            bad = digest(prev_key16)
        elif kind == "accept_trunc":
            bad = good[:rnd.choice([0, 1, 27, 26])]
        elif kind == "accept_extra":
            bad = good + rnd.choice([b"=", b"A", b"x y", b"{}", b"{0!r}", b"%d"])
        else:
            bad = good.swapcase() if rnd.random() < 0.5 else case_variant(rnd, good)
        if bad == good:
            bad = good[:-2] + b"A="
        headers = [(n, bad) if n == b"Sec-WebSocket-Accept" else (n, v) for n, v in headers]
        expect = "rejected"
    status_line = b"HTTP/1.1 " + status + (b"" if reason is None else b" " + reason)
    fold_ok = True
    reply = render_reply(rnd, status_line, headers, fold_ok)
    big_cut = None
    if kind == "big_terminated":
        # the limit counts the terminator: every total length around 16384, in one read, cut anywhere, or cut inside the terminator
        pad = rnd.choice([16380, 16383, 16384, 16384, 16385, 16385, 16386, 16387, 16388, 16389, 16392, 17000, 40000]) - len(reply) - len(b"X-Big: \r\n")
        reply = reply[:-2] + b"X-Big: " + b"z" * max(pad, 0) + b"\r\n\r\n"
        expect = "protocol_error" if len(reply) > 16384 else "ready"
        big_cut = rnd.choice(["one", "one", "tail", "random"])
    elif kind == "big_unterminated":
        reply = reply[:-4] + b"\r\nX-Big: " + b"z" * rnd.choice([16400, 30000])
        expect = "protocol_error"
    elif kind == "garbage":
        reply = rnd.choice([b"\r\n\r\n", b"HTTP/1.1\r\n\r\n", b"hello world\r\n\r\n", b"HTTP/1.1 abc Switching\r\n\r\n", b"\x00\xff\xfe\r\n\r\n"])
        expect = "rejected"
    stream = reply + ref6455.encode_frame(1, b"first")
    if big_cut is None and kind not in ("big_unterminated", "garbage") and rnd.random() < 0.08:
        # a lot of frame data right behind the reply, in the same read: it is not part of the header block
        stream += ref6455.encode_frame(2, b"\x00" * rnd.choice([17000, 30000]))
        big_cut = "one"
    if big_cut == "one":
        chunks = [stream]
    elif big_cut == "tail":
        k = len(reply) - rnd.choice([1, 2, 3, 4, 5])
        chunks = [stream[:k], stream[k:]]
    else:
        chunks = scen.chunkings(rnd, stream, rnd.choice(["one", "random", "small"]) if len(stream) < 3000 else "random")
    sc = dict(cfg=simnet.default_cfg(), steps=scen.steps_from_chunks(chunks), key16=key16, keys=[b"\x00\x00\x00\x00"] * 3,
              ztape=[b"first"] * 2)
    sc["_kind"] = kind
    sc["_expect"] = expect
    sc["_proto"] = proto
    sc["_ext"] = ext
    sc["_accept_case_only"] = kind == "accept_case"
    return sc, key16


def reply_oracle(sc, tr, extra):
    if extra.get("escaped"):
        return ["exception %s escaped the iterator" % extra["escaped"]]
    evs = [it[1] for it in tr if it[0] == 0]
    codes = [e[0] for e in evs]
    exp = sc["_expect"]
    out = []
    if exp == "ready":
        if 4 not in codes:
            out.append("a correct upgrade reply (%s) did not yield Ready (events %s)" % (sc["_kind"], codes))
        else:
            r = evs[codes.index(4)]
            want_proto = [] if sc["_proto"] is None else [sc["_proto"]]
            if r[1] != want_proto:
                out.append("Ready reports protocol %r, the reply negotiated %r" % (r[1], want_proto))
            if bool(r[2]) != sc["_ext"]:
                out.append("Ready reports extensions=%r, the reply negotiated permessage-deflate=%r" % (r[2], sc["_ext"]))
    else:
        if 4 in codes:
            out.append("Ready was yielded for an incorrect upgrade reply (%s)" % sc["_kind"])
        if any(c in (6, 7, 8, 9, 10, 11) for c in codes):
            out.append("message events were delivered although the upgrade was not accepted (%s)" % sc["_kind"])
        if exp == "rejected" and 3 not in codes:
            out.append("an incorrect upgrade reply (%s) did not yield Rejected (events %s)" % (sc["_kind"], codes))
        if exp == "protocol_error" and 13 not in codes:
            out.append("a header block above 16 KiB did not yield ProtocolError (events %s)" % codes)
        if extra.get("sock_closed") is False:
            out.append("the socket was not closed after the failed upgrade")
    return out


def known(sc, complaint):
    if sc.get("_accept_case_only") and complaint.startswith("Ready was yielded"):
        return "KF-D"
    return None


def reconnect_family(rep, rnd, n):
    """two attempts on one WebSocket object: the first reaches the accept comparison; the second (fresh key) gets either the
    digest of its own key (must be Ready) or the digest of the first attempt's key (must be Rejected)"""
    import lomond.websocket as W
    cases = 0
    for i in range(n):
        k1 = bytes(bytearray(rnd.getrandbits(8) for _ in range(16)))
        k2 = bytes(bytearray(rnd.getrandbits(8) for _ in range(16)))
        first_kind = rnd.choice(["ready", "ready", "wrong-accept", "upgrade-missing-accept-present"])
        if first_kind == "ready":
            r1 = ref6455.handshake_response(simnet.accept_for(k1))
        elif first_kind == "wrong-accept":
            r1 = ref6455.handshake_response(simnet.accept_for(k2[::-1]))
        else:
            r1 = ref6455.handshake_response(simnet.accept_for(k1)).replace(b"websocket", b"websockets")
        stale = (i % 2 == 1)
        r2 = ref6455.handshake_response(simnet.accept_for(k1 if stale else k2))
        sc1 = dict(cfg=simnet.default_cfg(), steps=[("data", 0, r1), ("eof", 0)], key16=k1, keys=[b"\x00" * 4] * 3)
        sc2 = dict(cfg=simnet.default_cfg(), steps=[("data", 0, r2 + ref6455.encode_frame(1, b"first")), ("eof", 0)], key16=k2, keys=[b"\x00" * 4] * 3)
        ws = W.WebSocket("ws://example.test/chat")
        a = dict(sc1)
        a["_ws_object"] = ws
        simnet.run_impl(a)
        b = dict(sc2)
        b["_ws_object"] = ws
        r = simnet.run_impl(b)
        codes = fam.event_codes(simnet.canon_trace(r.trace))
        cases += 1
        rep.add_case(("reconnect", i, first_kind, stale))
        rep.count("reconnect.first", first_kind)
        bad = None
        if r.escaped:
            bad = "exception %s escaped the iterator" % r.escaped
        elif stale and (4 in codes or 3 not in codes):
            bad = "the second attempt on the same WebSocket accepted the digest of the FIRST attempt's key (events %s)" % codes
        elif not stale and 4 not in codes:
            bad = "the second attempt on the same WebSocket rejected the correct digest of its own fresh key (events %s)" % codes
        if bad:
            rep.violation(bad, scenario=dict(kind="reconnect", stale=stale, previous=fam.jsonable_sc(sc1), next=fam.jsonable_sc(sc2)), family="C10:reconnect")
    rep.families.append(dict(name="C10:reconnect", cases=cases, rule="two attempts on one WebSocket object (first: Ready / wrong accept / bad Upgrade), the second with a fresh key and a reply carrying the digest of its own key (Ready expected) or of the previous attempt's key (Rejected expected)"))


def fresh_keys():
    """the Sec-WebSocket-Key of three successive requests of one WebSocket object, os.urandom on a tape"""
    import lomond.websocket as W
    seen = []
    old = W.os
    tape = [bytes([i]) * 16 for i in range(1, 6)]

    class OsP(object):
        def urandom(self, n):
            return tape.pop(0) if n == 16 else old.urandom(n)

        def __getattr__(self, k):
            return getattr(old, k)
    W.os = OsP()
    try:
        ws = W.WebSocket("ws://example.test/")
        for i in range(3):
            ws.reset()
            seen.append(ws.build_request())
    finally:
        W.os = old
    return [[l for l in r.split(b"\r\n") if l.lower().startswith(b"sec-websocket-key")][0].split(b":")[1].strip() for r in seen]


def real_key_and_verdicts(key16, accepts):
    """the real WebSocket with os.urandom on a tape, one connection attempt per candidate accept value: the
    Sec-WebSocket-Key of the written request, and whether the attempt became Ready"""
    scs = [dict(cfg=simnet.default_cfg(), steps=[("data", 0, ref6455.handshake_response(a)), ("eof", 0)], key16=key16, keys=[]) for a in accepts]
    res = fam.run_impl_many(scs, parallel=False)
    key = None
    for l in (res[0][1].get("request") or b"").split(b"\r\n"):
        if l.lower().startswith(b"sec-websocket-key:"):
            key = l.split(b":", 1)[1].strip()
    return key, [4 in fam.event_codes(tr) for tr, extra in res]


def digest_family(rep, model, rnd, tier):
    """the model's own SHA-1 and base64 (Digest.v) against hashlib/base64 -- the functions lomond calls -- and against the
    real WebSocket: key derived from os.urandom(16), reply accepted exactly for the accept value the model derives"""
    if model is None:
        return
    lens = list(range(0, 260)) + [rnd.randrange(260, 5000) for _ in range(20 if tier == "quick" else 400)]
    if tier != "quick":
        lens += list(range(260, 1200)) + [65535, 65536, 100000]
    msgs = [bytes(bytearray(rnd.getrandbits(8) for _ in range(n))) for n in lens]
    msgs += [b"\x00" * n for n in (1, 55, 56, 63, 64, 65, 119, 120)] + [b"\xff" * n for n in (1, 55, 56, 63, 64, 65, 119, 120)]
    res = model.run([[36, m] for m in msgs] + [[37, m] for m in msgs])
    rep.watch_extraction(model, [[36, m] for m in msgs[:40]] + [[37, m] for m in msgs[:40]])
    dis = 0
    first = None
    for m, d in zip(msgs, res[:len(msgs)]):
        rep.add_case(("sha1", m))
        if d != hashlib.sha1(m).digest():
            dis += 1
            first = first or ("sha1", len(m), m[:40].hex())
    for m, d in zip(msgs, res[len(msgs):]):
        rep.add_case(("b64", m))
        if d[0] != base64.b64encode(m) or d[1] != [m]:
            dis += 1
            first = first or ("base64", len(m), m[:40].hex())
    # strict decoding of arbitrary text: canonical base64 is decoded, everything else refused
    texts = []
    for _ in range(300 if tier == "quick" else 5000):
        t = bytearray(base64.b64encode(bytes(bytearray(rnd.getrandbits(8) for _ in range(rnd.randrange(0, 12))))))
        k = rnd.random()
        if k < 0.3 and t:
            t[rnd.randrange(len(t))] = rnd.choice(b"=-_ \n*Az09+/")
        elif k < 0.4:
            t = t[:rnd.randrange(len(t) + 1)]
        elif k < 0.5:
            t += rnd.choice([b"=", b"==", b"A", b"AA=="])
        texts.append(bytes(t))
    tres = model.run([[37, t] for t in texts])
    for t, d in zip(texts, tres):
        rep.add_case(("b64-decode", t))
        try:
            exp = base64.b64decode(t, validate=True)
            if base64.b64encode(exp) != t:
                exp = None      # non-canonical spelling (unused bits set, padding inside): the strict decoder refuses it
        except Exception:
            exp = None
        got = d[2][0] if d[2] else None
        if got != exp:
            dis += 1
            first = first or ("base64-decode", t, got, exp)
    # the handshake values against the real object
    keys = [bytes(bytearray(rnd.getrandbits(8) for _ in range(16))) for _ in range(120 if tier == "quick" else 3000)]
    keys += [b"\x00" * 16, b"\xff" * 16, bytes(bytearray(range(16))), b"\xfb\xef\xbe" * 5 + b"\xfb"]
    hres = model.run([[34, k] for k in keys])
    rep.watch_extraction(model, [[34, k] for k in keys[:40]])
    for k16, (mkey, maccept) in zip(keys, hres):
        rep.add_case(("handshake-values", k16))
        other = bytearray(maccept)
        i = rnd.randrange(0, 27)
        other[i] = ord("A") if chr(other[i]).lower() != "a" else ord("B")       # another base64 character, not a case variant
        cands = [maccept, bytes(other), maccept[:-1], maccept + b"=", digest(k16[::-1]) if k16[::-1] != k16 else b"x"]
        key, verdicts = real_key_and_verdicts(k16, cands)
        complaint = None
        if key != base64.b64encode(k16) or len(key) != 24:
            complaint = "the Sec-WebSocket-Key %r is not the base64 text of the 16 random bytes %s" % (key, k16.hex())
        elif maccept != digest(k16):
            complaint = None
            dis += 1
            first = first or ("accept_of", k16.hex(), maccept, digest(k16))
        elif verdicts != [True, False, False, False, False]:
            complaint = "for the key %r the reply values %r are taken/refused as %r; only the first one is base64(sha1(key + GUID))" % (key, cands, verdicts)
        if mkey != key and not complaint:
            dis += 1
            first = first or ("make_key", k16.hex(), mkey, key)
        if complaint:
            rep.violation(complaint, scenario=dict(kind="handshake-values", key16=k16.hex(), candidates=[c.decode("latin-1") for c in cands]), family="C10:digest")
    if dis and not rep.violations:
        rep.broken("correspondence C10:digest: the model's SHA-1/base64 and the functions lomond calls differ on %d inputs; first %r" % (dis, first))
    rep.families.append(dict(name="C10:digest", cases=2 * len(msgs) + len(texts) + len(keys), disagreements=dis,
                             rule="the model's SHA-1 against hashlib.sha1 and its base64 against base64.b64encode on every length 0..259 (thorough ..1199, 64 KiB, 100 kB) plus random longer inputs and the padding boundaries 55/56/63/64/119/120; strict decoding of damaged base64 text; for random and special 16-byte os.urandom results: the real WebSocket's key equals the model's make_key, and the real on_response accepts a reply carrying the model's accept_of(key) and refuses that value with one character replaced, truncated, extended, and the digest of another key"))


def replay_digest(sc):
    k16 = bytes.fromhex(sc["key16"])
    cands = [c.encode("latin-1") for c in sc["candidates"]]
    key, verdicts = real_key_and_verdicts(k16, cands)
    ok = key == base64.b64encode(k16) and verdicts == [c == digest(k16) for c in cands]
    print("key", key, "verdicts", verdicts)
    print("REPLAY:", "property holds on this input" if ok else "VIOLATION reproduced: key or accept verdicts differ from base64/SHA-1 of the key")
    return 0 if ok else 1


def run(rep, info, model, tier, seed):
    rnd = random.Random(seed)
    proof_ok = rep.proof_obligations(info, "props/C10.v")
    rep.assumptions += ["SHA-1 and base64 are inside the model (Digest.v) and compared with hashlib/base64 and with the real object on every run; the theorems say nothing about SHA-1's collision resistance",
                        "status lines are HTTP-version SP 3DIGIT SP reason; lomond's tolerant int() ('+101', '1_01') is outside the quantifier"]
    # ---- requests
    nreq = 400 if tier == "quick" else 5000
    reqs = [gen_request_case(rnd) for _ in range(nreq)]
    import lomond.constants as LC
    fam.run_family(rep, None, "C10:requests", reqs, request_oracle,
                   rule="URL shapes (ws/wss in either letter case x user information x host case x default/explicit/zero-padded/empty port x path x query x fragment) x protocols x compress x agent x custom headers x random 16-byte key; the written request is parsed by a strict HTTP/1.1 parser in the harness and every required header checked; compared byte-for-byte with the model's build_request")
    if model is not None:
        res = fam.run_impl_many([fam.strip_meta(s) for s in reqs[:nreq]])
        mreq = []
        for sc in reqs:
            e = sc["_exp"]
            # the model reads the URL itself (Url.parse_url) and derives the key from the 16 random bytes (Digest.make_key)
            mreq.append([39, sc["url"].encode(), e["key16"], (e["agent"] or LC.USER_AGENT).encode(),
                         [[h, v] for h, v in e["headers"]], [p.encode() for p in e["protocols"]], 1 if e["compress"] else 0, 13])
        mres = [m[0] if m else None for m in model.run(mreq)]
        rep.watch_extraction(model, mreq)
        dis = 0
        for sc, (tr, extra), m in zip(reqs, res, mres):
            if extra.get("request") != m:
                dis += 1
                if dis == 1:
                    first = (sc.get("url"), extra.get("request"), m)
        if dis and not rep.violations:
            rep.broken("correspondence C10:requests: model build_request differs from the implementation on %d requests; first: %r" % (dis, first))
    digest_family(rep, model, rnd, tier)
    url_readings(rep, model, rnd, tier)
    # fresh key per connection on the same object
    ks = fresh_keys()
    rep.add_case("fresh-key")
    if len(set(ks)) != 3 or any(base64.b64decode(k) == b"" for k in ks):
        rep.violation("successive connection attempts on one WebSocket reuse the handshake key (%r)" % ks, scenario=dict(kind="fresh-key"), family="C10:fresh-key")
    # ---- the accept value is checked against the key of THIS attempt, also on a WebSocket object that was connected before
    reconnect_family(rep, rnd, 24 if tier == "quick" else 300)
    # ---- replies
    nrep = 2000 if tier == "quick" else 30000
    scs = []
    prev = b"\x07" * 16
    for _ in range(nrep):
        sc, prev = gen_reply_case(rnd, prev)
        scs.append(sc)
        rep.count("reply_kind", sc["_kind"])
        rep.count("expect", sc["_expect"])
    fam.run_family(rep, model, "C10:replies", scs, reply_oracle, project=fam.no_waits, known=known,
                   rule="replies rendered from an intended header list: permuted, names in random letter case, optional whitespace, obsolete line folding, duplicate irrelevant headers, protocol/extension headers; wrong accepts (random, digest of another key, of the previous connection's key, letter-case variants, truncations, trailing junk); status codes; header blocks around and above 16 KiB terminated or not; garbage; every segmentation class; the expected verdict is computed from the intent with hashlib")
    if not proof_ok and not [v for v in rep.violations if not v.get("kf")]:
        rep.broken("proof obligation props/C10.v no longer checks: %s" % (rep.coq_failure,))


def replay(body):
    sc = fam.unjson_sc(body["scenario"])
    if sc.get("kind") == "handshake-values":
        return replay_digest(body["scenario"])
    if sc.get("kind") == "reconnect":
        import lomond.websocket as W
        ws = W.WebSocket("ws://example.test/chat")
        a = dict(sc["previous"], _ws_object=ws)
        a["steps"] = [tuple(x) for x in a["steps"]]
        simnet.run_impl(a)
        b = dict(sc["next"], _ws_object=ws)
        b["steps"] = [tuple(x) for x in b["steps"]]
        r = simnet.run_impl(b)
        codes = fam.event_codes(simnet.canon_trace(r.trace))
        print("events of the second attempt:", codes)
        stale = sc.get("stale")
        if stale is None:
            stale = "FIRST attempt" in (body.get("what") or "")
        bad = bool(r.escaped) or (stale and (4 in codes or 3 not in codes)) or ((not stale) and 4 not in codes)
        print("REPLAY:", "VIOLATION reproduced" if bad else "property holds on this input")
        return 1 if bad else 0
    if sc.get("kind") == "fresh-key":
        ks = fresh_keys()
        bad = len(set(ks)) != 3 or any(base64.b64decode(k) == b"" for k in ks)
        print("keys of three successive requests:", ks)
        print("REPLAY:", "VIOLATION reproduced" if bad else "property holds on this input")
        return 1 if bad else 0
    if body.get("family") in ("C10:replies", "C10:requests") and ("_exp" in sc or "_kind" in sc):
        def reply_o(sc, tr, extra):
            sc.setdefault("_proto", None)
            sc.setdefault("_ext", False)
            return [c for c in reply_oracle(sc, tr, extra) if not known(sc, c)]
        return fam.replay_generic(body, {"C10:replies": reply_o, "C10:requests": request_oracle})
    r = simnet.run_impl(sc)
    tr = simnet.canon_trace(r.trace)
    extra = dict(sock_closed=r.sock.closed if r.sock else None, escaped=r.escaped, request=r.request)
    print("events:", fam.event_codes(tr))
    if "_exp" in sc:
        res = request_oracle(sc, tr, extra)
    elif "_expect" in sc and "_kind" in sc:
        sc.setdefault("_proto", None)
        sc.setdefault("_ext", False)
        res = [c for c in reply_oracle(sc, tr, extra) if not known(sc, c)]
    else:
        exp = body.get("expected")
        codes = fam.event_codes(tr)
        res = []
        if exp == "ready" and 4 not in codes:
            res = ["no Ready for a correct reply"]
        if exp in ("rejected", "protocol_error") and (4 in codes or any(c in (6, 7, 8, 9, 10, 11) for c in codes)):
            res = ["Ready or message events for an incorrect reply"]
    print("REPLAY:", ("VIOLATION reproduced: %s" % res[0]) if res else "property holds on this input")
    return 1 if res else 0
