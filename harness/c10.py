"""C10 -- Ready is granted only for a correct upgrade reply to a well-formed request."""
from __future__ import print_function
import base64
import hashlib
import random

from . import core, fam, scen, simnet, ref6455

GUID = b"258EAFA5-E914-47DA-95CA-C5AB0DC85B11"


def digest(key16):
    return base64.b64encode(hashlib.sha1(base64.b64encode(key16) + GUID).digest())


# ---------------------------------------------------------------- requests
def gen_request_case(rnd):
    scheme = rnd.choice(["ws", "wss"])
    host = rnd.choice(["example.test", "Example.TEST", "a.b-c.example", "127.0.0.1", "localhost"])
    port = rnd.choice([None, None, 80, 443, 8080, 9001, 65535, 1])
    path = rnd.choice(["", "/", "/chat", "/a/b/c", "/x%20y", "/p;q"])
    query = rnd.choice(["", "", "x=1", "a=b&c=d", "q=%C3%A9"])
    url = "%s://%s%s%s%s" % (scheme, host, "" if port is None else ":%d" % port, path, "?" + query if query else "")
    protocols = rnd.choice([[], [], ["chat"], ["chat", "superchat"], ["v1.proto", "v2.proto", "v3"]])
    compress = rnd.random() < 0.4
    agent = rnd.choice([None, "TestAgent/1.0", "x"])
    headers = rnd.choice([[], [], [(b"X-Custom", b"1")], [(b"Authorization", b"Bearer abc.def"), (b"X-Two", b"a b  c")]])
    key16 = bytes(bytearray(rnd.getrandbits(8) for _ in range(16)))
    exp = dict(host=host.lower(), port=port if port is not None else (443 if scheme == "wss" else 80),
               resource=(path or "/") + ("?" + query if query else ""), protocols=protocols, compress=compress, agent=agent, headers=headers, key16=key16)
    kw = dict(protocols=protocols, compress=compress, proxies={})
    if agent:
        kw["agent"] = agent
    sc = dict(cfg=simnet.default_cfg(), steps=[("data", 0, ref6455.handshake_response(simnet.accept_for(key16))), ("eof", 0)], key16=key16, url=url, ws_kwargs=kw, headers=headers, keys=[])
    sc["_exp"] = exp
    return sc


def parse_request(raw):
    """independent HTTP/1.1 request parser (RFC 7230 grammar, strict)"""
    if not raw.endswith(b"\r\n\r\n"):
        return None, "request does not end with CRLF CRLF"
    head = raw[:-4]
    if b"\r\n\r\n" in head:
        return None, "empty line inside the header block"
    lines = head.split(b"\r\n")
    parts = lines[0].split(b" ")
    if len(parts) != 3 or parts[0] != b"GET" or parts[2] != b"HTTP/1.1":
        return None, "bad request line %r" % lines[0]
    hdrs = []
    for ln in lines[1:]:
        if b":" not in ln or ln[:1] in (b" ", b"\t"):
            return None, "bad header line %r" % ln
        n, v = ln.split(b":", 1)
        if not n or any(c in b" \t\r\n" for c in bytearray(n)) or b"\r" in v or b"\n" in v:
            return None, "bad header line %r" % ln
        hdrs.append((n.lower(), v.strip(b" \t")))
    return (parts[1], hdrs), None


def request_oracle(sc, tr, extra):
    exp = sc["_exp"]
    raw = extra.get("request")
    if raw is None:
        return ["no upgrade request was written"]
    parsed, err = parse_request(raw)
    if err:
        return ["the upgrade request is not well-formed HTTP/1.1: " + err]
    resource, hdrs = parsed
    out = []
    if resource != exp["resource"].encode():
        out.append("request target %r, the URL's resource is %r" % (resource, exp["resource"]))
    d = {}
    for n, v in hdrs:
        d.setdefault(n, []).append(v)

    def one(name, want):
        got = d.get(name)
        if got != [want]:
            out.append("header %s is %r, expected exactly one with value %r" % (name.decode(), got, want))
    one(b"host", ("%s:%d" % (exp["host"], exp["port"])).encode())
    one(b"upgrade", b"websocket")
    one(b"connection", b"Upgrade")
    one(b"sec-websocket-version", b"13")
    one(b"sec-websocket-key", base64.b64encode(exp["key16"]))
    if exp["protocols"]:
        got = d.get(b"sec-websocket-protocol")
        if not got or [p.strip() for p in b",".join(got).split(b",")] != [p.encode() for p in exp["protocols"]]:
            out.append("offered protocols %r, expected %r" % (got, exp["protocols"]))
    elif b"sec-websocket-protocol" in d:
        out.append("Sec-WebSocket-Protocol sent although no protocol is offered")
    if exp["compress"]:
        got = b",".join(d.get(b"sec-websocket-extensions", []))
        if b"permessage-deflate" not in got:
            out.append("compress=True but permessage-deflate is not offered")
    elif b"sec-websocket-extensions" in d:
        out.append("an extension is offered although compress=False")
    for n, v in exp["headers"]:
        if v not in d.get(n.lower(), []):
            out.append("custom header %r: %r missing" % (n, v))
    if exp["agent"] and d.get(b"user-agent") != [exp["agent"].encode()]:
        out.append("User-Agent %r, expected %r" % (d.get(b"user-agent"), exp["agent"]))
    return out


# ---------------------------------------------------------------- replies
def case_variant(rnd, b):
    return bytes(bytearray((c ^ 0x20) if (65 <= c <= 90 or 97 <= c <= 122) and rnd.random() < 0.5 else c for c in bytearray(b)))


def render_reply(rnd, status_line, headers, fold_ok=True):
    hs = list(headers)
    rnd.shuffle(hs)
    out = status_line + b"\r\n"
    for n, v in hs:
        n2 = case_variant(rnd, n)
        lead = rnd.choice([b" ", b"", b"  ", b"\t", b" \t "])
        trail = rnd.choice([b"", b"", b" ", b"\t "])
        if fold_ok and rnd.random() < 0.2:
            # obsolete line folding: the value continues on the next line after leading whitespace
            if b" " in v and rnd.random() < 0.5:
                i = v.index(b" ")
                out += n2 + b":" + lead + v[:i] + b"\r\n" + rnd.choice([b" ", b"\t", b"   "]) + v[i + 1:] + trail + b"\r\n"
            else:
                out += n2 + b":" + b"\r\n" + rnd.choice([b" ", b"\t"]) + v + trail + b"\r\n"
        else:
            out += n2 + b":" + lead + v + trail + b"\r\n"
    return out + b"\r\n"


def gen_reply_case(rnd, prev_key16):
    key16 = bytes(bytearray(rnd.getrandbits(8) for _ in range(16)))
    good = digest(key16)
    kind = rnd.choice(["good", "good", "good", "status", "no_upgrade", "bad_upgrade", "no_accept", "wrong_accept", "accept_other_key", "accept_prev_key",
                       "accept_case", "accept_trunc", "accept_extra", "accept_8bit", "upgrade_8bit", "big_terminated", "big_unterminated", "garbage"])
    status = b"101"
    headers = [(b"Upgrade", rnd.choice([b"websocket", b"WebSocket", b"WEBSOCKET"])), (b"Connection", b"Upgrade"), (b"Sec-WebSocket-Accept", good),
               (b"Server", b"unit test"), (b"X-Pad", b"a, b;c=d")]
    expect = "ready"
    proto = None
    ext = False
    if rnd.random() < 0.4:
        proto = rnd.choice([b"chat", b"v2.proto"])
        headers.append((b"Sec-WebSocket-Protocol", proto))
    if rnd.random() < 0.3:
        ext = True
        from . import c06
        headers.append((b"Sec-WebSocket-Extensions", rnd.choice([b"permessage-deflate", b"permessage-deflate; server_max_window_bits=12", b"permessage-deflate; client_no_context_takeover; client_max_window_bits=10",
                                                                  c06.ext_header(rnd, rnd.choice([9, 12, 15]), rnd.choice([10, 15]), rnd.random() < 0.5, rnd.random() < 0.5),
                                                                  b"permessage-deflate ; server_max_window_bits=12", b"permessage-deflate\t; client_max_window_bits = 11"])))
    if rnd.random() < 0.2:
        headers.append((b"X-Dup", b"1"))
        headers.append((b"X-Dup", b"2"))
    reason = rnd.choice([b"Switching Protocols", b"OK", b"Web Socket Protocol Handshake", b"x", b"{reason} {0} %s", b"{"])
    if kind == "status":
        status = str(rnd.choice([100, 102, 200, 201, 204, 301, 302, 400, 401, 403, 404, 426, 500, 503, 599, 110, 111, 191, 1010 % 1000])).encode()
        if status == b"101":
            status = b"201"
        expect = "rejected"
    elif kind == "no_upgrade":
        headers = [h for h in headers if h[0] != b"Upgrade"]
        expect = "rejected"
    elif kind == "bad_upgrade":
        headers = [(n, rnd.choice([b"websockets", b"h2c", b"web socket", b"", b"{websocket}", b"{}", b"websocket}", b"{0}", b"%s websocket %d", b"{upgrade!r:>{width}}"])) if n == b"Upgrade" else (n, v) for n, v in headers]
        expect = "rejected"
    elif kind == "no_accept":
        headers = [h for h in headers if h[0] != b"Sec-WebSocket-Accept"]
        expect = "rejected"
    elif kind == "upgrade_8bit":
        # bytes that are not ASCII inside a header value are not "nothing"
        headers = [(n, rnd.choice([b"web\xe2\x80\x8bsocket", b"websocket\xa0", b"\xffwebsocket"])) if n == b"Upgrade" else (n, v) for n, v in headers]
        expect = "rejected"
    elif kind == "accept_8bit":
        k = rnd.randrange(0, len(good) + 1)
        bad = good[:k] + rnd.choice([b"\xe2\x80\x8b", b"\xa0", b"\xff", b"\xc3\xa9"]) + good[k:]
        headers = [(n, bad) if n == b"Sec-WebSocket-Accept" else (n, v) for n, v in headers]
        expect = "rejected"
    elif kind in ("wrong_accept", "accept_other_key", "accept_prev_key", "accept_trunc", "accept_extra", "accept_case"):
        if kind == "wrong_accept":
            bad = base64.b64encode(bytes(bytearray(rnd.getrandbits(8) for _ in range(20))))
        elif kind == "accept_other_key":
            bad = digest(bytes(bytearray(rnd.getrandbits(8) for _ in range(16))))
        elif kind == "accept_prev_key":
            bad = digest(prev_key16)
        elif kind == "accept_trunc":
            bad = good[:rnd.choice([0, 1, 27, 26])]
        elif kind == "accept_extra":
            bad = good + rnd.choice([b"=", b"A", b"x y", b"{}", b"{0!r}", b"%d"])
        else:
            bad = good.swapcase() if rnd.random() < 0.5 else case_variant(rnd, good)
        if bad == good:
            bad = good[:-2] + b"A="
        headers = [(n, bad) if n == b"Sec-WebSocket-Accept" else (n, v) for n, v in headers]
        expect = "rejected"
    status_line = b"HTTP/1.1 " + status + (b" " + reason if reason else b"")
    fold_ok = True
    reply = render_reply(rnd, status_line, headers, fold_ok)
    big_cut = None
    if kind == "big_terminated":
        # the limit counts the terminator: every total length around 16384, in one read, cut anywhere, or cut inside the terminator
        pad = rnd.choice([16380, 16383, 16384, 16384, 16385, 16385, 16386, 16387, 16388, 16389, 16392, 17000, 40000]) - len(reply) - len(b"X-Big: \r\n")
        reply = reply[:-2] + b"X-Big: " + b"z" * max(pad, 0) + b"\r\n\r\n"
        expect = "protocol_error" if len(reply) > 16384 else "ready"
        big_cut = rnd.choice(["one", "one", "tail", "random"])
    elif kind == "big_unterminated":
        reply = reply[:-4] + b"\r\nX-Big: " + b"z" * rnd.choice([16400, 30000])
        expect = "protocol_error"
    elif kind == "garbage":
        reply = rnd.choice([b"\r\n\r\n", b"HTTP/1.1\r\n\r\n", b"hello world\r\n\r\n", b"HTTP/1.1 abc Switching\r\n\r\n", b"\x00\xff\xfe\r\n\r\n"])
        expect = "rejected"
    stream = reply + ref6455.encode_frame(1, b"first")
    if big_cut is None and kind not in ("big_unterminated", "garbage") and rnd.random() < 0.08:
        # a lot of frame data right behind the reply, in the same read: it is not part of the header block
        stream += ref6455.encode_frame(2, b"\x00" * rnd.choice([17000, 30000]))
        big_cut = "one"
    if big_cut == "one":
        chunks = [stream]
    elif big_cut == "tail":
        k = len(reply) - rnd.choice([1, 2, 3, 4, 5])
        chunks = [stream[:k], stream[k:]]
    else:
        chunks = scen.chunkings(rnd, stream, rnd.choice(["one", "random", "small"]) if len(stream) < 3000 else "random")
    sc = dict(cfg=simnet.default_cfg(), steps=scen.steps_from_chunks(chunks), key16=key16, keys=[b"\x00\x00\x00\x00"] * 3,
              ztape=[b"first"] * 2)
    sc["_kind"] = kind
    sc["_expect"] = expect
    sc["_proto"] = proto
    sc["_ext"] = ext
    sc["_accept_case_only"] = kind == "accept_case"
    return sc, key16


def reply_oracle(sc, tr, extra):
    if extra.get("escaped"):
        return ["exception %s escaped the iterator" % extra["escaped"]]
    evs = [it[1] for it in tr if it[0] == 0]
    codes = [e[0] for e in evs]
    exp = sc["_expect"]
    out = []
    if exp == "ready":
        if 4 not in codes:
            out.append("a correct upgrade reply (%s) did not yield Ready (events %s)" % (sc["_kind"], codes))
        else:
            r = evs[codes.index(4)]
            want_proto = [] if sc["_proto"] is None else [sc["_proto"]]
            if r[1] != want_proto:
                out.append("Ready reports protocol %r, the reply negotiated %r" % (r[1], want_proto))
            if bool(r[2]) != sc["_ext"]:
                out.append("Ready reports extensions=%r, the reply negotiated permessage-deflate=%r" % (r[2], sc["_ext"]))
    else:
        if 4 in codes:
            out.append("Ready was yielded for an incorrect upgrade reply (%s)" % sc["_kind"])
        if any(c in (6, 7, 8, 9, 10, 11) for c in codes):
            out.append("message events were delivered although the upgrade was not accepted (%s)" % sc["_kind"])
        if exp == "rejected" and 3 not in codes:
            out.append("an incorrect upgrade reply (%s) did not yield Rejected (events %s)" % (sc["_kind"], codes))
        if exp == "protocol_error" and 13 not in codes:
            out.append("a header block above 16 KiB did not yield ProtocolError (events %s)" % codes)
        if extra.get("sock_closed") is False:
            out.append("the socket was not closed after the failed upgrade")
    return out


def known(sc, complaint):
    if sc.get("_accept_case_only") and complaint.startswith("Ready was yielded"):
        return "KF-D"
    return None


def reconnect_family(rep, rnd, n):
    """two attempts on one WebSocket object: the first reaches the accept comparison; the second (fresh key) gets either the
    digest of its own key (must be Ready) or the digest of the first attempt's key (must be Rejected)"""
    import lomond.websocket as W
    cases = 0
    for i in range(n):
        k1 = bytes(bytearray(rnd.getrandbits(8) for _ in range(16)))
        k2 = bytes(bytearray(rnd.getrandbits(8) for _ in range(16)))
        first_kind = rnd.choice(["ready", "ready", "wrong-accept", "upgrade-missing-accept-present"])
        if first_kind == "ready":
            r1 = ref6455.handshake_response(simnet.accept_for(k1))
        elif first_kind == "wrong-accept":
            r1 = ref6455.handshake_response(simnet.accept_for(k2[::-1]))
        else:
            r1 = ref6455.handshake_response(simnet.accept_for(k1)).replace(b"websocket", b"websockets")
        stale = (i % 2 == 1)
        r2 = ref6455.handshake_response(simnet.accept_for(k1 if stale else k2))
        sc1 = dict(cfg=simnet.default_cfg(), steps=[("data", 0, r1), ("eof", 0)], key16=k1, keys=[b"\x00" * 4] * 3)
        sc2 = dict(cfg=simnet.default_cfg(), steps=[("data", 0, r2 + ref6455.encode_frame(1, b"first")), ("eof", 0)], key16=k2, keys=[b"\x00" * 4] * 3)
        ws = W.WebSocket("ws://example.test/chat")
        a = dict(sc1)
        a["_ws_object"] = ws
        simnet.run_impl(a)
        b = dict(sc2)
        b["_ws_object"] = ws
        r = simnet.run_impl(b)
        codes = fam.event_codes(simnet.canon_trace(r.trace))
        cases += 1
        rep.add_case(("reconnect", i, first_kind, stale))
        rep.count("reconnect.first", first_kind)
        bad = None
        if r.escaped:
            bad = "exception %s escaped the iterator" % r.escaped
        elif stale and (4 in codes or 3 not in codes):
            bad = "the second attempt on the same WebSocket accepted the digest of the FIRST attempt's key (events %s)" % codes
        elif not stale and 4 not in codes:
            bad = "the second attempt on the same WebSocket rejected the correct digest of its own fresh key (events %s)" % codes
        if bad:
            rep.violation(bad, scenario=dict(kind="reconnect", stale=stale, previous=fam.jsonable_sc(sc1), next=fam.jsonable_sc(sc2)), family="C10:reconnect")
    rep.families.append(dict(name="C10:reconnect", cases=cases, rule="two attempts on one WebSocket object (first: Ready / wrong accept / bad Upgrade), the second with a fresh key and a reply carrying the digest of its own key (Ready expected) or of the previous attempt's key (Rejected expected)"))


def fresh_keys():
    """the Sec-WebSocket-Key of three successive requests of one WebSocket object, os.urandom on a tape"""
    import lomond.websocket as W
    seen = []
    old = W.os
    tape = [bytes([i]) * 16 for i in range(1, 6)]

    class OsP(object):
        def urandom(self, n):
            return tape.pop(0) if n == 16 else old.urandom(n)

        def __getattr__(self, k):
            return getattr(old, k)
    W.os = OsP()
    try:
        ws = W.WebSocket("ws://example.test/")
        for i in range(3):
            ws.reset()
            seen.append(ws.build_request())
    finally:
        W.os = old
    return [[l for l in r.split(b"\r\n") if l.lower().startswith(b"sec-websocket-key")][0].split(b":")[1].strip() for r in seen]


def run(rep, info, model, tier, seed):
    rnd = random.Random(seed)
    proof_ok = rep.proof_obligations(info, "props/C10.v")
    rep.assumptions += ["SHA-1/base64 are outside the model: the expected accept value is computed by hashlib in the harness from the request actually written",
                        "status lines are HTTP-version SP 3DIGIT SP reason; lomond's tolerant int() ('+101', '1_01') is outside the quantifier"]
    # ---- requests
    nreq = 400 if tier == "quick" else 5000
    reqs = [gen_request_case(rnd) for _ in range(nreq)]
    import lomond.constants as LC
    fam.run_family(rep, None, "C10:requests", reqs, request_oracle,
                   rule="URL shapes (ws/wss x host case x default/explicit port x path x query) x protocols x compress x agent x custom headers x random 16-byte key; the written request is parsed by a strict HTTP/1.1 parser in the harness and every required header checked; compared byte-for-byte with the model's build_request")
    if model is not None:
        res = fam.run_impl_many([fam.strip_meta(s) for s in reqs[:nreq]])
        mreq = []
        for sc in reqs:
            e = sc["_exp"]
            mreq.append([30, e["resource"].encode(), e["host"].encode(), e["port"], base64.b64encode(e["key16"]), (e["agent"] or LC.USER_AGENT).encode(),
                         [[h, v] for h, v in e["headers"]], [p.encode() for p in e["protocols"]], 1 if e["compress"] else 0, 13])
        mres = model.run(mreq)
        rep.watch_extraction(model, mreq)
        dis = 0
        for sc, (tr, extra), m in zip(reqs, res, mres):
            if extra.get("request") != m:
                dis += 1
                if dis == 1:
                    first = (sc.get("url"), extra.get("request"), m)
        if dis and not rep.violations:
            rep.broken("correspondence C10:requests: model build_request differs from the implementation on %d requests; first: %r" % (dis, first))
    # fresh key per connection on the same object
    ks = fresh_keys()
    rep.add_case("fresh-key")
    if len(set(ks)) != 3 or any(base64.b64decode(k) == b"" for k in ks):
        rep.violation("successive connection attempts on one WebSocket reuse the handshake key (%r)" % ks, scenario=dict(kind="fresh-key"), family="C10:fresh-key")
    # ---- the accept value is checked against the key of THIS attempt, also on a WebSocket object that was connected before
    reconnect_family(rep, rnd, 24 if tier == "quick" else 300)
    # ---- replies
    nrep = 2000 if tier == "quick" else 30000
    scs = []
    prev = b"\x07" * 16
    for _ in range(nrep):
        sc, prev = gen_reply_case(rnd, prev)
        scs.append(sc)
        rep.count("reply_kind", sc["_kind"])
        rep.count("expect", sc["_expect"])
    fam.run_family(rep, model, "C10:replies", scs, reply_oracle, project=fam.no_waits, known=known,
                   rule="replies rendered from an intended header list: permuted, names in random letter case, optional whitespace, obsolete line folding, duplicate irrelevant headers, protocol/extension headers; wrong accepts (random, digest of another key, of the previous connection's key, letter-case variants, truncations, trailing junk); status codes; header blocks around and above 16 KiB terminated or not; garbage; every segmentation class; the expected verdict is computed from the intent with hashlib")
    if not proof_ok and not [v for v in rep.violations if not v.get("kf")]:
        rep.broken("proof obligation props/C10.v no longer checks: %s" % (rep.coq_failure,))


def replay(body):
    sc = fam.unjson_sc(body["scenario"])
    if sc.get("kind") == "reconnect":
        import lomond.websocket as W
        ws = W.WebSocket("ws://example.test/chat")
        a = dict(sc["previous"], _ws_object=ws)
        a["steps"] = [tuple(x) for x in a["steps"]]
        simnet.run_impl(a)
        b = dict(sc["next"], _ws_object=ws)
        b["steps"] = [tuple(x) for x in b["steps"]]
        r = simnet.run_impl(b)
        codes = fam.event_codes(simnet.canon_trace(r.trace))
        print("events of the second attempt:", codes)
        stale = sc.get("stale")
        if stale is None:
            stale = "FIRST attempt" in (body.get("what") or "")
        bad = bool(r.escaped) or (stale and (4 in codes or 3 not in codes)) or ((not stale) and 4 not in codes)
        print("REPLAY:", "VIOLATION reproduced" if bad else "property holds on this input")
        return 1 if bad else 0
    if sc.get("kind") == "fresh-key":
        ks = fresh_keys()
        bad = len(set(ks)) != 3 or any(base64.b64decode(k) == b"" for k in ks)
        print("keys of three successive requests:", ks)
        print("REPLAY:", "VIOLATION reproduced" if bad else "property holds on this input")
        return 1 if bad else 0
    if body.get("family") in ("C10:replies", "C10:requests") and ("_exp" in sc or "_kind" in sc):
        def reply_o(sc, tr, extra):
            sc.setdefault("_proto", None)
            sc.setdefault("_ext", False)
            return [c for c in reply_oracle(sc, tr, extra) if not known(sc, c)]
        return fam.replay_generic(body, {"C10:replies": reply_o, "C10:requests": request_oracle})
    r = simnet.run_impl(sc)
    tr = simnet.canon_trace(r.trace)
    extra = dict(sock_closed=r.sock.closed if r.sock else None, escaped=r.escaped, request=r.request)
    print("events:", fam.event_codes(tr))
    if "_exp" in sc:
        res = request_oracle(sc, tr, extra)
    elif "_expect" in sc and "_kind" in sc:
        sc.setdefault("_proto", None)
        sc.setdefault("_ext", False)
        res = [c for c in reply_oracle(sc, tr, extra) if not known(sc, c)]
    else:
        exp = body.get("expected")
        codes = fam.event_codes(tr)
        res = []
        if exp == "ready" and 4 not in codes:
            res = ["no Ready for a correct reply"]
        if exp in ("rejected", "protocol_error") and (4 in codes or any(c in (6, 7, 8, 9, 10, 11) for c in codes)):
            res = ["Ready or message events for an incorrect reply"]
    print("REPLAY:", ("VIOLATION reproduced: %s" % res[0]) if res else "property holds on this input")
    return 1 if res else 0
