"""S-expression wire format shared with coq/model/Sx.v and extract/driver.ml.

python value  <->  text
int (>=0)          decimal
bytes/bytearray    #hex   ('#' alone is empty)
list/tuple         ( ... )
bool               1 / 0
None               ()
"""


def dumps(v):
    out = []
    _dump(v, out)
    return "".join(out)


def _dump(v, out):
    if v is True:
        out.append("1")
    elif v is False:
        out.append("0")
    elif v is None:
        out.append("()")
    elif isinstance(v, int):
        if v < 0:
            raise ValueError("negative atom %r" % v)
        out.append(str(v))
    elif isinstance(v, (bytes, bytearray, memoryview)):
        out.append("#" + bytes(v).hex())
    elif isinstance(v, (list, tuple)):
        out.append("(")
        first = True
        for x in v:
            if not first:
                out.append(" ")
            first = False
            _dump(x, out)
        out.append(")")
    else:
        raise TypeError("cannot encode %r" % (v,))


def loads(s):
    pos = 0
    n = len(s)
    stack = [[]]
    while pos < n:
        c = s[pos]
        if c in " \t\r\n":
            pos += 1
        elif c == "(":
            stack.append([])
            pos += 1
        elif c == ")":
            top = stack.pop()
            stack[-1].append(top)
            pos += 1
        else:
            st = pos
            while pos < n and s[pos] not in " ()\t\r\n":
                pos += 1
            tok = s[st:pos]
            if tok[0] == "#":
                stack[-1].append(bytes.fromhex(tok[1:]))
            else:
                stack[-1].append(int(tok))
    if len(stack) != 1 or len(stack[0]) != 1:
        raise ValueError("bad sx: %r" % s[:200])
    return stack[0][0]
