"""C01 -- every server message is delivered once, in order, byte-exact."""
from __future__ import print_function
import itertools
import random

from . import core, fam, scen, simnet, ref6455


def make_scenario(rnd, big_ok=True):
    nmsg = rnd.choice([1, 1, 2, 3, 4, 6, 8])
    msgs = [scen.gen_message(rnd, big_ok=big_ok and nmsg <= 3) for _ in range(nmsg)]
    with_close = rnd.random() < 0.3
    if with_close:
        code = rnd.choice([1000, 1001, 1002, 1003, 1007, 1008, 1009, 1010, 1011, 1012, 1013, 3000, 4999, None])
        reason = b"" if code is None else scen.rand_text(rnd, rnd.choice([0, 1, 5, 123]))
        msgs.append(("close", ref6455.close_payload(code, reason)))
    frames, completed = scen.wire_plan(rnd, msgs)
    stream = scen.HANDSHAKE + scen.render(frames)
    mode = None
    if len(stream) > 5000:
        mode = rnd.choice(["one", "random", "random", "small"])
    # the handshake may or may not share a read with the first frames
    chunks = scen.chunkings(rnd, stream, mode)
    sc = dict(cfg=simnet.default_cfg(auto_pong=rnd.random() < 0.8), steps=scen.steps_from_chunks(chunks),
              keys=scen.keys(rnd, 12), key16=scen.KEY16)
    sc["_expect"] = scen.expected_events(completed)
    sc["_shape"] = dict(nmsg=len(msgs), nframes=len(frames), nchunks=len(chunks), maxlen=max(len(m[1]) for m in msgs),
                        nonminimal=sum(1 for f in frames if f[3] is not None), empty_frag=sum(1 for f in frames if f[0] in (0, 1, 2) and not f[2] and not f[1]),
                        ctrl_between=_ctrl_between(frames))
    return sc


def _ctrl_between(frames):
    n = 0
    inmsg = False
    for op, fin, p, lf in frames:
        if op in (1, 2, 0):
            inmsg = not fin
        elif inmsg:
            n += 1
    return n


def oracle(sc, tr, extra):
    out = []
    got = fam.message_events(tr)
    exp = sc["_expect"]
    if got != exp:
        k = 0
        while k < min(len(got), len(exp)) and got[k] == exp[k]:
            k += 1
        out.append("delivered messages differ from what the conforming server sent (first difference at message %d: got %s, expected %s; %d delivered, %d sent)" % (
            k, _short(got[k]) if k < len(got) else None, _short(exp[k]) if k < len(exp) else None, len(got), len(exp)))
    if any(it[0] == 0 and it[1][0] == 13 for it in tr):
        out.append("a ProtocolError was reported for a conforming stream")
    if not extra.get("alias_ok", True):
        out.append("an event's payload changed after it had been yielded (aliasing of the receive buffer)")
    if extra.get("escaped"):
        out.append("exception %s escaped the iterator" % extra["escaped"])
    return out


def _short(e):
    return [x if not isinstance(x, bytes) else (x[:24].hex() + ("..(%d bytes)" % len(x) if len(x) > 24 else "")) for x in e]


def exhaustive_small(limit_frames=3):
    """all conforming streams of <= 3 frames over a small alphabet (thorough)"""
    euro = "€".encode("utf-8")
    pay = [b"", b"a", euro[:1], euro[1:]]
    alphabet = [(op, fin, p) for op in (0, 1, 2, 9, 10) for fin in (0, 1) for p in pay]
    scs = []
    for n in range(1, limit_frames + 1):
        for combo in itertools.product(alphabet, repeat=n):
            completed = _conforming(combo)
            if completed is None:
                continue
            stream = scen.HANDSHAKE + b"".join(ref6455.encode_frame(op, p, fin=fin) for op, fin, p in combo)
            for chunks in ([stream], [stream[:len(scen.HANDSHAKE)]] + [stream[i:i + 1] for i in range(len(scen.HANDSHAKE), len(stream))]):
                sc = dict(cfg=simnet.default_cfg(), steps=scen.steps_from_chunks(chunks), keys=[b"\x11\x22\x33\x44"] * 4, key16=scen.KEY16)
                sc["_expect"] = scen.expected_events(completed)
                sc["_shape"] = dict(nframes=n)
                scs.append(sc)
    return scs


def _conforming(combo):
    """reference fold of a frame list into messages; None if not conforming (independent of lomond/model)"""
    cur = None
    done = []
    for op, fin, p in combo:
        if op in (9, 10):
            if not fin:
                return None
            done.append(("ping" if op == 9 else "pong", p))
        elif op == 0:
            if cur is None:
                return None
            cur[1] += p
            if fin:
                done.append((cur[0], bytes(cur[1])))
                cur = None
        else:
            if cur is not None:
                return None
            cur = ["text" if op == 1 else "binary", bytearray(p)]
            if fin:
                done.append((cur[0], bytes(cur[1])))
                cur = None
    if cur is not None:
        return None   # incomplete message at end of stream: keep the scope to complete messages
    for kind, p in done:
        if kind == "text":
            try:
                p.decode("utf-8")
            except UnicodeDecodeError:
                return None
    return done


def run(rep, info, model, tier, seed):
    rnd = random.Random(seed)
    proof_ok = rep.proof_obligations(info, "props/C01.v")
    rep.assumptions += ["aliasing of the receive buffer is outside the model (values are immutable there); it is decided on the implementation side only"]
    n = 1500 if tier == "quick" else 15000
    scs = [make_scenario(rnd) for _ in range(n)]
    # the same guarantee on connections that negotiated permessage-deflate (message histories of C06, judged as deliveries)
    from . import c06
    zscs = []
    for _ in range(n // 12):
        z = c06.gen(rnd, rnd.choice([8, 10, 15]), rnd.choice([9, 15]), rnd.random() < 0.3, rnd.random() < 0.3)
        z["_shape"] = None
        zscs.append(z)
    rep.count("compressed_connections", len(zscs))
    for sc in scs:
        sh = sc["_shape"]
        rep.count("nmsg", sh["nmsg"])
        rep.count("nframes", min(sh["nframes"], 12))
        rep.count("nchunks", "1" if sh["nchunks"] == 1 else ("2-9" if sh["nchunks"] < 10 else "10+"))
        rep.count("maxlen", "<126" if sh["maxlen"] < 126 else ("<65536" if sh["maxlen"] < 65536 else ">=65536"))
        rep.count("nonminimal_len_frames", min(sh["nonminimal"], 3))
        rep.count("ctrl_between_fragments", min(sh["ctrl_between"], 3))
        rep.count("empty_nonfinal_fragments", min(sh["empty_frag"], 2))
    fam.run_family(rep, model, "C01:conforming-streams", scs, oracle, project=fam.no_waits,
                   rule="random conforming server streams: 1-8 messages (+optional Close), boundary-biased sizes incl. 0/125/126/65535/65536, 1-5 fragments incl. empty ones, control frames between fragments, minimal and non-minimal length forms, random segmentation; expected events computed from the message list by the harness")
    fam.run_family(rep, model, "C01:conforming-streams+deflate", zscs, oracle, project=lambda t: [it for it in t if it[0] != 10],
                   rule="connections with permessage-deflate negotiated: 1-12 server messages compressed by an independent RFC 7692 peer (or not), fragmented anywhere, pings between fragments; the delivered message events must be the messages sent")
    if tier == "thorough":
        ex = exhaustive_small()
        fam.run_family(rep, model, "C01:exhaustive<=3frames", ex, oracle, project=fam.no_waits,
                       rule="all conforming streams of <=3 frames over opcode in {0,1,2,9,10} x fin x payload in {empty,'a',first/second part of the euro sign}, as one read and byte-at-a-time")
        rep.exhaustive["C01 conforming streams of <=3 frames over the small alphabet"] = True
    if not proof_ok and not rep.violations:
        rep.broken("proof obligation props/C01.v no longer checks: %s" % (rep.coq_failure,))


def replay(body):
    sc = fam.unjson_sc(body["scenario"])
    r = simnet.run_impl(sc)
    tr = simnet.canon_trace(r.trace)
    print("message events:", [_short(e) for e in fam.message_events(tr)])
    print("expected      :", body.get("expected"))
    exp = body.get("expected")
    # both sides in the form the replay file uses: byte strings as hex text
    norm = lambda v: core.json.loads(core.json.dumps(v, default=core._jsonable))
    ok = exp is None or norm(fam.message_events(tr)) == norm(exp)
    print("REPLAY:", "property holds on this input" if ok else "VIOLATION reproduced")
    return 0 if ok else 1
