"""Reference RFC 7692 (permessage-deflate) peer, written from the RFC with plain zlib objects.
Independent of lomond.compression."""
import zlib

TAIL = b"\x00\x00\xff\xff"


class Peer(object):
    """The *server* side of a connection whose negotiated parameters are
    server_max_window_bits (swb), client_max_window_bits (cwb) and the two no_context_takeover flags."""

    def __init__(self, swb=15, cwb=15, server_nct=False, client_nct=False):
        self.swb, self.cwb, self.server_nct, self.client_nct = swb, cwb, server_nct, client_nct
        self._co = None
        self._do = None

    # --- server -> client
    def compress(self, message, final=False):
        """final=True: flush with a DEFLATE block that has BFINAL set and append 0x00 (RFC 7692 section 7.2.3.4); zlib cannot
        go on after Z_FINISH, so the next message starts a new DEFLATE stream (with an empty window)."""
        if final == "mid":
            # the DEFLATE stream ends (BFINAL) in the middle of the message; the rest of the message is a new stream, which
            # later messages continue
            if self._co is None or self.server_nct:
                self._co = zlib.compressobj(zlib.Z_DEFAULT_COMPRESSION, zlib.DEFLATED, -max(self.swb, 9))
            k = len(message) // 2
            part1 = self._co.compress(message[:k]) + self._co.flush(zlib.Z_FINISH)
            self._co = zlib.compressobj(zlib.Z_DEFAULT_COMPRESSION, zlib.DEFLATED, -max(self.swb, 9))
            part2 = self._co.compress(message[k:]) + self._co.flush(zlib.Z_SYNC_FLUSH)
            assert part2.endswith(TAIL)
            return part1 + part2[:-4]
        if final:
            if self._co is None or self.server_nct:
                self._co = zlib.compressobj(zlib.Z_DEFAULT_COMPRESSION, zlib.DEFLATED, -max(self.swb, 9))
            data = self._co.compress(message) + self._co.flush(zlib.Z_FINISH)
            self._co = None
            return data + b"\x00"
        if self._co is None or self.server_nct:
            # zlib cannot deflate with an 8-bit window; 9 bits never produces a distance above 256-6 so it is compatible
            self._co = zlib.compressobj(zlib.Z_DEFAULT_COMPRESSION, zlib.DEFLATED, -max(self.swb, 9))
        data = self._co.compress(message) + self._co.flush(zlib.Z_SYNC_FLUSH)
        assert data.endswith(TAIL)
        return data[:-4]

    # --- client -> server
    def decompress(self, payload):
        if self._do is None or self.client_nct:
            self._do = zlib.decompressobj(-self.cwb)
        # a peer that really has only the negotiated 2^cwb window: zlib resolves back-references from its output buffer when
        # that is large enough, so the output is taken in small pieces and every distance has to be served by the window
        out = []
        data = payload + TAIL
        while data:
            out.append(self._do.decompress(data, 64))
            data = self._do.unconsumed_tail
        return b"".join(out)


def client_reference_compressor(cwb, client_nct):
    """what a conforming *client* compressor with zlib's default level produces (used for the model's tape)"""
    state = {"co": None}

    def compress(message):
        if state["co"] is None:
            state["co"] = zlib.compressobj(zlib.Z_DEFAULT_COMPRESSION, zlib.DEFLATED, -max(9, cwb))
        data = (state["co"].compress(message) + state["co"].flush(zlib.Z_SYNC_FLUSH))[:-4]
        if client_nct:
            state["co"] = None
        return data
    return compress


def inflate_message(payload, wbits):
    """What RFC 7692 section 7.2.2 yields for one message payload on a fresh context: append 00 00 ff ff and inflate; a
    block with BFINAL set ends a DEFLATE stream and what follows starts a new one (section 7.2.3.4).
    Returns (bytes or None for a DEFLATE error, whether a stream ended inside the message)."""
    data = payload + TAIL
    out = b""
    ended = False
    try:
        while True:
            d = zlib.decompressobj(-wbits)
            out += d.decompress(data)
            if d.unused_data:
                ended = True
                data = d.unused_data
                continue
            return out, ended
    except zlib.error:
        return None, ended
