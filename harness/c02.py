"""C02 -- the event stream does not depend on how TCP segments the byte stream."""
from __future__ import print_function
import itertools
import random

from . import core, fam, scen, simnet, ref6455

E = ref6455.encode_frame


def base_streams(rnd, n):
    """(label, frame bytes after the handshake, handshake bytes, app)"""
    out = []
    # always present: terminated header blocks whose total size sits on the 16 KiB limit (every cut position around their
    # end is tried below)
    for target in (16382, 16383, 16384, 16385):
        hs = scen.HANDSHAKE
        pad = target - len(hs) - len(b"X-Pad: \r\n")
        hs = hs[:-2] + b"X-Pad: " + b"p" * pad + b"\r\n\r\n"
        out.append(("bighdr", hs, E(1, b"after the header"), {}, None))
    # always present: a first response that is not the 101 -- an interim 100 / 102 / 103, a 200, a 404 with a body -- with a
    # complete 101 reply and frames right behind it (in the same read, in the next one, cut anywhere): whatever the client
    # makes of it, it makes the same of it under every segmentation
    for first in (b"HTTP/1.1 100 Continue\r\n\r\n", b"HTTP/1.1 102 Processing\r\n\r\n", b"HTTP/1.1 103 Early Hints\r\nLink: </s.css>; rel=preload\r\n\r\n",
                  b"HTTP/1.1 200 OK\r\nContent-Length: 2\r\n\r\nok", b"HTTP/1.1 404 Not Found\r\nContent-Length: 0\r\n\r\n"):
        out.append(("not101-first", first, scen.HANDSHAKE + E(1, b"behind the second reply") + E(9, b"p"), {}, len(first)))
    # always present: a reply whose header block contains bare line feeds (LF LF inside a header value, LF-only line ends) ahead
    # of its CRLF CRLF terminator, and payloads that contain CRLF CRLF themselves: where the header block ends does not depend
    # on what else is in the read
    for note in (b"X-Note: one\n\ntwo\r\n", b"X-Note: a\nX-Other: b\n\r\n", b"X-Note: \n\n\r\n"):
        hs = scen.HANDSHAKE[:-2] + note + b"\r\n"
        out.append(("bare-lf-in-header", hs, E(1, b"line one\r\n\r\nline three") + E(9, b"p\n\n") + E(2, b"\r\n\r\n"), {}, len(hs)))
    for i in range(n):
        kind = rnd.choice(["valid", "valid", "invalid", "appclose", "appsend", "bighdr", "closemid"])
        hs = scen.HANDSHAKE
        app = {}
        bad_off = None
        if kind == "bighdr":
            # header block around the 16 KiB limit, terminated or not
            target = rnd.choice([16380, 16383, 16384, 16385, 16390])
            pad = target - len(hs) - len(b"X-Pad: \r\n")
            hs = hs[:-2] + b"X-Pad: " + b"p" * max(pad, 0) + b"\r\n\r\n"
            if rnd.random() < 0.3:
                hs = hs[:-4]  # unterminated
        msgs = [scen.gen_message(rnd, big_ok=False) for _ in range(rnd.choice([1, 2, 3, 5]))]
        frames, completed = scen.wire_plan(rnd, msgs)
        body = scen.render(frames)
        if kind == "invalid":
            bad = rnd.choice([E(3, b"x"), E(1, b"\xff\xfe"), E(0, b"zz"), E(9, b"p" * 126), b"\x81\xff" + b"\xff" * 8,
                              E(1, b"ab", rsv=4), E(8, b"\x03"), E(8, b"\x03\xed"), E(1, b"m", mask_key=b"abcd"),
                              E(1, b"\xe2\x82", fin=0) + E(0, b"\x41"),
                              # a truncated multi-byte character followed by 7-bit text, in one frame and across a Ping
                              E(1, b"caf\xc3e au lait"), E(1, b"\xf0\x9f\x98 ok"), E(1, b"x\xe2\x82", fin=0) + E(9, b"p") + E(0, b"abc")])
            cut = rnd.randrange(0, len(frames) + 1)
            bad_off = len(hs) + len(scen.render(frames[:cut]))
            body = scen.render(frames[:cut]) + bad + scen.render(frames[cut:])
        elif kind == "closemid":
            # the server's Close is not the last thing it sends: what follows is still read and delivered until EOF
            cut = rnd.randrange(0, len(frames) + 1)
            bad_off = len(hs) + len(scen.render(frames[:cut]))
            body = scen.render(frames[:cut]) + E(8, ref6455.close_payload(rnd.choice([1000, 1001, None]), b"")) + scen.render(frames[cut:])
        elif kind == "appclose":
            app = {rnd.randrange(0, 6): [("close", 1000, b"bye")]}
            body += E(8, ref6455.close_payload(1000, b"bye"))
        elif kind == "appsend":
            app = {rnd.randrange(2, 7): [("text", b"hi", True)], rnd.randrange(2, 7): [("ping", b"q")]}
        out.append((kind, hs, body, app, bad_off))
    return out


def make(hs, body, chunks, app, rnd_keys):
    return dict(cfg=simnet.default_cfg(), steps=scen.steps_from_chunks(chunks), app=app, keys=list(rnd_keys), key16=scen.KEY16)


def all_cutsets(stream, start):
    """every way of cutting stream[start:] (the handshake prefix stays in the first read with the first piece)"""
    n = len(stream) - start
    for mask in range(1 << (n - 1)) if n > 1 else [0]:
        cuts = [start + i + 1 for i in range(n - 1) if mask >> i & 1]
        prev = 0
        chunks = []
        for c in cuts + [len(stream)]:
            chunks.append(stream[prev:c])
            prev = c
        yield chunks


def run(rep, info, model, tier, seed):
    rnd = random.Random(seed)
    proof_ok = rep.proof_obligations(info, "props/C02.v")
    nbase = 60 if tier == "quick" else 200
    nrand = 12 if tier == "quick" else 40
    groups = []
    for kind, hs, body, app, bad_off in base_streams(rnd, nbase):
        stream = hs + body
        ks = scen.keys(rnd, 14)
        variants = [[stream[i:i + 65536] for i in range(0, len(stream), 65536)]]
        if len(stream) <= 700:
            variants.append([stream[i:i + 1] for i in range(len(stream))])
        variants.append([hs, body] if body else [hs])
        for _ in range(nrand):
            variants.append(scen.chunkings(rnd, stream, rnd.choice(["random", "small", "random"])))
        # every single cut position in the frame part (bounded)
        for p in range(len(hs) - 6, min(len(stream), len(hs) + 60)):
            if 0 < p < len(stream):
                variants.append([stream[:p], stream[p:]])
        if bad_off is not None:
            # ... and every single cut position inside and around the violating frame(s)
            for p in range(max(1, bad_off - 2), min(len(stream), bad_off + 30)):
                variants.append([stream[:p], stream[p:]])
        groups.append((kind, [make(hs, body, [c for c in v if c], app, ks) for v in variants]))
        rep.count("stream_kind", kind)
    # connections that negotiated permessage-deflate: the reply and the compressed messages behind it in one read, cut inside
    # the reply, cut exactly behind it, cut anywhere
    from . import c06
    for i in range(8 if tier == "quick" else 60):
        z = c06.gen(rnd, rnd.choice([9, 12, 15]), rnd.choice([9, 15]), rnd.random() < 0.3, rnd.random() < 0.3)
        z = fam.strip_meta(z)
        stream = b"".join(st[2] for st in z["steps"] if st[0] == "data")
        hl = stream.index(b"\r\n\r\n") + 4
        variants = [[stream[j:j + 65536] for j in range(0, len(stream), 65536)], [stream[:hl], stream[hl:]]]
        for p_ in (hl - 30, hl - 3, hl - 1, hl + 1, hl + 2, hl + 7):
            if 0 < p_ < len(stream):
                variants.append([stream[:p_], stream[p_:]])
        for _ in range(6):
            variants.append(scen.chunkings(rnd, stream, rnd.choice(["random", "small"])))
        # no read is larger than the 64 KiB receive buffer
        variants = [[c[j:j + 65536] for c in v for j in range(0, len(c), 65536)] for v in variants]
        groups.append(("deflate", [dict(z, steps=scen.steps_from_chunks([c for c in v if c])) for v in variants]))
        rep.count("stream_kind", "deflate")
    # streams several receive buffers long: reads that fill the 64 KiB buffer exactly (right behind the handshake, and again),
    # reads one byte short of it, the handshake alone or with the first frames behind it
    for i in range(2 if tier == "quick" else 8):
        hs = scen.HANDSHAKE
        body = E(2, scen.rand_bytes(rnd, rnd.choice([70000, 65536 - 4, 131072]))) + E(1, ("x\u20ac" * rnd.choice([20000, 33000])).encode("utf-8")) + \
            E(9, b"p") + E(2, scen.rand_bytes(rnd, 65536 * 2 + 5), fin=0) + E(0, b"tail") + E(1, b"end")
        stream = hs + body
        ks = scen.keys(rnd, 6)
        full = lambda data, n=65536: [data[j:j + n] for j in range(0, len(data), n)]
        variants = [full(stream), [hs] + full(body), [hs] + full(body, 65535), full(stream, 65535), [hs + body[:10]] + full(body[10:]),
                    [hs] + full(body, 16384), [hs] + full(body[:65536 * 2]) + full(body[65536 * 2:], 1460)]
        for _ in range(3):
            variants.append([c[j:j + 65536] for c in scen.chunkings(rnd, stream, "random") for j in range(0, len(c), 65536)])
        groups.append(("large", [make(hs, body, [c for c in v if c], {}, ks) for v in variants]))
        rep.count("stream_kind", "large")
    # exhaustive cut sets of short frame sequences
    exh = []
    nshort = 10 if tier == "quick" else 24
    maxlen = 9 if tier == "quick" else 11
    tries = 0
    while len(exh) < nshort and tries < 2000:
        tries += 1
        msgs = [scen.gen_message(rnd, big_ok=False) for _ in range(rnd.choice([1, 2, 3]))]
        msgs = [(k, p[:rnd.choice([0, 1, 2, 3])]) for k, p in msgs]
        msgs = [(k, (p if k != "text" else p.decode("utf-8", "ignore").encode("utf-8"))) for k, p in msgs]
        frames, completed = scen.wire_plan(rnd, msgs, nonminimal=False)
        body = scen.render(frames)
        if rnd.random() < 0.3:
            body += rnd.choice([E(3, b""), E(1, b"\xff"), E(0, b"")])
        if not (2 <= len(body) <= maxlen):
            continue
        stream = scen.HANDSHAKE + body
        ks = scen.keys(rnd, 8)
        exh.append(("exhaustive", [make(scen.HANDSHAKE, body, ch, {}, ks) for ch in all_cutsets(stream, len(scen.HANDSHAKE) - 2)]))
    total = 0
    viol = 0
    dis = 0
    allg = groups + exh
    flat = [sc for _, scs in allg for sc in scs]
    flat_res = fam.run_impl_many(flat)
    mod_idx = []
    off = 0
    for _, scs in allg:
        mod_idx += [off + j for j in range(min(3, len(scs)))]
        off += len(scs)
    mod_res = dict(zip(mod_idx, model.run([simnet.to_sx(flat[i]) for i in mod_idx]))) if model is not None else {}
    rep.watch_extraction(model, [simnet.to_sx(flat[i]) for i in mod_idx[:40]])
    off = 0
    for kind, scs in allg:
        res = flat_res[off:off + len(scs)]
        mod = [mod_res[off + j] for j in range(min(3, len(scs))) if (off + j) in mod_res]
        off += len(scs)
        ref = None
        for j, (sc, (tr, extra)) in enumerate(zip(scs, res)):
            total += 1
            if tr is None:
                rep.broken("harness error: " + extra.get("error", "")[-500:])
                continue
            ptr = fam.no_waits(simnet.canon_trace(tr))
            rep.add_case(fam.fingerprint(sc), nontrivial=len(sc["steps"]) > 2)
            rep.traces_vs_impl += 1
            rep.count("nreads", "1-2" if len(sc["steps"]) <= 3 else ("3-10" if len(sc["steps"]) <= 11 else "11+"))
            if extra.get("escaped"):
                rep.violation("exception %s escaped the iterator" % extra["escaped"], scenario=fam.jsonable_sc(sc), family="C02:" + kind)
                viol += 1
                continue
            if ref is None:
                ref = (sc, ptr)
            elif ptr != ref[1]:
                viol += 1
                k = 0
                while k < min(len(ptr), len(ref[1])) and ptr[k] == ref[1][k]:
                    k += 1
                rep.violation("two segmentations of the same %d-byte server stream give different observations (first difference at trace item %d: %r vs %r)" % (
                    sum(len(s[2]) for s in sc["steps"] if s[0] == "data"), k, ptr[k:k + 2], ref[1][k:k + 2]),
                    scenario=dict(a=fam.jsonable_sc(ref[0]), b=fam.jsonable_sc(sc)), expected="identical traces", actual=dict(a=ref[1][:60], b=ptr[:60]), family="C02:" + kind)
            if j < len(mod):
                if fam.no_waits(simnet.canon_trace(mod[j])) != ptr:
                    dis += 1
                    if dis == 1:
                        first = (sc, ptr, fam.no_waits(simnet.canon_trace(mod[j])))
        if len(rep.samples) < 3:
            rep.sample(dict(kind=kind, variants=len(scs), reads_of_first=[len(s[2]) for s in scs[-1]["steps"] if s[0] == "data"][:20]))
    if dis and not viol:
        sc, a, b = first
        rep.broken("correspondence C02: model and implementation disagree on %d scenarios; first %s impl=%r model=%r" % (dis, core.json.dumps(fam.jsonable_sc(sc), default=core._jsonable)[:800], a[:30], b[:30]))
    rep.families.append(dict(name="C02:metamorphic-segmentations", cases=total, groups=len(groups) + len(exh),
                             rule="for each server stream (valid, with an injected violation, with application close/sends, header block at the 16 KiB limit, compressed messages behind a reply that negotiates permessage-deflate): one read, byte-at-a-time, handshake|frames, random cut sets, every single cut near the handshake/frame boundary; plus ALL 2^(n-1) cut sets for %d short frame sequences (n<=%d); all traces (events with payloads + bytes written) must be identical; the first variants are also compared with the model" % (len(exh), maxlen),
                             oracle_failures=viol, disagreements=dis))
    rep.exhaustive["all cut sets of the frame part for the short streams"] = True
    if not proof_ok and not rep.violations:
        rep.broken("proof obligation props/C02.v no longer checks: %s" % (rep.coq_failure,))


def replay(body):
    sc = body["scenario"]
    a = fam.unjson_sc(sc["a"])
    b = fam.unjson_sc(sc["b"])
    ta = fam.no_waits(simnet.canon_trace(simnet.run_impl(a).trace))
    tb = fam.no_waits(simnet.canon_trace(simnet.run_impl(b).trace))
    print("A:", ta[:20])
    print("B:", tb[:20])
    ok = ta == tb
    print("REPLAY:", "property holds on this input" if ok else "VIOLATION reproduced")
    return 0 if ok else 1
