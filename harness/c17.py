"""C17 -- each connect() starts from a clean slate."""
from __future__ import print_function
import random
import sys

from . import core, fam, scen, simnet, ref6455, ref7692

sys.path.insert(0, core.REPO)
E = ref6455.encode_frame


def first_connections(rnd):
    """(label, scenario) for the previous connection, ending in all sorts of ways"""
    key = bytes(bytearray(rnd.getrandbits(8) for _ in range(16)))
    acc = simnet.accept_for(key)
    hs = ref6455.handshake_response(acc)
    hsz = ref6455.handshake_response(acc, extra=b"Sec-WebSocket-Extensions: permessage-deflate; server_max_window_bits=10\r\n")
    peer = ref7692.Peer(10, 15, False, False)
    z1 = peer.compress(b"context context context " * 20)
    z2 = peer.compress(b"context context again")
    base = dict(cfg=simnet.default_cfg(), key16=key, keys=scen.keys(rnd, 8))
    out = []

    def sc(label, steps, **kw):
        d = dict(base)
        d.update(steps=steps)
        d.update(kw)
        out.append((label, d))
    sc("mid-header", [("data", 0, hs[:rnd.randrange(1, len(hs) - 1)]), ("eof", 0)])
    sc("mid-header-abandon", [("data", 0, hs[:30]), ("timeout", 5120)], app={1: [("abandon", "break")]})
    sc("mid-frame-header", [("data", 0, hs + E(1, b"x" * 200)[:rnd.choice([1, 2, 3])]), ("eof", 0)])
    sc("mid-frame-payload", [("data", 0, hs + E(2, b"y" * 300)[:150]), ("oserr", 0)])
    sc("mid-utf8-char", [("data", 0, hs + E(1, "€".encode() * 10)[:2 + 4]), ("eof", 0)])
    sc("mid-fragmented-text", [("data", 0, hs + E(1, b"part one \xe2\x82", fin=0) + E(9, b"p")), ("eof", 0)])
    sc("mid-fragmented-binary", [("data", 0, hs + E(2, b"abc", fin=0) + E(0, b"def", fin=0)), ("exc", 0)])
    sc("mid-compression-context", [("data", 0, hsz + E(1, z1, rsv=4) + E(1, z2[:len(z2) // 2], rsv=4, fin=0)), ("eof", 0)], ws_compress=True)
    sc("compression-then-close", [("data", 0, hsz + E(1, z1, rsv=4)), ("data", 0, E(8, b"\x03\xe8")), ("eof", 0)], ws_compress=True, app={3: [("text", b"zip zip zip zip", True)]})
    # exactly the extension string the next connection will get: a context that took messages both ways; one whose inflater
    # ended in an error
    hsp = ref6455.handshake_response(acc, extra=b"Sec-WebSocket-Extensions: permessage-deflate\r\n")
    pp = ref7692.Peer()
    sc("compression-same-string-both-ways", [("data", 0, hsp + E(1, pp.compress(b"second connection second connection " * 4), rsv=4)), ("timeout", 5120), ("eof", 0)], ws_compress=True,
       app={3: [("text", b"ping me ping me ping me", True)]})
    sc("compression-same-string-inflate-error", [("data", 0, hsp + E(1, pp.compress(b"fine so far " * 6), rsv=4) + E(1, b"\xff\xfe\xfd garbage, not deflate", rsv=4))], ws_compress=True)
    # other negotiated parameters than the next connection will get
    hsn = ref6455.handshake_response(acc, extra=b"Sec-WebSocket-Extensions: permessage-deflate; server_no_context_takeover; client_no_context_takeover; client_max_window_bits=9\r\n")
    pn = ref7692.Peer(15, 9, True, True)
    sc("compression-no-takeover-small-window", [("data", 0, hsn + E(1, pn.compress(b"alpha beta gamma " * 10), rsv=4) + E(1, pn.compress(b"alpha beta"), rsv=4)), ("eof", 0)], ws_compress=True)
    # Close frames whose reason is cut inside a character / is not UTF-8 at all / is fine: whatever validated the reason is done
    sc("close-reason-cut-inside-a-character", [("data", 0, hs + E(8, ref6455.close_payload(1000, b"bye \xe2\x82"))), ("eof", 0)])
    sc("close-reason-not-utf8", [("data", 0, hs + E(8, ref6455.close_payload(1000, b"\xff\xfe"))), ("eof", 0)])
    sc("close-with-reason", [("data", 0, hs + E(8, ref6455.close_payload(1001, "tschüß".encode()))), ("eof", 0)])
    sc("text-cut-inside-a-character-then-eof", [("data", 0, hs + E(1, b"caf\xc3")), ("eof", 0)])
    sc("while-closing", [("data", 0, hs + E(1, b"a")), ("eof", 0)], app={3: [("close", 1000, b"bye")]})
    sc("closing-timeout", [("data", 0, hs)] + [("timeout", 5120)] * 9, app={2: [("close", 1000, b"")]})
    sc("closed-gracefully", [("data", 0, hs + E(8, b"\x03\xe8")), ("eof", 0)])
    sc("rejected", [("data", 0, b"HTTP/1.1 403 Forbidden\r\n\r\n"), ("eof", 0)])
    # rejections that name something the object could be tempted to remember: extension parameters the client cannot use, a
    # redirect to another node
    sc("rejected-unusable-deflate-parameter", [("data", 0, ref6455.handshake_response(acc, extra=b"Sec-WebSocket-Extensions: permessage-deflate; server_max_window_bits=" + rnd.choice([b"7", b"16", b"abc"]) + b"\r\n")), ("eof", 0)], ws_compress=True)
    sc("rejected-redirect", [("data", 0, b"HTTP/1.1 " + rnd.choice([b"301 Moved Permanently", b"302 Found", b"307 Temporary Redirect", b"308 Permanent Redirect"]) +
                               b"\r\nLocation: " + rnd.choice([b"ws://other.test:9000/elsewhere", b"wss://node2.example.test/chat?x=1", b"/moved"]) + b"\r\nContent-Length: 0\r\n\r\n"), ("eof", 0)])
    sc("connect-failure", [], connect="sockfail")
    sc("protocol-error", [("data", 0, hs + E(1, b"ok", fin=0) + E(1, b"bad"))])
    sc("unresponsive", [("data", 0, hs)] + [("timeout", 5120)] * 6, cfg=simnet.default_cfg(ping_timeout=10240))
    sc("after-pong-and-ping", [("data", 0, hs + E(10, b"")), ("timeout", 5120), ("timeout", 5120), ("eof", 0)], cfg=simnet.default_cfg(ping_rate=4096, ping_timeout=30720))
    for at in range(0, 6):
        for mech in ("break", "raise", "close", "with"):
            sc("abandoned-at-%d-%s" % (at, mech), [("data", 0, hs + E(1, b"one", fin=0)), ("data", 10, E(9, b"p")), ("timeout", 5120)], app={at: [("abandon", mech)]})
    # the reconnecting idiom `events = ws.connect()`: the abandoned iterator of this connection is still referenced when the next
    # connect() is made and is released only by that assignment
    for at in range(0, 6):
        sc("abandoned-at-%d-iterator-released-by-the-next-connect" % at, [("data", 0, hs + E(1, b"one", fin=0)), ("data", 10, E(9, b"p")), ("timeout", 5120)], app={at: [("abandon", "hold")]})
    # the same, in histories where the library has work pending at the abandoned event: the server's Close (the echo is due
    # after the Closing event), the client's own Close (the handshake is pending), a Ping (pong already written), a compressed
    # message
    bases = [("server-close", [("data", 0, hs + E(1, b"one")), ("data", 10, E(8, ref6455.close_payload(1001, b"going away"))), ("timeout", 5120)], {}, {}),
             ("client-close", [("data", 0, hs + E(1, b"one")), ("timeout", 5120), ("data", 10, E(1, b"two")), ("timeout", 5120)], {3: [("close", 1000, b"bye")]}, {}),
             ("server-close-compressed", [("data", 0, hsz + E(1, z1, rsv=4)), ("data", 10, E(8, b"\x03\xe8")), ("timeout", 5120)], {}, dict(ws_compress=True))]
    for bname, bsteps, bapp, bkw in bases:
        for at in range(2, 7):
            mech = rnd.choice(["hold", "hold", "break", "raise", "close", "with"])
            app = {k: list(v) for k, v in bapp.items()}
            app[at] = app.get(at, []) + [("abandon", mech)]
            sc("abandoned-at-%d-of-%s-%s" % (at, bname, "iterator-released-by-the-next-connect" if mech == "hold" else mech), bsteps, app=app, **bkw)
    return out


CTORS = [{}, {}, dict(protocols=["chat.v1", "chat.v2"]), dict(protocols=["mqtt"], agent="Agent/1.0 (verif)"), dict(agent="Agent/2.0")]


def second_connection(rnd, compress, proto=None):
    key = bytes(bytearray(rnd.getrandbits(8) for _ in range(16)))
    acc = simnet.accept_for(key)
    extra = b"Sec-WebSocket-Extensions: permessage-deflate\r\n" if compress else b""
    if proto:
        extra += b"Sec-WebSocket-Protocol: " + proto + b"\r\n"
    hs = ref6455.handshake_response(acc, extra=extra)
    body = E(0x1, "héllo ".encode(), fin=0) + E(9, b"k") + E(0, "wörld".encode()) + E(2, b"\x00\x01")
    ztape = []
    if compress:
        peer = ref7692.Peer()
        m = b"second connection " * 5
        body += E(1, peer.compress(m), rsv=4)
        # a second message that needs everything this reply negotiated: the full 32 KiB window (a repeat 5 000 bytes back) and
        # context takeover (it refers to the first message) -- whatever an earlier connection of the object had negotiated
        far = scen.rand_bytes(rnd, 61) * 80
        m2 = far + b" -- " + far[:300] + m
        body += E(2, peer.compress(m2), rsv=4)
        ztape = [m, m2]
    body += E(8, ref6455.close_payload(1000, b"done"))
    chunks = scen.chunkings(rnd, hs + body, rnd.choice(["one", "random", "small"]))
    steps = [("data", 0, chunks[0])] + [("timeout", 5120)] + [("data", 100, c) for c in chunks[1:]] + [("eof", 0)]
    cc = ref7692.client_reference_compressor(15, False)
    app = {3: [("text", b"ping me", True)], 6: [("ping", b"q")]}
    return dict(cfg=simnet.default_cfg(ping_rate=4096, ping_timeout=40960), steps=steps, key16=key, keys=scen.keys(rnd, 8), app=app,
                ztape=ztape, ctape=[cc(b"ping me")] if compress else [], zlog=False)


def _fresh_single(args):
    """the second connection alone, on a new WebSocket object (runs in a fresh interpreter: harness.fresh)"""
    sc, _opts = args
    try:
        import lomond.websocket as W
        d = dict(sc)
        ws_kwargs = d.pop("_kw", {})
        d["_ws_object"] = W.WebSocket("ws://example.test/chat", **ws_kwargs)
        for h, v in d.pop("_obj_headers", None) or ():
            d["_ws_object"].add_header(h, v)
        return simnet.canon_trace(simnet.run_impl(d).trace)
    except BaseException:
        return None


def _pair_worker(args):
    label, sc1, sc2 = args
    try:
        import lomond.websocket as W
        ws_kwargs = dict(compress=True) if (sc1.get("ws_compress") or sc2.get("ztape")) else {}
        # the rest of the object's configuration (constructor arguments): the fresh object gets equal values in new containers
        ctor = lambda: dict(ws_kwargs, **{k: (list(v) if isinstance(v, list) else v) for k, v in (sc1.get("_ctor") or {}).items()})
        ws = W.WebSocket("ws://example.test/chat", **ctor())
        # custom headers belong to the object's configuration (not to a connection): the fresh object gets the same ones
        obj_headers = sc1.get("_obj_headers") or ()
        for h, v in obj_headers:
            ws.add_header(h, v)
        a = dict(sc1)
        a["_ws_object"] = ws
        r1 = simnet.run_impl(a)
        b = dict(sc2)
        b["_ws_object"] = ws
        r2 = simnet.run_impl(b)
        fresh = dict(sc2)
        fresh["_ws_object"] = W.WebSocket("ws://example.test/chat", **ctor())
        for h, v in obj_headers:
            fresh["_ws_object"].add_header(h, v)
        r3 = simnet.run_impl(fresh)
        return (simnet.canon_trace(r2.trace), simnet.canon_trace(r3.trace), r1.request, r2.request, r3.request, r1.escaped or r2.escaped or r3.escaped, simnet.canon_trace(r1.trace))
    except BaseException:
        import traceback
        return traceback.format_exc()


def run(rep, info, model, tier, seed):
    rnd = random.Random(seed)
    proof_ok = rep.proof_obligations(info, "props/C17.v")
    rep.assumptions += ["the theorem holds by construction in the model (connect() replaces the whole per-connection record); its content is that nothing mutable survives connect() in the code, which is tied by the regenerated object-graph inventory and by the differential runs"]
    rounds = 4 if tier == "quick" else 60
    pairs = []
    for _ in range(rounds):
        for label, sc1 in first_connections(rnd):
            for compress in (False, True):
                if rnd.random() < 0.3:
                    # the application has given the object custom headers (add_header) before connecting
                    sc1 = dict(sc1, _obj_headers=rnd.choice([[(b"X-Custom", b"1")], [(b"Authorization", b"Bearer abc.def"), (b"X-Two", b"a b")]]))
                ctor = rnd.choice(CTORS)
                proto = None
                if ctor:
                    sc1 = dict(sc1, _ctor=ctor)
                    if ctor.get("protocols") and rnd.random() < 0.7:
                        proto = ctor["protocols"][-1].encode()
                pairs.append((label, sc1, second_connection(rnd, compress, proto)))
    res = fam.pool().map(_pair_worker, pairs, chunksize=4)
    mod = model.run([simnet.to_sx(p[2]) for p in pairs]) if model is not None else [None] * len(pairs)
    rep.watch_extraction(model, [simnet.to_sx(p[2]) for p in pairs[:30]])
    dis = 0
    suspects = []
    for (label, sc1, sc2), r, m in zip(pairs, res, mod):
        rep.add_case(fam.fingerprint(sc1) + fam.fingerprint(sc2))
        rep.traces_vs_impl += 1
        rep.count("previous_ending", label if not label.startswith("abandoned") else "abandoned-" + ("hold" if label.endswith("next-connect") else label.split("-")[-1]))
        rep.count("constructor", ",".join(sorted((sc1.get("_ctor") or {}).keys())) or "defaults")
        if isinstance(r, str):
            rep.broken("harness error in C17: " + r[-600:])
            continue
        t2, t3, q1, q2, q3, esc, t1 = r
        what = None
        if esc:
            what = "exception %s escaped" % esc
        elif t2 != t3:
            k = 0
            while k < min(len(t2), len(t3)) and t2[k] == t3[k]:
                k += 1
            what = "after a previous connection that ended '%s', the next connection behaves differently from a fresh WebSocket (first difference at trace item %d: %r vs fresh %r)" % (label, k, t2[k:k + 2], t3[k:k + 2])
        elif q2 != q3:
            what = "the upgrade request of the second connection differs from a fresh object's"
        elif q1 is not None and q2 is not None and _key_of(q1) == _key_of(q2):
            what = "the second connection reuses the handshake key of the first"
        if what:
            rep.violation(what, scenario=dict(previous=fam.jsonable_sc(sc1), next=fam.jsonable_sc(sc2)), expected=t3[:60], actual=t2[:60], family="C17:reconnect-pairs")
        if m is not None and fam.no_waits(simnet.canon_trace(m)) != fam.no_waits(t3):
            dis += 1
            if dis == 1:
                first = (label, fam.no_waits(simnet.canon_trace(m))[:12], fam.no_waits(t3)[:12])
            if len(suspects) < 3 and t2 == t3:
                suspects.append((label, sc1, sc2, t2))
        if len(rep.samples) < 3:
            rep.sample(dict(previous_ending=label, previous_trace=t1[:15], next_trace=t2[:15]))
    # the "fresh" object above lives in a process that has made connections before.  Where the model disagrees with it although
    # the second connection and that object agree, the baseline is taken again from a WebSocket constructed in a fresh interpreter
    for label, sc1, sc2, t2 in suspects:
        kw = dict(dict(compress=True) if (sc1.get("ws_compress") or sc2.get("ztape")) else {}, **(sc1.get("_ctor") or {}))
        base = fam.fresh_run([dict(sc2, _kw=kw, _obj_headers=sc1.get("_obj_headers"))], runner="harness.c17:_fresh_single")[0]
        if base is not None and base != t2:
            k = 0
            while k < min(len(t2), len(base)) and t2[k] == base[k]:
                k += 1
            rep.violation("after a previous connection that ended '%s', the next connection behaves differently from a WebSocket constructed in a fresh interpreter (first difference at trace item %d: %r vs fresh %r): state outside the object survived" % (label, k, t2[k:k + 2], base[k:k + 2]),
                          scenario=dict(previous=fam.jsonable_sc(sc1), next=fam.jsonable_sc(sc2), fresh_interpreter=True, kw=kw), expected=base[:60], actual=t2[:60], family="C17:reconnect-pairs")
            break
    if dis and not rep.violations:
        rep.broken("correspondence C17: the model disagrees with a fresh WebSocket on %d second-connection scenarios; first %r" % (dis, first))
    rep.families.append(dict(name="C17:reconnect-pairs", cases=len(pairs), disagreements=dis,
                             rule="connection 1 on a WebSocket object ends mid-header / mid-frame / inside a UTF-8 character / mid-fragmented message / mid-compression-context with takeover / while closing / close timeout / gracefully / rejected (403, unusable extension parameters, a redirect with a Location) / connect failure / protocol error / unresponsive / abandoned at each event by each mechanism (also at the events of a server-initiated close, of a pending client close and of a compressed history, the iterator kept until the next connect()); the object constructed with or without protocols / agent; connection 2 runs a fixed battery (fragmented text with a ping inside, binary, optional compression, sends, timers, close handshake) under random segmentation; its full trace and its upgrade request must equal a freshly constructed object's, the handshake keys must differ"))
    # the regenerated inventory, read directly: it names the offending object when the tie proof breaks
    try:
        import re
        inv = open(core.os.path.join(core.COQ, "gen", "GenInventory.v")).read()
        lists = {k: re.findall(r'"([^"]*)"', v) for k, v in re.findall(r"Definition (\w+) : list string := \[(.*?)\]\.", inv)}
        rebuilt = "state_rebuilt : bool := true" in inv
        rep.add_case("inventory")
        allowed = {"_headers", "protocols", "proxies"}
        bad = []
        if lists.get("class_mutated"):
            bad.append("class-level or module-level state was modified by running connections: %s (it is shared by every later connection of the process)" % ", ".join(lists["class_mutated"]))
        if lists.get("carried_into_state"):
            bad.append("objects of the previous connection are reachable from the new connection's state: %s" % ", ".join(lists["carried_into_state"]))
        extra = [x for x in lists.get("carried_over", []) if x not in allowed]
        if extra:
            bad.append("mutable objects survive connect() on the WebSocket object outside its configuration: %s" % ", ".join(extra))
        if not rebuilt:
            bad.append("connect() did not replace the per-connection state object")
        # a structural obligation (theorem C17_inventory over the regenerated lists), not a history on which the events differ:
        # if the differential runs above found no such history, this is reported as "no failing input found"
        if bad and not rep.violations:
            rep.broken("theorem C17_inventory (props/C17.v) no longer holds of the regenerated inventory (tools/regen.py gen_inventory: three scripted connections -- compressed, reconnect on the same object, plain on a fresh object; the object graph and all class/module-level containers of lomond compared before and after): " + " ; ".join(bad))
        rep.families.append(dict(name="C17:inventory", cases=1, rule="object-graph walk from the WebSocket before/after a second connect(), and a snapshot of every mutable class attribute and module global of all lomond modules before/after three connections"))
    except Exception as e:
        rep.broken("the regenerated inventory could not be read: %r" % (e,))
    if not proof_ok and not rep.violations:
        rep.broken("proof obligation props/C17.v no longer checks: %s" % (rep.coq_failure,))


def _key_of(req):
    for l in req.split(b"\r\n"):
        if l.lower().startswith(b"sec-websocket-key"):
            return l.split(b":", 1)[1].strip()
    return None


def replay(body):
    sc = body["scenario"]
    r = _pair_worker(("replay", fam.unjson_sc(sc["previous"]), fam.unjson_sc(sc["next"])))
    if isinstance(r, str):
        print(r)
        return 2
    ok = r[0] == r[1] and r[3] == r[4] and not (r[2] is not None and r[3] is not None and _key_of(r[2]) == _key_of(r[3])) and not r[5]
    if ok and sc.get("fresh_interpreter"):
        base = fam.fresh_run([dict(fam.unjson_sc(sc["next"]), _kw=sc.get("kw") or {}, _obj_headers=fam.unjson_sc(sc["previous"]).get("_obj_headers"))], runner="harness.c17:_fresh_single")[0]
        ok = base is None or base == r[0]
    print("second connection == fresh object:", ok)
    print("REPLAY:", "property holds on this input" if ok else "VIOLATION reproduced")
    return 0 if ok else 1
