"""Core of the check runner: build (regen -> coqc -> extraction -> driver), model process,
evidence writer, violation reporting, known findings."""
from __future__ import print_function
import fcntl
import glob
import hashlib
import json
import os
import re
import subprocess
import sys
import time

from . import sx

VERIF = os.path.dirname(os.path.dirname(os.path.abspath(__file__)))
REPO = os.environ.get("LOMOND_REPO", "/repo")
COQ = os.path.join(VERIF, "coq")
BUILD = os.path.join(VERIF, "build")
ML = os.path.join(BUILD, "ml")
MODEL_BIN = os.path.join(BUILD, "lomond_model")
PY = "/venv/bin/python"

KERNEL_TB = [
    "Coq 8.16.1 kernel (coqc, full .vo build; vm_compute used for finite-domain obligations; no native_compute)",
    "no Axiom/Parameter/Admitted in the development (grep + Print Assumptions recorded below)",
    "tools/regen.py (executes the live /repo code to produce coq/gen/*.v)",
    "extraction: ExtrOcamlBasic only (its Extract Inductive for bool/option/unit/list/prod/sumbool/sumor), no Extract Constant; extract/driver.ml (s-expression I/O)",
    "the Python harness: simulated socket/selector/clock, canonicalisation, oracles (a bug there can hide or invent a disagreement)",
]


def env_for_repo():
    e = dict(os.environ)
    e["PYTHONPATH"] = REPO
    e["PYTHONHASHSEED"] = "0"
    e["PYTHONDONTWRITEBYTECODE"] = "1"
    e["LOMOND_REPO"] = REPO
    return e


class Lock(object):
    def __init__(self, name="build"):
        os.makedirs(BUILD, exist_ok=True)
        self.path = os.path.join(BUILD, ".%s.lock" % name)

    def __enter__(self):
        self.f = open(self.path, "w")
        fcntl.flock(self.f, fcntl.LOCK_EX)
        return self

    def __exit__(self, *a):
        fcntl.flock(self.f, fcntl.LOCK_UN)
        self.f.close()


def sh(cmd, timeout=None, cwd=None, env=None):
    p = subprocess.run(cmd, shell=isinstance(cmd, str), cwd=cwd, env=env, timeout=timeout,
                       stdout=subprocess.PIPE, stderr=subprocess.STDOUT)
    return p.returncode, p.stdout.decode("utf-8", "replace")


def file_hash(paths):
    h = hashlib.sha256()
    for p in sorted(paths):
        h.update(p.encode())
        with open(p, "rb") as f:
            h.update(f.read())
    return h.hexdigest()


class BuildInfo(object):
    def __init__(self):
        self.regen_ok = True
        self.regen_log = ""
        self.make_rc = 0
        self.make_log = ""
        self.failed_files = []   # .v files whose .vo could not be produced
        self.model_ok = False
        self.wall = 0.0

    def vo_ok(self, rel):
        """rel like 'props/C05.v'"""
        return os.path.exists(os.path.join(COQ, rel + "o")) and rel not in self.failed_files


def build(verbose=False):
    """regen + make + driver.  Serialised across concurrent checks."""
    t0 = time.time()
    info = BuildInfo()
    with Lock():
        os.makedirs(ML, exist_ok=True)
        rc, out = sh([PY, os.path.join(VERIF, "tools", "regen.py"), os.path.join(COQ, "gen")],
                     timeout=300, env=env_for_repo(), cwd=VERIF)
        info.regen_ok = rc == 0
        info.regen_log = out
        before = None
        mlp = os.path.join(ML, "model.ml")
        if os.path.exists(mlp):
            before = file_hash([mlp])
        rc, out = sh([os.path.join(COQ, "mk.sh"), "-k", "-j16"], timeout=3000)
        info.make_rc = rc
        info.make_log = out
        # files that failed: parse 'Error' blocks 'File "./x/y.v"' and make's "*** [..: x/y.vo] Error"
        failed = set(re.findall(r"\*\*\* \[[^\]]*?:\s*\d*:?\s*([\w/]+\.vo)\] Error", out))
        failed |= set(re.findall(r"\*\*\* \[([\w/]+\.vo)\] Error", out))
        info.failed_files = sorted(f[:-1] for f in failed)
        # anything whose .vo is missing counts as failed too (dependency of a failed file)
        with open(os.path.join(COQ, "_CoqProject.all")) as f:
            for line in f:
                line = line.strip()
                if line.endswith(".v") and not os.path.exists(os.path.join(COQ, line + "o")):
                    if line not in info.failed_files:
                        info.failed_files.append(line)
        # driver
        if os.path.exists(mlp):
            drv_src = os.path.join(COQ, "extract", "driver.ml")
            key = file_hash([mlp, os.path.join(ML, "model.mli"), drv_src])
            stamp = os.path.join(BUILD, "model.stamp")
            cur = open(stamp).read() if os.path.exists(stamp) else ""
            if cur != key or not os.path.exists(MODEL_BIN):
                sh(["cp", drv_src, os.path.join(ML, "driver.ml")])
                rc2, out2 = sh("ocamlfind ocamlopt -O3 -w -a model.mli model.ml driver.ml -o ../lomond_model.tmp && mv ../lomond_model.tmp ../lomond_model",
                               cwd=ML, timeout=600)
                if rc2 == 0:
                    with open(stamp, "w") as f:
                        f.write(key)
                else:
                    info.make_log += "\n[driver build failed]\n" + out2
            info.model_ok = os.path.exists(MODEL_BIN) and (open(stamp).read() == key if os.path.exists(stamp) else False)
    info.wall = time.time() - t0
    if verbose:
        print(info.make_log[-3000:])
    return info


def coqc_props(prop_file):
    """Compile one props file again, capturing Print Assumptions output. Returns (ok, output)."""
    rc, out = sh(["coqc", "-Q", "gen", "Gen", "-Q", "model", "Model", "-Q", "proofs", "Proofs", "-Q", "props", "Props",
                  "-w", "-notation-overridden,-deprecated-hint-without-locality", prop_file], cwd=COQ, timeout=900)
    return rc == 0, out


def parse_props(prop_rel):
    """Names of the theorems stated in a props file."""
    path = os.path.join(COQ, prop_rel)
    if not os.path.exists(path):
        return []
    src = open(path).read()
    return re.findall(r"^(?:Theorem|Corollary|Example)\s+(\w+)", src, flags=re.M)


def parse_assumptions(out):
    """Split coqc output into per-theorem Print Assumptions blocks."""
    res = []
    cur = None
    for line in out.splitlines():
        if line.startswith("Closed under the global context"):
            res.append("Closed under the global context")
        elif line.startswith("Axioms:") or line.startswith("Section Variables:"):
            cur = [line]
            res.append(cur)
        elif cur is not None and (line.startswith(" ") or line.strip() == ""):
            cur.append(line)
        else:
            cur = None
    return [r if isinstance(r, str) else "\n".join(r).strip() for r in res]


class Model(object):
    """Batch interface to the extracted model."""

    def __init__(self):
        if not os.path.exists(MODEL_BIN):
            raise RuntimeError("extracted model binary missing")

    def run(self, requests, shards=16):
        """requests: list of python values (sx-encodable). Returns list of decoded answers."""
        if not requests:
            return []
        lines = [sx.dumps(r) for r in requests]
        n = len(lines)
        shards = max(1, min(shards, n // 200 + 1))
        size = (n + shards - 1) // shards
        procs = []
        for i in range(shards):
            chunk = lines[i * size:(i + 1) * size]
            if not chunk:
                continue
            p = subprocess.Popen(["/bin/sh", "-c", "ulimit -s unlimited 2>/dev/null; exec '%s'" % MODEL_BIN],
                                 stdin=subprocess.PIPE, stdout=subprocess.PIPE)
            procs.append((p, chunk))
        # feed in threads to avoid pipe deadlock
        import threading
        outs = [None] * len(procs)

        def work(i):
            p, chunk = procs[i]
            o, _ = p.communicate(("\n".join(chunk) + "\n").encode())
            outs[i] = o.decode().splitlines()

        ths = [threading.Thread(target=work, args=(i,)) for i in range(len(procs))]
        for t in ths:
            t.start()
        for t in ths:
            t.join()
        res = []
        for (p, chunk), o in zip(procs, outs):
            if len(o) != len(chunk):
                raise RuntimeError("model produced %d answers for %d requests" % (len(o), len(chunk)))
            res.extend(sx.loads(x) for x in o)
        return res


def _coq_sx(v):
    """python value -> Gallina literal of type Sx.sx"""
    if v is True:
        return "(A 1)"
    if v is False:
        return "(A 0)"
    if v is None:
        return "(L [])"
    if isinstance(v, int):
        return "(A %d)" % v
    if isinstance(v, (bytes, bytearray)):
        return "(B [%s])" % ";".join("x%02x" % b for b in bytearray(v))
    return "(L [%s])" % ";".join(_coq_sx(x) for x in v)


def in_coq_eval(requests, answers, tag, timeout=300):
    """Watch the extraction step: evaluate the same requests INSIDE Coq (vm_compute on Model.Main.run_sx) and let the
    kernel compare with the answers the extracted binary gave.  Returns (ok, log)."""
    d = os.path.join(BUILD, "incoq")
    os.makedirs(d, exist_ok=True)
    path = os.path.join(d, "cases_%s.v" % tag)
    with open(path, "w") as f:
        f.write("From Coq Require Import List NArith.\nFrom Coq.Strings Require Import Byte.\nFrom Model Require Import Bytes Sx Main.\nImport ListNotations.\nOpen Scope N_scope.\n")
        for i, (r, a) in enumerate(zip(requests, answers)):
            f.write("Example e%d : run_sx %s = %s.\nProof. vm_compute. reflexivity. Qed.\n" % (i, _coq_sx(r), _coq_sx(a)))
    rc, out = sh(["coqc", "-Q", os.path.join(COQ, "model"), "Model", "-Q", d, "InCoq", path], timeout=timeout, cwd=d)
    return rc == 0, out[-2000:]


# ---------------------------------------------------------------- reporting

def load_known_findings():
    p = os.path.join(VERIF, "known_findings.json")
    if not os.path.exists(p):
        return []
    return json.load(open(p)).get("findings", [])


class Report(object):
    """Collects what a check did; writes evidence; prints verdict lines."""

    def __init__(self, pid, tier, seed):
        self.pid = pid
        self.tier = tier
        self.seed = seed
        self.t0 = time.time()
        self.obligations = []      # (name, ok, assumptions)
        self.families = []         # dicts
        self.violations = []       # dicts: {what, scenario, expected, actual, family, kf: id or None}
        self.no_input = []         # broken obligations/correspondence with no failing input: {what}
        self.notes = []
        self.assumptions = []
        self.samples = []
        self.evaluations = 0
        self.distinct = set()
        self.traces_vs_impl = 0
        self.exhaustive = {}
        self.distribution = {}
        self.checker_cmd = "cd /verif/coq && ./mk.sh -j16   (coq_makefile + make, full .vo; then coqc props/%s.v for Print Assumptions)" % pid

    # -- bookkeeping helpers
    def count(self, key, sub, n=1):
        d = self.distribution.setdefault(key, {})
        d[str(sub)] = d.get(str(sub), 0) + n

    def add_case(self, fingerprint, nontrivial=True):
        self.evaluations += 1
        if nontrivial:
            self.distinct.add(fingerprint if isinstance(fingerprint, (str, int)) else hashlib.md5(repr(fingerprint).encode()).hexdigest())

    def sample(self, s, limit=6):
        if len(self.samples) < limit:
            self.samples.append(s)

    def violation(self, what, scenario=None, expected=None, actual=None, family=None, kf=None):
        self.n_viol = getattr(self, "n_viol", 0) + 1
        if len(self.violations) < 50 or kf:
            self.violations.append(dict(what=what, scenario=scenario, expected=expected, actual=actual, family=family, kf=kf))

    def broken(self, what):
        if len(self.no_input) < 20:
            self.no_input.append(dict(what=what))

    # -- obligations from the Coq build
    def proof_obligations(self, info, prop_rel, extra_files=()):
        names = parse_props(prop_rel)
        ok = info.vo_ok(prop_rel) and all(info.vo_ok(f) for f in extra_files)
        assum = []
        out = ""
        if ok:
            ok2, out = coqc_props(prop_rel)
            ok = ok and ok2
            assum = parse_assumptions(out)
        for i, n in enumerate(names):
            self.obligations.append((n, ok, assum[i] if i < len(assum) else ("" if ok else "not checked")))
        if not names:
            self.obligations.append((prop_rel, ok, ""))
        if ok and self.tier == "thorough":
            # independent re-check of the compiled property file and everything it depends on
            mod = "Props." + os.path.basename(prop_rel)[:-2]
            rc, out2 = sh(["coqchk", "-o", "-silent", "-Q", "gen", "Gen", "-Q", "model", "Model", "-Q", "proofs", "Proofs", "-Q", "props", "Props", mod],
                          cwd=COQ, timeout=1800)
            tail = out2[-1500:]
            self.notes.append("coqchk -o %s: rc=%d; %s" % (mod, rc, tail.replace("\n", " | ")))
            self.checker_cmd += " ; thorough: coqchk -o " + mod
            if rc != 0:
                ok = False
                self.broken("coqchk rejected %s: %s" % (mod, tail))
        if not ok:
            bad = [f for f in info.failed_files]
            # which error message
            m = re.findall(r'File "\./([\w/]+\.v)", line (\d+)[^\n]*\n(Error:[^\n]*(?:\n[^\n]+){0,6})', info.make_log)
            self.coq_failure = dict(failed_files=bad, errors=[dict(file=a, line=int(b), msg=c[:600]) for a, b, c in m][:5])
        else:
            self.coq_failure = None
        return ok

    def watch_extraction(self, model, requests, limit=12, max_bytes=4000):
        """a sample of this run's model requests is re-evaluated inside Coq and compared with the binary's answers"""
        if model is None or not requests:
            return
        small = [r for r in requests if len(sx.dumps(r)) <= max_bytes][:limit]
        if not small:
            return
        answers = model.run(small)
        ok, log = in_coq_eval(small, answers, self.pid)
        self.notes.append("extraction watch: %d requests evaluated inside Coq by vm_compute and compared with the extracted binary's answers: %s" % (len(small), "equal" if ok else "DIFFERENT"))
        if not ok:
            self.broken("the extracted model binary and the in-Coq evaluation of Model.Main.run_sx disagree (extraction or driver problem): " + log[-600:])

    # -- finish
    def finish(self):
        wall = time.time() - self.t0
        kfs = load_known_findings()
        new_viol = []
        known_hit = {}
        for v in self.violations:
            if v.get("kf"):
                match = [k for k in kfs if k.get("id") == v["kf"] and k.get("property") == self.pid and k.get("status") == "known"]
                if match:
                    known_hit.setdefault(v["kf"], (match[0], v))
                    continue
            new_viol.append(v)
        n_obl = len(self.obligations)
        n_ok = sum(1 for o in self.obligations if o[1])
        ev = {
            "property_id": self.pid,
            "tier": self.tier,
            "seed": self.seed,
            "level": "proof",
            "coverage": {
                "obligations": n_obl,
                "discharged": n_ok,
                "checker_cmd": self.checker_cmd,
                "trusted_base": KERNEL_TB + self.assumptions,
                "theorems": [{"name": n, "checked": ok, "print_assumptions": a} for n, ok, a in self.obligations],
                "evaluations": self.evaluations,
                "distinct_nontrivial": len(self.distinct),
                "traces_validated_against_impl": self.traces_vs_impl,
                "rule": " | ".join(f.get("rule", "") for f in self.families),
                "families": self.families,
                "input_distribution": self.distribution,
                "samples": self.samples or ["(no scenario samples: proof-only run)"],
                "exhaustive": bool(self.exhaustive) and all(self.exhaustive.values()),
                "exhaustive_parts": self.exhaustive,
                "notes": self.notes,
                "known_findings_reproduced": sorted(known_hit.keys()),
            },
            "assumptions": self.assumptions,
            "wall_s": round(wall, 2),
            "violations": len(new_viol) + len(self.no_input),
        }
        os.makedirs(os.path.join(VERIF, "evidence"), exist_ok=True)
        with open(os.path.join(VERIF, "evidence", self.pid + ".json"), "w") as f:
            json.dump(ev, f, indent=1, default=_jsonable)
        for kid, (k, v) in sorted(known_hit.items()):
            print("KNOWN-FINDING: property=%s %s [%s]" % (self.pid, k.get("what", ""), kid))
        rc = 0
        if new_viol or self.no_input:
            rc = 1
            os.makedirs(os.path.join(VERIF, "replays"), exist_ok=True)
            if new_viol:
                v = new_viol[0]
                body = dict(property=self.pid, kind="failing-input", what=v["what"], family=v["family"],
                            scenario=v["scenario"], expected=v["expected"], actual=v["actual"],
                            other_violations=len(new_viol) - 1,
                            how_to_replay="/venv/bin/python /verif/check.py %s --replay <this file>" % self.pid,
                            broken_obligations=self.no_input, coq_failure=getattr(self, "coq_failure", None))
                h = hashlib.md5(json.dumps(body, sort_keys=True, default=_jsonable).encode()).hexdigest()[:10]
                path = os.path.join(VERIF, "replays", "%s-%s.json" % (self.pid, h))
                with open(path, "w") as f:
                    json.dump(body, f, indent=1, default=_jsonable)
                print("VIOLATION property=%s replay=%s" % (self.pid, path))
            else:
                body = dict(property=self.pid, kind="no-failing-input-found", broken=self.no_input,
                            coq_failure=getattr(self, "coq_failure", None),
                            searched=dict(evaluations=self.evaluations, families=[f.get("name") for f in self.families]))
                h = hashlib.md5(json.dumps(body, sort_keys=True, default=_jsonable).encode()).hexdigest()[:10]
                path = os.path.join(VERIF, "replays", "%s-%s.json" % (self.pid, h))
                with open(path, "w") as f:
                    json.dump(body, f, indent=1, default=_jsonable)
                print("VIOLATION property=%s replay=%s no-failing-input-found" % (self.pid, path))
        else:
            print("OK property=%s tier=%s obligations=%d/%d evaluations=%d distinct=%d wall=%.1fs" % (
                self.pid, self.tier, n_ok, n_obl, self.evaluations, len(self.distinct), wall))
        return rc


def _jsonable(o):
    if isinstance(o, (bytes, bytearray, memoryview)):
        return bytes(o).hex()
    if isinstance(o, set):
        return sorted(o)
    if isinstance(o, tuple):
        return list(o)
    return repr(o)
