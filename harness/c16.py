"""C16 -- persist() reconnects forever with bounded, growing, resettable back-off."""
from __future__ import print_function
import random
import sys
from fractions import Fraction

from . import core, fam, scen, simnet, ref6455

sys.path.insert(0, core.REPO)

OUTCOMES = {
    "connect_fail": ["connecting", "connect_fail"],
    "rejected": ["connecting", "connected", "rejected", "disconnected"],
    "drop_before_ready": ["connecting", "connected", "disconnected"],
    "drop_after_ready": ["connecting", "connected", "ready", "poll", "text", "disconnected"],
    "graceful": ["connecting", "connected", "ready", "poll", "closing", "disconnected"],
    "protocol_error": ["connecting", "connected", "ready", "protocol_error", "disconnected"],
    "ready_late": ["connecting", "connected", "poll", "ready", "disconnected"],
    "empty": [],
}


def mk_event(name):
    from lomond import events as EV
    m = {
        "connecting": lambda: EV.Connecting("ws://x"), "connect_fail": lambda: EV.ConnectFail("nope"),
        "connected": lambda: EV.Connected("ws://x"), "rejected": lambda: EV.Rejected(None, "no"),
        "disconnected": lambda: EV.Disconnected("gone", False), "ready": lambda: EV.Ready(None, None, set()),
        "poll": lambda: EV.Poll(), "text": lambda: EV.Text("t"), "closing": lambda: EV.Closing(1000, ""),
        "protocol_error": lambda: EV.ProtocolError("bad", False),
    }
    return m[name]()


class ScriptedWS(object):
    def __init__(self, attempts, log):
        self.attempts = attempts
        self.n = 0
        self.log = log
        self.objs = []

    def connect(self, **kw):
        i = self.n
        self.n += 1
        self.log.append(("connect", i, dict(kw)))
        if i >= len(self.attempts):
            raise ScriptEnd()
        evs = [mk_event(n) for n in self.attempts[i]]
        self.objs.append(evs)
        return iter(evs)


class ScriptEnd(BaseException):
    pass


class ExitScript(object):
    """a threading.Event as persist() may use it: wait() answers from the script -- unless the event has been set by the
    application, in which case it answers True like the real one"""

    def __init__(self, answers, log, preset=False):
        self.answers = list(answers)
        self.log = log
        self.flag = bool(preset)

    def wait(self, t=None):
        self.log.append(("wait", t))
        if self.flag:
            return True
        if not self.answers:
            raise ScriptEnd()
        return self.answers.pop(0)

    def is_set(self):
        return self.flag
    isSet = is_set

    def set(self):
        self.flag = True

    def clear(self):
        self.flag = False


def run_impl_persist(sc):
    import lomond.persist as P
    log = []
    ws = ScriptedWS([OUTCOMES[o] if isinstance(o, str) else o for o in sc["attempts"]], log)
    draws = list(sc["draws"])
    old = P.random

    def fake_random():
        return float(draws.pop(0)) if draws else 0.5
    P.random = fake_random
    items = []
    ended = "running"
    try:
        kw = dict(sc.get("kwargs", {}))
        gen = P.persist(ws, min_wait=float(sc["min"]), max_wait=float(sc["max"]), exit_event=(ExitScript(sc["exits"], log) if not sc.get("preset") else ExitScript([False] * (len(sc["attempts"]) + 3), log, preset=True)), **kw)
        for ev in gen:
            items.append(ev)
        ended = "returned"
    except ScriptEnd:
        ended = "running"
    except Exception as e:
        ended = "raised:" + type(e).__name__
    finally:
        P.random = old
    return items, ws, log, ended


def canon_items(items, ws):
    """events -> model items; identity of passed-through objects is checked against what connect() produced"""
    flat = {}
    for a, evs in enumerate(ws.objs):
        for i, e in enumerate(evs):
            flat[id(e)] = (a, i, e.name == "ready")
    out = []
    for it in items:
        if it.name == "back_off":
            out.append([1, Fraction(it.delay)])
        elif id(it) in flat:
            a, i, r = flat[id(it)]
            out.append([0, a, i, 1 if r else 0])
        else:
            out.append([9, it.name])
    return out


# ---------------------------------------------------------------- persist() over REAL connection attempts
def real_attempt(rnd):
    """one connection attempt of the real WebSocket/WebsocketSession over the simulated network"""
    kind = rnd.choice(["sockfail", "request-write-fails", "request-write-raises", "rejected", "eof-before-reply", "ready-then-eof",
                       "ready-then-protocol-error", "garbage-reply", "recv-fails"])
    sc = dict(cfg=simnet.default_cfg(), keys=[b"\x00\x00\x00\x01"] * 4, key16=scen.KEY16, salt=rnd.randrange(0, 6), steps=[])
    if kind == "sockfail":
        sc["connect"] = "sockfail"
    elif kind == "request-write-fails":
        sc["wfaults"] = ["oserr"]
    elif kind == "request-write-raises":
        sc["wfaults"] = ["exc"]
    elif kind == "rejected":
        sc["steps"] = [("data", 0, b"HTTP/1.1 503 Service Unavailable\r\n\r\n"), ("eof", 0)]
    elif kind == "eof-before-reply":
        sc["steps"] = [("eof", 0)]
    elif kind == "ready-then-eof":
        sc["steps"] = [("data", 0, scen.HANDSHAKE + ref6455.encode_frame(1, b"hi")), ("eof", 0)]
    elif kind == "ready-then-protocol-error":
        sc["steps"] = [("data", 0, scen.HANDSHAKE + ref6455.encode_frame(3, b""))]
    elif kind == "garbage-reply":
        sc["steps"] = [("data", 0, b"\x00\xff garbage\r\n\r\n"), ("eof", 0)]
    else:
        sc["steps"] = [("data", 0, scen.HANDSHAKE), ("oserr", 0)]
    sc["_kind"] = kind
    return sc


def run_real_persist(attempts, react=None):
    """persist() driving a real WebSocket; returns (names of yielded events, how it ended, attempts made).
    react: {(attempt index, event name): "close" | "text"} -- what the consumer of persist()'s events does at that event"""
    import lomond.websocket as W
    import lomond.session as S
    import lomond.persist as P
    runs = []

    cur = {}

    # one session class for all attempts, as with persist() in an application (it passes no session_class at all)
    class Sess(S.WebsocketSession):
        def _connect(self_):
            sc, run = cur["sc"], cur["run"]
            if sc.get("connect") == "sockfail":
                self_._socket_fail("unable to connect")
            run.sock = simnet.SimSocket(run)
            return run.sock, None

        def _selector_cls(self_, sock):
            run = cur["run"]
            run.selector = simnet.SimSelector(sock, run)
            return run.selector

    class WS(W.WebSocket):
        def connect(self, **kw):
            i = len(runs)
            if i >= len(attempts):
                raise ScriptEnd()
            sc = attempts[i]
            run = simnet.Run(sc)
            runs.append(run)
            cur["sc"], cur["run"] = sc, run
            S.time = run.clock
            return W.WebSocket.connect(self, session_class=Sess, **kw)

    class Exit(object):
        def wait(self, t=None):
            return False

        def is_set(self):
            return False
        isSet = is_set

        def set(self):
            pass

        def clear(self):
            pass
    old_time = S.time
    names = []
    ended = "running"
    try:
        wsobj = WS("ws://example.test/chat")
        for ev in P.persist(wsobj, min_wait=0, max_wait=1, exit_event=Exit()):
            names.append(ev.name)
            what = (react or {}).get((len(runs) - 1, ev.name))
            if what:
                try:
                    if what == "close":
                        wsobj.close()
                    else:
                        wsobj.send_text(u"hello")
                except Exception:
                    pass
        ended = "returned"
    except (ScriptEnd, simnet.Blocked):
        ended = "running"
    except Exception as e:
        ended = "raised:%s: %s" % (type(e).__name__, str(e)[:80])
    finally:
        S.time = old_time
    open_socks = [i for i, r in enumerate(runs) if r.sock is not None and not r.sock.closed]
    return names, ended, len(runs), open_socks


def judge_real(attempts, react=None):
    names, ended, made, open_socks = run_real_persist(attempts, react)
    bad = None
    if ended != "running" or made != len(attempts):
        bad = "persist() over real connection attempts ended by itself (%s) after %d of %d scripted attempts (%s)" % (ended, made, len(attempts), [a.get("_kind") for a in attempts][:made])
    elif names.count("back_off") != len(attempts):
        bad = "persist() yielded %d BackOff events for %d finished attempts" % (names.count("back_off"), len(attempts))
    elif open_socks:
        bad = "socket of attempt %s left open by persist()" % open_socks
    return bad


def real_family(rep, rnd, n):
    cases = 0
    for i in range(n):
        attempts = [real_attempt(rnd) for _ in range(rnd.choice([2, 4, 8]))]
        # the application reacts to some events: close() or a send, also before the connection exists
        react = {}
        for _ in range(rnd.choice([0, 0, 1, 2])):
            react[(rnd.randrange(len(attempts)), rnd.choice(["connecting", "connecting", "connected", "ready", "back_off", "connect_fail", "disconnected"]))] = rnd.choice(["close", "close", "text"])
        bad = judge_real(attempts, react)
        cases += 1
        rep.add_case(("real-persist", i))
        for a in attempts:
            rep.count("real_attempt", a["_kind"])
        if bad:
            rep.violation(bad, scenario=dict(kind="real-persist", attempts=[fam.jsonable_sc(fam.strip_meta(a)) for a in attempts], react=[[k[0], k[1], v] for k, v in react.items()]), family="C16:real-attempts")
    rep.families.append(dict(name="C16:real-attempts", cases=cases, rule="persist() driving the REAL WebSocket/WebsocketSession over the simulated network through 2-8 attempts that fail in different ways (resolver/connect failure, request write failing with various errnos and error texts, rejection, EOF, garbage, protocol error, recv failure), the application calling close() or sending at some events (also at Connecting, before the connection exists): it must never end by itself, must back off after every attempt and leave no socket open"))


def gen(rnd, long_fail=False):
    mn = Fraction(rnd.choice([0, 1, 5, 5, 10, Fraction(1, 2), Fraction(5, 4)]))
    mx = mn + Fraction(rnd.choice([0, 1, 25, 25, 60, Fraction(1, 4), 300, 3600]))
    if long_fail:
        # a day, a week, "never give up": the limit keeps doubling until it reaches max_wait - min_wait
        mx = mn + Fraction(rnd.choice([3600, 86400, 7 * 86400, 2 ** 40]))
    n = rnd.choice([1, 2, 3, 5, 10, 20, 40])
    names = list(OUTCOMES)
    if long_fail:
        n = rnd.choice([70, 1100])
        attempts = [rnd.choice(["connect_fail", "rejected", "drop_before_ready"]) for _ in range(n)]
        if rnd.random() < 0.5:
            attempts[rnd.randrange(n // 2)] = "drop_after_ready"
    else:
        attempts = [rnd.choice(names) for _ in range(n)]
    draws = [Fraction(rnd.choice([0, 1, 512, 1023, rnd.randrange(0, 1024)]), 1024) for _ in range(n)]
    exit_at = rnd.choice([n - 1, n - 1, rnd.randrange(0, n), None])
    exits = [False] * n
    if exit_at is not None:
        exits = [False] * exit_at + [True]
    kwargs = {}
    if rnd.random() < 0.5:
        kwargs = dict(poll=rnd.choice([1, 5, 0.5]), ping_rate=rnd.choice([0, 30, 7]), ping_timeout=rnd.choice([None, 60, 3]))
    sc = dict(min=mn, max=mx, attempts=attempts, draws=draws, exits=exits, kwargs=kwargs)
    if not long_fail and rnd.random() < 0.08:
        # the application has set the exit event before it starts iterating (persist() is a generator: nothing of it has run by
        # then): the first back-off is the last
        sc["exits"] = [True]
        sc["preset"] = True
    return sc


def to_sx(sc):
    def q(f):
        f = Fraction(f)
        return [f.numerator, f.denominator]
    return [20, q(sc["min"]), q(sc["max"]),
            [[1 if n == "ready" else 0 for n in (OUTCOMES[o] if isinstance(o, str) else o)] for o in sc["attempts"]],
            [q(d) for d in sc["draws"]], [1 if e else 0 for e in sc["exits"]]]


def oracle(sc, items, ws, log, ended):
    out = []
    attempts = [OUTCOMES[o] if isinstance(o, str) else o for o in sc["attempts"]]
    mn, mx = sc["min"], sc["max"]
    if ended.startswith("raised"):
        return ["persist() ended by itself with %s after %d attempts" % (ended, ws.n)]
    # expected item sequence, computed from the statement
    exp = []
    k = 0
    stopped = False
    for a, evs in enumerate(attempts):
        if a >= len(sc["exits"]) or a >= len(sc["draws"]):
            break
        k += 1
        for i, n in enumerate(evs):
            if n == "ready":
                k = 0
            exp.append([0, a, i, 1 if n == "ready" else 0])
        limit = min(mx - mn, Fraction(2) ** k)
        exp.append([1, mn + sc["draws"][a] * limit])
        if sc["exits"][a]:
            stopped = True
            break
    got = canon_items(items, ws)
    if got != exp:
        j = 0
        while j < min(len(got), len(exp)) and got[j] == exp[j]:
            j += 1
        out.append("persist() output differs from the statement at item %d: got %s, expected %s" % (j, got[j] if j < len(got) else None, exp[j] if j < len(exp) else None))
    for it in got:
        if it[0] == 1 and not (mn <= it[1] <= mx):
            out.append("BackOff delay %s outside [%s, %s]" % (it[1], mn, mx))
    if stopped and ended != "returned":
        out.append("persist() did not return although the exit event was set")
    if not stopped and ended == "returned":
        out.append("persist() returned although the exit event was never set")
    waits = [e[1] for e in log if e[0] == "wait"]
    delays = [float(it[1]) for it in got if it[0] == 1]
    if waits != delays[:len(waits)]:
        out.append("exit_event.wait() was not called with the announced delay")
    kw = sc.get("kwargs", {})
    for e in log:
        if e[0] == "connect":
            for key in ("poll", "ping_rate", "ping_timeout"):
                expv = kw.get(key, {"poll": 5, "ping_rate": 30, "ping_timeout": None}[key])
                if e[2].get(key) != expv:
                    out.append("connect() was called with %s=%r, persist() was given %r" % (key, e[2].get(key), expv))
    return out[:3]


def run(rep, info, model, tier, seed):
    rnd = random.Random(seed)
    proof_ok = rep.proof_obligations(info, "props/C16.v")
    n = 2000 if tier == "quick" else 30000
    scs = [gen(rnd) for _ in range(n)] + [gen(rnd, long_fail=True) for _ in range(6 if tier == "quick" else 40)]
    reqs = [to_sx(sc) for sc in scs]
    mod = model.run(reqs) if model is not None else [None] * len(scs)
    rep.watch_extraction(model, reqs)
    dis = 0
    for sc, m in zip(scs, mod):
        items, ws, log, ended = run_impl_persist(sc)
        rep.add_case(repr((sc["min"], sc["max"], sc["attempts"], sc["draws"], sc["exits"])), nontrivial=len(sc["attempts"]) > 1)
        rep.traces_vs_impl += 1
        rep.count("attempts", "1" if len(sc["attempts"]) == 1 else ("2-10" if len(sc["attempts"]) <= 10 else ("11-100" if len(sc["attempts"]) <= 100 else ">1000")))
        for o in sc["attempts"][:40]:
            rep.count("outcome", o)
        res = oracle(sc, items, ws, log, ended)
        if res:
            rep.violation(res[0], scenario=dict(kind="outcome-sequence", min=str(sc["min"]), max=str(sc["max"]), attempts=list(sc["attempts"]), draws=[str(d) for d in sc["draws"]],
                                                exits=list(sc["exits"]), kwargs=sc["kwargs"], preset=bool(sc.get("preset"))),
                          family="C16:outcome-sequences")
        if m is not None:
            got = canon_items(items, ws)
            mitems = []
            for it in m[0]:
                if it[0] == 0:
                    mitems.append([0, it[1], it[2], it[3]])
                elif it[0] == 1:
                    num = it[1][0]
                    num = -num[0] if isinstance(num, list) else num
                    mitems.append([1, Fraction(num, it[1][1])])
            if mitems != got:
                dis += 1
                if dis == 1:
                    first = (sc, got[:8], mitems[:8])
        if len(rep.samples) < 3:
            rep.sample(dict(min=str(sc["min"]), max=str(sc["max"]), attempts=sc["attempts"][:10], draws=[str(d) for d in sc["draws"][:10]], exits=sc["exits"][:10]))
    real_family(rep, rnd, 60 if tier == "quick" else 1500)
    if dis and not rep.violations:
        rep.broken("correspondence C16: model and implementation disagree on %d scenarios; first: %r" % (dis, first))
    rep.families.append(dict(name="C16:outcome-sequences", cases=len(scs), disagreements=dis,
                             rule="real persist() over a scripted websocket.connect (real lomond event objects), random() and exit_event.wait() on tapes: outcome sequences of length 1-40 over {connect failure, rejection, drop before/after Ready, graceful close, protocol error, late Ready, empty}, plus runs of 70 and 1100 consecutive failures; dyadic draws and settings so that float arithmetic is exact; delays compared as exact fractions with the model and with the formula of the statement; object identity of passed-through events; connect() keyword arguments; exit at every back-off index, and an exit event that is already set when the iteration starts"))
    if not proof_ok and not rep.violations:
        rep.broken("proof obligation props/C16.v no longer checks: %s" % (rep.coq_failure,))


def replay(body):
    sc = body["scenario"]
    if sc.get("kind") == "real-persist":
        attempts = [fam.unjson_sc(a) for a in sc["attempts"]]
        for a in attempts:
            a["steps"] = [tuple(x) for x in a.get("steps", [])]
        bad = judge_real(attempts, {(r[0], r[1]): r[2] for r in sc.get("react", [])})
        print("REPLAY:", ("VIOLATION reproduced: %s" % bad) if bad else "property holds on this input")
        return 1 if bad else 0
    if sc.get("kind") != "outcome-sequence":
        print("this replay file predates the complete scenario format: re-run /venv/bin/python /verif/check.py C16 quick")
        return 2
    sc = dict(min=Fraction(sc["min"]), max=Fraction(sc["max"]), attempts=sc["attempts"], draws=[Fraction(d) for d in sc["draws"]], exits=sc["exits"],
              kwargs=sc.get("kwargs") or {}, preset=bool(sc.get("preset")))
    items, ws, log, ended = run_impl_persist(sc)
    res = oracle(sc, items, ws, log, ended)
    print("how persist() ended:", ended, "; items yielded:", len(items))
    print("REPLAY:", ("VIOLATION reproduced: %s" % res[0]) if res else "property holds on this input")
    return 1 if res else 0
