"""C07 -- every connection attempt yields a well-formed, finite event sequence."""
from __future__ import print_function
import itertools
import random

from . import core, fam, scen, simnet, ref6455

E = ref6455.encode_frame
NAMES = {0: "connecting", 1: "connect_fail", 2: "connected", 3: "rejected", 4: "ready", 5: "poll", 6: "text", 7: "binary",
         8: "ping", 9: "pong", 10: "closing", 11: "closed", 12: "unresponsive", 13: "protocol_error", 14: "disconnected"}


def monitor(codes):
    """the C07 automaton over event codes; returns None if accepted, else a complaint"""
    st = "start"
    for i, c in enumerate(codes):
        n = NAMES.get(c, "?%s" % c)
        if st == "start":
            if n != "connecting":
                return "first event is %s, not Connecting" % n
            st = "connecting"
        elif st == "connecting":
            if n == "connect_fail":
                st = "end"
            elif n == "connected":
                st = "connected"
            else:
                return "%s directly after Connecting" % n
        elif st == "connected":
            if n == "ready":
                st = "ready"
            elif n in ("rejected", "protocol_error"):
                st = "connected"
            elif n == "disconnected":
                st = "end"
            else:
                return "%s before Ready" % n
        elif st == "ready":
            if n in ("text", "binary", "ping", "pong", "poll", "closing", "closed", "unresponsive", "protocol_error"):
                pass
            elif n == "disconnected":
                st = "end"
            elif n == "ready":
                return "Ready yielded twice"
            else:
                return "%s after Ready" % n
        elif st == "end":
            return "%s yielded after the terminal event" % n
    if st != "end":
        return "iteration stopped without a terminal event (last state %s)" % st
    return None


# server steps (after the upgrade request has been written)
def alphabet():
    hs = scen.HANDSHAKE
    return {
        "hs": ("data", hs), "hs404": ("data", b"HTTP/1.1 404 Not Found\r\n\r\n"),
        "hsbad": ("data", ref6455.handshake_response(b"AAAAAAAAAAAAAAAAAAAAAAAAAAA=")),
        "hsbig": ("data", b"HTTP/1.1 101 X\r\nX-Pad: " + b"p" * 17000),
        "hspart": ("data", hs[:40]), "hsrest": ("data", hs[40:]),
        "text": ("data", E(1, b"hi")), "ping": ("data", E(9, b"p")), "pong": ("data", E(10, b"q")),
        "close": ("data", E(8, ref6455.close_payload(1000, b"bye"))),
        "bad": ("data", E(3, b"")), "badutf": ("data", E(1, b"\xff")), "half": ("data", E(2, b"abcdef")[:4]),
        "silence": ("timeout",), "longsilence": ("timeout_long",), "eof": ("eof",), "oserr": ("oserr",), "exc": ("exc",), "selexc": ("selexc",),
    }


APP = {"none": [], "text": [("text", b"x", True)], "ping": [("ping", b"")], "close": [("close", 1000, b"done")]}


def build(seq, app, cfg=None):
    al = alphabet()
    steps = []
    for s in seq:
        a = al[s]
        if a[0] == "data":
            steps.append(("data", 100, a[1]))
        elif a[0] == "timeout":
            steps.append(("timeout", 5 * 1024))
        elif a[0] == "timeout_long":
            steps += [("timeout", 5 * 1024)] * 8
        else:
            steps.append((a[0], 100))
    sc = dict(cfg=cfg or simnet.default_cfg(ping_timeout=20 * 1024), steps=steps, app=app, keys=[b"\x0a\x0b\x0c\x0d"] * 12, key16=scen.KEY16)
    sc["_seq"] = list(seq)
    sc["_terminates"] = any(s in ("eof", "oserr", "exc", "selexc") for s in seq)
    return sc


def oracle(sc, tr, extra):
    out = []
    if extra.get("escaped"):
        return ["exception %s escaped the iterator" % extra["escaped"]]
    codes = fam.event_codes(tr)
    blocked = any(it[0] == 7 for it in tr)
    if blocked:
        due = timeout_due(sc, tr)
        if due:
            out.append(due)
        if sc.get("_terminates"):
            out.append("the iterator is still waiting although the transport has ended / a fault occurred (server steps %s)" % sc["_seq"])
        else:
            # still running: check the prefix only
            m = monitor(codes + [14]) if codes and codes[-1] not in (1, 14) else monitor(codes)
            if m and "terminal" not in m:
                out.append(m)
        return out
    m = monitor(codes)
    if m:
        out.append(m + " (events: %s)" % [NAMES.get(c) for c in codes])
    if not extra.get("stop_ok", True):
        out.append("next() after the terminal event did not raise StopIteration")
    return out


def timeout_due(sc, tr):
    """the iterator is still waiting: is one of the armed timeouts overdue by more than one poll interval?"""
    cfg = sc["cfg"]
    tl = fam.timeline(sc, tr)
    if not tl:
        return None
    end = tl[-1]["t"]
    ready = None
    last_pong = None
    close_at = None
    for x in tl:
        if x["kind"] == "ev" and x["code"] == 4:
            ready = x["t"]
        if x["kind"] == "ev" and x["code"] == 9:
            last_pong = x["t"]
        if close_at is None and x["kind"] == "call" and x["action"] and x["action"][0] == "close" and x["result"] == 0:
            close_at = x["t"]
        if close_at is None and x["kind"] == "write" and x["frame"] and x["frame"]["op"] == 8:
            close_at = x["t"]
    if ready is None:
        return None
    p = cfg["poll"]
    if cfg["ping_timeout"]:
        ref = last_pong if last_pong is not None else ready
        if end - ref > cfg["ping_timeout"] + p:
            return "no Unresponsive/Disconnected although %d ticks have passed since Ready/the last Pong with ping_timeout=%d, poll=%d" % (end - ref, cfg["ping_timeout"], p)
    if cfg["close_timeout"] and close_at is not None:
        # close time is measured in session time (0 before Ready)
        s = max(close_at - ready, 0)
        if (end - ready) - s > cfg["close_timeout"] + p:
            return "the client's Close was not answered for %d ticks but no forced Disconnected happened (close_timeout=%d, poll=%d): the iterator never terminates" % ((end - ready) - s, cfg["close_timeout"], p)
    return None


def reconnect_family(rep, rnd, n):
    """the event sequence of a connection made on a WebSocket object that has been connected before"""
    import lomond.websocket as W
    al = alphabet()
    firsts = [["hs", "text", "eof"], ["hs", "silence", "close", "eof"], ["hs404"], ["hs", "bad"], ["hs", "silence", "silence"], ["hs", "oserr"],
              ["hspart"], ["eof"], ["hs", "longsilence", "eof"]]
    seconds = [["silence", "hs", "text", "eof"], ["hspart", "silence", "hsrest", "ping", "eof"], ["silence", "silence", "hs404"],
               ["hs", "silence", "text", "close", "eof"], ["silence", "eof"], ["hspart", "longsilence", "eof"], ["silence", "hsbad"]]
    cases = 0
    for i in range(n):
        f = firsts[i % len(firsts)]
        g = seconds[(i // len(firsts)) % len(seconds)]
        app1 = {} if rnd.random() < 0.6 else {rnd.randrange(1, 5): APP[rnd.choice(["close", "text"])]}
        cfg = simnet.default_cfg(ping_timeout=rnd.choice([None, 20 * 1024]), ping_rate=rnd.choice([0, 7 * 1024, 30 * 1024]))
        sc1 = build(f, app1, cfg)
        sc2 = build(g, {}, cfg)
        ws = W.WebSocket("ws://example.test/chat")
        a = dict(fam.strip_meta(sc1))
        a["_ws_object"] = ws
        simnet.run_impl(a)
        b = dict(fam.strip_meta(sc2))
        b["_ws_object"] = ws
        r = simnet.run_impl(b)
        tr = simnet.canon_trace(r.trace)
        cases += 1
        rep.add_case(("reconnect", tuple(f), tuple(g), i))
        rep.count("reconnect.previous", "+".join(f))
        complaints = oracle(sc2, tr, dict(escaped=r.escaped, stop_ok=r.stop_ok))
        if complaints:
            rep.violation("on a WebSocket object that had been connected before: " + complaints[0],
                          scenario=dict(kind="reconnect", previous=fam.jsonable_sc(fam.strip_meta(sc1)), next=fam.jsonable_sc(fam.strip_meta(sc2))),
                          family="C07:reconnect")
    rep.families.append(dict(name="C07:reconnect", cases=cases, rule="the monitor automaton on the events of a SECOND connection of the same WebSocket object (silence before / inside / after the handshake reply, rejection, EOF) after a first connection that ended in various ways (EOF after Ready, closing handshake, rejection, protocol error, abandoned while waiting, recv error, half a reply)"))


def run(rep, info, model, tier, seed):
    rnd = random.Random(seed)
    proof_ok = rep.proof_obligations(info, "props/C07.v")
    al = sorted(alphabet())
    depth = 3 if tier == "quick" else 4
    scs = []
    # exhaustive: server step sequences of length <= depth, each followed by nothing (may block) ; app reaction at one event index
    firsts = ["hs", "hs404", "hsbad", "hsbig", "hspart", "eof", "oserr", "silence", "text"]
    rest = ["text", "ping", "close", "bad", "badutf", "half", "silence", "longsilence", "eof", "oserr", "exc", "selexc", "hsrest", "pong"]
    for d in range(1, depth + 1):
        for seq in itertools.product(*([firsts] + [rest] * (d - 1))):
            if tier == "quick":
                grid = [("none", 0)] + [(k, i) for k in ("text", "close") for i in (1, 2, 4)]
            elif d <= 3:
                grid = [("none", 0)] + [(k, i) for k in ("text", "close") for i in (0, 1, 2, 3, 4, 5)]
            else:
                grid = [("none", 0), ("text", 2), ("close", 2), ("close", 3)]
            for appk, at in grid:
                scs.append(build(seq, {at: APP[appk]} if appk != "none" else {}))
    # connect failures
    for how in ("sockfail", "exc"):
        for appk in ("none", "close"):
            sc = build(["hs"], {0: APP[appk]})
            sc["connect"] = how
            sc["_terminates"] = True
            scs.append(sc)
    # request write failure
    for wf in ("oserr", "exc"):
        sc = build(["hs", "text"], {})
        sc["wfaults"] = [wf]
        sc["_terminates"] = True
        scs.append(sc)
    # the write of the Close frame itself fails (the application's close() or the echo of a server Close) and the peer then
    # stays silent: the close timeout must still end the iteration
    for seq in (["hs", "longsilence", "longsilence"], ["hs", "text", "longsilence", "longsilence"], ["hs", "close", "longsilence", "longsilence"],
                ["hs", "silence", "longsilence", "longsilence"]):
        for at in (1, 2, 3):
            for wf in ("oserr", "exc"):
                for ct in (10 * 1024, 30 * 1024):
                    sc = build(seq, {at: APP["close"]} if "close" not in seq else {}, simnet.default_cfg(ping_timeout=None, close_timeout=ct))
                    sc["wfaults"] = ["ok", wf]
                    sc["salt"] = at
                    scs.append(sc)
    # an armed timeout (the client's Close unanswered; no Pong within ping_timeout) while the server keeps sending bytes that
    # complete no message, in reads less than one poll interval apart: iteration must still end once the timeout has fired
    for kind in ("close-at-ready", "close-later", "ping-timeout", "echoed-server-close"):
        for trickle in ("fragments", "one-frame-bytewise"):
            for dt in (1024, 3 * 1024):
                steps = [("data", 100, scen.HANDSHAKE)]
                app = {}
                cfgkw = dict(ping_timeout=None, close_timeout=10 * 1024, ping_rate=0)
                if kind == "close-at-ready":
                    app = {2: APP["close"]}
                elif kind == "close-later":
                    steps.append(("data", 100, E(1, b"hi")))
                    app = {3: APP["close"]}
                elif kind == "ping-timeout":
                    cfgkw = dict(ping_timeout=10 * 1024, close_timeout=None, ping_rate=0)
                else:
                    steps.append(("data", 100, E(8, ref6455.close_payload(1000, b""))))
                n = (10 * 1024 + 3 * 5 * 1024) // dt + 4
                if trickle == "fragments":
                    steps.append(("data", dt, E(2, b"f", fin=0)))
                    steps += [("data", dt, E(0, b"g", fin=0)) for _ in range(n)]
                else:
                    big = E(2, b"z" * (n + 8))
                    steps.append(("data", dt, big[:4]))
                    steps += [("data", dt, big[4 + i:5 + i]) for i in range(n)]
                sc = dict(cfg=simnet.default_cfg(**cfgkw), steps=steps, app=app, keys=[b"\x0a\x0b\x0c\x0d"] * 12, key16=scen.KEY16)
                sc["_seq"] = ["hs", kind, trickle, dt]
                sc["_terminates"] = False
                scs.append(sc)
    # random longer histories
    nlong = 1500 if tier == "quick" else 15000
    for _ in range(nlong):
        n = rnd.randrange(3, 12)
        seq = [rnd.choice(["hs", "hs", "hs", "hspart", "hs404", "hsbad"])] + [rnd.choice(rest) for _ in range(n)]
        app = {}
        for _ in range(rnd.choice([0, 1, 2, 3])):
            app[rnd.randrange(0, 10)] = APP[rnd.choice(["text", "ping", "close", "close"])]
        cfg = simnet.default_cfg(ping_timeout=rnd.choice([None, 0, 10 * 1024, 20 * 1024]), close_timeout=rnd.choice([None, 0, 10 * 1024, 30 * 1024]),
                                 ping_rate=rnd.choice([0, 7 * 1024, 30 * 1024]), auto_pong=rnd.random() < 0.8)
        sc = build(seq, app, cfg)
        if rnd.random() < 0.1:
            sc["wfaults"] = ["ok"] * rnd.randrange(0, 4) + [rnd.choice(["oserr", "exc"])]
        scs.append(sc)
    for sc in scs:
        rep.count("first_step", sc["_seq"][0])
        rep.count("len", len(sc["_seq"]))
        rep.count("app_actions", len(sc.get("app", {})))
    fam.run_family(rep, model, "C07:server-steps-x-app-reactions", scs, oracle, project=lambda t: t,
                   rule="exhaustive: server-step sequences up to depth %d over {handshake variants, text, ping, pong, close, reserved opcode, bad utf-8, half frame, silence, EOF, recv error, recv exception, selector exception} x application reaction {nothing, send_text, close} at one event (depth 4: a reduced grid of reactions); connect and request-write failures; plus %d random longer histories with timers; monitor automaton on the real event names; the full trace (events, writes, waits) is compared with the model" % (depth, nlong))
    rep.exhaustive["server-step sequences up to depth %d" % depth] = True
    reconnect_family(rep, rnd, 60 if tier == "quick" else 600)
    # application handlers that take time, under a selector that sleeps exactly as long as the loop asks it to (a negative
    # timeout or None: until something arrives): with a timeout armed and a silent server the iteration must still end
    slow = []
    for kind in ("ping-timeout", "close-at-ready", "close-later", "echoed-server-close"):
        for at in (2, 3, 4, 5):
            for nap in (1, 5119, 5121, 6000, 12000, 40000):
                steps = [("data", 100, scen.HANDSHAKE)]
                app = {}
                cfgkw = dict(ping_timeout=None, close_timeout=10 * 1024, ping_rate=0)
                if kind == "close-at-ready":
                    app = {2: list(APP["close"])}
                elif kind == "close-later":
                    steps.append(("data", 100, E(1, b"hi")))
                    app = {3: list(APP["close"])}
                elif kind == "ping-timeout":
                    # (automatic Pings at a rate below the timeout, as the documentation recommends: they must not keep a silent
                    #  server "alive")
                    cfgkw = dict(ping_timeout=10 * 1024, close_timeout=None, ping_rate=rnd.choice([0, 30 * 1024, 4 * 1024, 5 * 1024, 10 * 1024]))
                else:
                    steps.append(("data", 100, E(8, ref6455.close_payload(1000, b""))))
                app[at] = list(app.get(at, ())) + [("sleep", nap)]
                sc = dict(cfg=simnet.default_cfg(**cfgkw), steps=steps, app=app, keys=[b"\x0a\x0b\x0c\x0d"] * 12, key16=scen.KEY16,
                          honest=True, horizon=100 + nap + 12 * 5120 + 10 * 1024)
                sc["_seq"] = ["hs", kind, "handler-sleeps", at, nap]
                sc["_terminates"] = False
                slow.append(sc)
    fam.run_family(rep, None, "C07:slow-handlers", slow, oracle, project=lambda t: t,
                   rule="a timeout is armed (ping timeout; the client's Close unanswered; the echo of a server Close unanswered), the server stays silent, and the application's handler of one event takes 1 tick .. 40 s of virtual time; the selector sleeps exactly as long as it is asked to (never returns for a negative timeout): the iteration must end once the timeout is overdue by more than a poll interval (no model: it knows no handlers that take time)")
    if not proof_ok and not rep.violations:
        rep.broken("proof obligation props/C07.v no longer checks: %s" % (rep.coq_failure,))


def replay(body):
    sc = fam.unjson_sc(body["scenario"])
    if sc.get("kind") == "reconnect":
        import lomond.websocket as W
        ws = W.WebSocket("ws://example.test/chat")
        a = dict(sc["previous"])
        a["_ws_object"] = ws
        simnet.run_impl(a)
        b = dict(sc["next"])
        b["_ws_object"] = ws
        r = simnet.run_impl(b)
        tr = simnet.canon_trace(r.trace)
        codes = fam.event_codes(tr)
        blocked = any(it[0] == 7 for it in tr)
        m = monitor(codes + [14]) if (blocked and codes and codes[-1] not in (1, 14)) else monitor(codes)
        if blocked and m and "terminal" in m:
            m = None
        print("events of the second connection:", [NAMES.get(c) for c in codes], "escaped:", r.escaped)
        print("REPLAY:", "VIOLATION reproduced: %s" % m if (m or r.escaped) else "property holds on this input")
        return 1 if (m or r.escaped) else 0
    return fam.replay_generic(body, {"C07:server-steps-x-app-reactions": oracle, "C07:slow-handlers": oracle}, show=80)
