"""C12 -- close() is atomic with respect to other threads' sends and closes."""
from __future__ import print_function
from . import core, fam, conc


def program_sets(tier):
    T = ("send", "text", b"data-1", True, 1)
    B = ("send", "binary", b"\x01\x02", True, 2)
    P = ("send", "ping", b"pp", False, 3)
    PO = ("send", "pong", b"po", False, 4)
    C1 = ("close", 1000, b"bye", 5)
    C2 = ("close", 1001, b"also", 6)
    SC = ("server_close", 1000, b"srv")
    # a Close without a body: close(None), and the echo of a server Close that has no status code
    C0 = ("close", None, b"", 8)
    SC0 = ("server_close", None, b"")
    sets = [
        ([[C0], [T]], None), ([[C0], [C2]], None), ([[SC0], [T]], None), ([[SC0], [C1]], None),
        ([[C1], [T]], None), ([[C1], [B]], None), ([[C1], [P]], None), ([[C1], [C2]], None),
        ([[C1], [SC]], None), ([[SC], [T]], None), ([[C1, T], [SC]], None), ([[C1], [SC, PO]], None),
        ([[C1], [T, B]], None), ([[C1], [T]], "takeover"),
        # the same races while the session clock still reads 0.0 (close() before the loop has started its clock, or a coarse clock)
        ([[C1], [T]], "clock0"), ([[C1], [C2]], "clock0"), ([[SC], [T]], "clock0"),
        # a message whose length needs the 64-bit form is still ONE write
        ([[C1], [("send", "binary", bytes(bytearray((i * 11 + 5) % 251 for i in range(66000))), False, 7)]], None),
        ([[C1], [T], [SC]], None), ([[C1], [C2], [T]], None), ([[C1], [P], [SC]], None),
    ]
    if tier == "thorough":
        sets += [([[C1, T], [C2, B]], None), ([[C1], [T], [B]], "takeover"), ([[SC], [C1], [PO]], None), ([[C1], [("disconnect",)], [T]], None)]
    return sets


def run(rep, info, model, tier, seed):
    proof_ok = rep.proof_obligations(info, "props/C12.v")
    rep.assumptions += ["schedules are explored at the granularity of shared-state actions; that local computation between them commutes with other threads' steps (so that line/bytecode interleavings add nothing) is an argument, not mechanised; it is probed by the line-level family (every executed source line a scheduling point, one preemption)",
                        "CPython's GIL makes single attribute reads/writes atomic (modelled)"]
    sets = program_sets(tier)
    two = [s for s in sets if len(s[0]) == 2]
    three = [s for s in sets if len(s[0]) == 3]
    conc.run_programs(rep, model, "C12", "C12:2-threads", two, bound=(3 if tier == "quick" else 99), limit=(4000 if tier == "quick" else 200000), which="c12")
    conc.run_programs(rep, model, "C12", "C12:3-threads", three, bound=(2 if tier == "quick" else 3), limit=(3000 if tier == "quick" else 60000), which="c12")
    conc.run_programs_lines(rep, "C12", "C12:line-level", (two[:8] if tier == "quick" else two), limit=(150 if tier == "quick" else 1500), which="c12",
                            two=(400 if tier == "quick" else 3000), offset=seed)
    if not proof_ok and not rep.violations:
        rep.broken("proof obligation props/C12.v no longer checks: %s" % (rep.coq_failure,))


def replay(body):
    from . import sched
    sc = body["scenario"]
    progs = [[tuple(bytes.fromhex(x) if isinstance(x, str) and i in (2,) and c[0] in ("send", "close", "server_close") else x for i, x in enumerate(c)) for c in p] for p in sc["programs"]]
    out = sched.run_schedule(progs, sc["schedule"], sc["compression"], lines=bool(sc.get("lines")))
    c11, c12 = conc.judge(progs, out, sc["compression"])
    print("wire:", [(t, b.hex()) for t, b in out["wire"]], "results:", out["results"])
    print("REPLAY:", ("VIOLATION reproduced: %s" % c12[0]) if c12 else "property holds on this schedule")
    return 1 if c12 else 0
