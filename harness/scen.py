"""Scenario generators shared by the property checks.  Every random choice comes from the Random passed in."""
from __future__ import print_function
import struct

from . import ref6455, simnet

E = ref6455.encode_frame
KEY16 = b"\x01" * 16
ACCEPT = simnet.accept_for(KEY16)
HANDSHAKE = ref6455.handshake_response(ACCEPT)

SIZES_SMALL = [0, 1, 2, 3, 7, 124, 125, 126, 127, 128, 200]
SIZES_BIG = [65535, 65536, 65537, 70001]


def rand_bytes(rnd, n):
    return bytes(bytearray(rnd.getrandbits(8) for _ in range(n))) if n < 64 else (
        bytes(bytearray(rnd.getrandbits(8) for _ in range(61))) * (n // 61 + 1))[:n]


def rand_text(rnd, nbytes):
    """valid UTF-8 of exactly nbytes bytes, mixing 1-4 byte characters"""
    out = bytearray()
    while len(out) < nbytes:
        room = nbytes - len(out)
        k = rnd.choice([1, 1, 2, 3, 4])
        if k > room:
            k = room
        if len(out) > 300 and room > 300:
            # bulk filler to keep generation fast
            filler = "aé€\U0001F600".encode("utf-8") * ((room - 16) // 10)
            out += filler
            continue
        if k == 1:
            out += bytes([rnd.randrange(0x20, 0x7F)])
        elif k == 2:
            out += chr(rnd.choice([0x80, 0x7FF, rnd.randrange(0x80, 0x800)])).encode("utf-8")
        elif k == 3:
            out += chr(rnd.choice([0x800, 0xFFFD, 0xD7FF, 0xE000, 0x20AC, rnd.randrange(0x800, 0xD800)])).encode("utf-8")
        else:
            out += chr(rnd.choice([0x10000, 0x10FFFF, 0x1F600, rnd.randrange(0x10000, 0x110000)])).encode("utf-8")
    return bytes(out)


def pick_size(rnd, big_ok=True, big_p=0.03):
    r = rnd.random()
    if big_ok and r < big_p:
        return rnd.choice(SIZES_BIG)
    if r < 0.6:
        return rnd.choice(SIZES_SMALL)
    return rnd.randrange(0, 300)


def gen_message(rnd, big_ok=True, allow_close=False):
    k = rnd.random()
    if k < 0.35:
        n = pick_size(rnd, big_ok)
        t = rand_text(rnd, n)
        if rnd.random() < 0.08:
            # characters that tolerant decoders like to drop or rewrite: a leading U+FEFF, NUL, CR LF, U+2028, U+FFFE
            t = rnd.choice(["\ufeff", "\ufeff\ufeff", "\x00", "\r\n", "\u2028", "\ufffe"]).encode("utf-8") + t
        return ("text", t)
    if k < 0.65:
        n = pick_size(rnd, big_ok)
        return ("binary", rand_bytes(rnd, n))
    if k < 0.83:
        return ("ping", rand_bytes(rnd, rnd.choice([0, 1, 2, 124, 125, rnd.randrange(0, 126)])))
    return ("pong", rand_bytes(rnd, rnd.choice([0, 1, 125, rnd.randrange(0, 126)])))


OPC = {"text": 1, "binary": 2, "close": 8, "ping": 9, "pong": 10}


def split_points(rnd, n, k, allow_empty=True):
    """k-1 cut points in [0, n] (sorted, duplicates allowed when empty fragments are allowed)"""
    pts = sorted(rnd.randrange(0, n + 1) for _ in range(k - 1))
    return pts


def pick_lenform(rnd, n):
    forms = [None]
    if n < 126:
        forms += [16, 64]
    elif n < 65536:
        forms += [64]
    return rnd.choice(forms) if rnd.random() < 0.3 else None


def wire_plan(rnd, messages, frag_p=0.5, ctrl_p=0.4, nonminimal=True):
    """messages: list of (kind, payload) with data and control messages in the order they are *started*.
    Returns (frames, completed) where frames is a list of (op, fin, payload, lenform) and completed the list of
    messages in completion order (a control frame placed between fragments completes before the data message)."""
    frames = []
    completed = []
    i = 0
    msgs = list(messages)
    while i < len(msgs):
        kind, payload = msgs[i]
        i += 1
        if kind in ("ping", "pong", "close"):
            frames.append((OPC[kind], 1, payload, pick_lenform(rnd, len(payload)) if nonminimal else None))
            completed.append((kind, payload))
            continue
        nfr = 1
        if rnd.random() < frag_p:
            nfr = rnd.choice([2, 2, 3, 4, 5])
        pts = [0] + split_points(rnd, len(payload), nfr) + [len(payload)]
        if nfr > 1:
            # fragments without a payload are legal anywhere; make the first and the last one empty now and then
            r = rnd.random()
            if r < 0.12:
                pts[1] = 0
            elif r < 0.24:
                pts[-2] = len(payload)
        for j in range(nfr):
            part = payload[pts[j]:pts[j + 1]]
            op = OPC[kind] if j == 0 else 0
            fin = 1 if j == nfr - 1 else 0
            frames.append((op, fin, part, pick_lenform(rnd, len(part)) if nonminimal else None))
            # control frames interleaved between fragments: pull following control messages forward
            if not fin:
                while i < len(msgs) and msgs[i][0] in ("ping", "pong") and rnd.random() < ctrl_p:
                    ck, cp = msgs[i]
                    i += 1
                    frames.append((OPC[ck], 1, cp, pick_lenform(rnd, len(cp)) if nonminimal else None))
                    completed.append((ck, cp))
        completed.append((kind, payload))
    return frames, completed


def render(frames):
    return b"".join(E(op, payload, fin=fin, lenform=lf) for (op, fin, payload, lf) in frames)


def chunkings(rnd, stream, mode=None, maxchunk=65536):
    """cut a byte stream into reads"""
    n = len(stream)
    if mode is None:
        mode = rnd.choice(["one", "bytes", "random", "random", "frames2", "small"])
    if n == 0:
        return []
    if mode == "one":
        cuts = []
    elif mode == "bytes" and n <= 600:
        cuts = list(range(1, n))
    elif mode == "small":
        cuts = []
        p = 0
        while p < n:
            p += rnd.choice([1, 1, 2, 3, 5, 8])
            if p < n:
                cuts.append(p)
        if n > 3000:
            cuts = sorted(set(rnd.sample(cuts, 200)))
    else:
        k = rnd.choice([1, 2, 3, 5, 9]) if n > 1 else 0
        cuts = sorted(set(rnd.randrange(1, n) for _ in range(min(k, n - 1))))
    out = []
    prev = 0
    for c in cuts + [n]:
        piece = stream[prev:c]
        # never exceed the receive buffer
        while len(piece) > maxchunk:
            out.append(piece[:maxchunk])
            piece = piece[maxchunk:]
        if piece:
            out.append(piece)
        prev = c
    return out


def keys(rnd, n):
    return [bytes(bytearray(rnd.getrandbits(8) for _ in range(4))) for _ in range(n)]


def steps_from_chunks(chunks, dt=0, end="eof"):
    st = [("data", dt, c) for c in chunks]
    if end:
        st.append((end, dt))
    return st


def expected_events(completed):
    """message list -> the model's event encoding"""
    out = []
    for kind, payload in completed:
        if kind == "text":
            out.append([6, payload])
        elif kind == "binary":
            out.append([7, payload])
        elif kind == "ping":
            out.append([8, payload])
        elif kind == "pong":
            out.append([9, payload])
        elif kind == "close":
            if len(payload) >= 2:
                out.append([10, [struct.unpack("!H", payload[:2])[0]], payload[2:]])
            else:
                out.append([10, [], b""])
    return out
