"""Deterministic scheduler for the REAL lomond send/close code on REAL threads.

Every shared-state action (lock operation, read/write of the closing/closed flags, each half of a sendall, each zlib
call, socket close) is a *point*: the thread parks there and the scheduler decides who performs its pending action next.
Instrumentation is from outside: a cooperative lock object, a State subclass, a socket object, a zlib proxy.
"""
from __future__ import print_function
import sys
import threading

from . import core

sys.path.insert(0, core.REPO)

LABELS = {"acq": 1, "rel": 2, "zacq": 3, "zrel": 4, "rd_closed": 5, "rd_closing": 6, "wr_closing": 7, "wr_closed": 8,
          "send1": 9, "send2": 10, "zcompress": 11, "zflush": 12, "wr_time": 13, "sockclose": 14, "line": 15, "tryacq": 16, "ztryacq": 17,
          # locks that the code under test creates while the threads are running (the model knows none)
          "xacq": 18, "xrel": 19, "xtryacq": 20}

# source files whose lines are scheduling points in line-level mode
LINE_FILES = ("frame.py", "compression.py", "websocket.py", "session.py", "mask.py", "message.py", "stream.py")
REAL_LOCK_TYPES = (type(threading.Lock()), type(threading.RLock()))


class Abort(BaseException):
    pass


class Stuck(Exception):
    """the thread that has the baton did not come back: it waits for something outside the scheduler's control"""


class Sched(object):
    def __init__(self):
        self.cv = threading.Condition()
        self.tids = {}             # thread ident -> tid
        self.pending = {}          # tid -> (label, lockobj or None)
        self.finished = set()
        self.turn = None           # tid allowed to run, or None while the scheduler thinks
        self.log = []
        self.aborting = False

    def register(self, tid):
        self.tids[threading.get_ident()] = tid

    def me(self):
        return self.tids.get(threading.get_ident())

    def point(self, label, lock=None):
        tid = self.me()
        if tid is None:
            return
        with self.cv:
            self.pending[tid] = (label, lock)
            self.turn = None
            self.cv.notify_all()
            while self.turn != tid:
                if self.aborting:
                    raise Abort()
                self.cv.wait(5)
            if label != "line":
                self.log.append((tid, LABELS[label]))
            del self.pending[tid]

    def finish(self):
        tid = self.me()
        with self.cv:
            self.finished.add(tid)
            self.turn = None
            self.cv.notify_all()

    # ---- scheduler side
    def wait_parked(self, n, patience=60.0):
        import time as _time
        t0 = _time.time()
        with self.cv:
            while self.turn is not None or len(self.pending) + len(self.finished) < n:
                self.cv.wait(1)
                if _time.time() - t0 > patience:
                    raise Stuck()

    def enabled(self):
        out = []
        for tid, (label, lock) in sorted(self.pending.items()):
            if label in ("acq", "zacq", "xacq") and lock.owner is not None:
                continue
            out.append(tid)
        return out

    def release(self, tid):
        with self.cv:
            self.turn = tid
            self.cv.notify_all()

    def abort(self):
        with self.cv:
            self.aborting = True
            self.cv.notify_all()


class CoopLock(object):
    def __init__(self, sched, name):
        self.sched = sched
        self.name = name
        self.owner = None

    def acquire(self, blocking=True, timeout=-1):
        if not blocking:
            # a probe: it never waits, so it is a scheduling point that is always enabled, and it fails while the lock is held
            self.sched.point({"lock": "tryacq", "zlock": "ztryacq"}.get(self.name, "xtryacq"))
            if self.owner is not None:
                return False
            self.owner = self.sched.me() if self.sched.me() is not None else -1
            return True
        self.sched.point({"lock": "acq", "zlock": "zacq"}.get(self.name, "xacq"), self)
        assert self.owner is None, "scheduler released a thread onto a held lock"
        self.owner = self.sched.me() if self.sched.me() is not None else -1
        return True

    def release(self):
        self.sched.point({"lock": "rel", "zlock": "zrel"}.get(self.name, "xrel"))
        self.owner = None

    def locked(self):
        return self.owner is not None

    def __enter__(self):
        self.acquire()
        return self

    def __exit__(self, *a):
        self.release()


class WireSocket(object):
    def __init__(self, sched):
        self.sched = sched
        self.wire = []        # (tid, bytes)
        self.closed = False

    def sendall(self, data):
        data = bytes(data)
        k = max(1, len(data) // 2)
        self.sched.point("send1")
        self.wire.append((self.sched.me(), data[:k]))
        self.sched.point("send2")
        self.wire.append((self.sched.me(), data[k:]))

    def shutdown(self, how):
        self.sched.point("sockclose")

    def close(self):
        self.closed = True

    def settimeout(self, t):
        pass


def make_state_class(W, sched):
    base = W.WebSocket.State

    class State(base):
        def __getattribute__(self, name):
            if name == "closing":
                sched.point("rd_closing")
            elif name == "closed":
                sched.point("rd_closed")
            return base.__getattribute__(self, name)

        def __setattr__(self, name, value):
            if name == "closing":
                sched.point("wr_closing")
            elif name == "closed":
                sched.point("wr_closed")
            elif name == "sent_close_time":
                sched.point("wr_time")
            base.__setattr__(self, name, value)
    return State


class ZProxy(object):
    def __init__(self, sched, real):
        self._sched = sched
        self._real = real
        self.order = []

    def __getattr__(self, name):
        return getattr(self._real, name)

    def compressobj(self, *a, **kw):
        real = self._real.compressobj(*a, **kw)
        sched = self._sched
        proxy = self

        class C(object):
            def compress(self, data):
                sched.point("zcompress")
                proxy.order.append((sched.me(), bytes(data)))
                return real.compress(data)

            def flush(self, *fa):
                sched.point("zflush")
                return real.flush(*fa)
        return C()


def run_schedule(programs, schedule, compression=None, default="stay", lines=False):
    """programs: list (per thread) of calls: ('send', kind, payload, compress) | ('close', code, reason) | ('server_close', code, reason) | ('disconnect',)
    schedule: list of tids (prefix); afterwards the default policy continues.
    Returns dict(log, wire, results, choices) where choices[i] = (enabled tids, chosen) for DFS."""
    import zlib as real_zlib
    import lomond.websocket as W
    import lomond.session as S
    import lomond.compression as C
    import lomond.frame as F
    from lomond import errors
    from . import ref6455

    sched = Sched()
    old = (C.zlib, F.make_masking_key, S.time)
    zp = ZProxy(sched, real_zlib)
    C.zlib = zp
    keytab = {}

    def mk():
        # one byte pair of the key differs from thread to thread, the other pair is the same in all of them (keys that share
        # byte values are the normal case with random keys)
        tid = sched.me()
        return bytes([0x10 + (tid or 0), 0xA5, 0x10 + (tid or 0), 0x5A])
    F.make_masking_key = mk
    results = [[] for _ in programs]
    patched_threading = []
    try:
        ws = W.WebSocket("ws://example.test/")
        State = make_state_class(W, sched)
        st = State()
        object.__setattr__(ws, "state", st)
        sess = S.WebsocketSession(ws)
        base_set = W.WebSocket.State.__setattr__
        base_set(st, "session", sess)
        sock = WireSocket(sched)
        sess._sock = sock
        # the library's own lock objects are replaced by cooperative ones -- but only if they ARE locks: whatever else the
        # code put there (a dummy, nothing) is left alone, so that the schedules run against the real (lack of) exclusion
        if isinstance(sess._lock, REAL_LOCK_TYPES):
            sess._lock = CoopLock(sched, "lock")
        # ... and so is every other lock object the session or the websocket holds (a second lock for the writes, per-method
        # locks, ...): a real lock held by a parked thread would block the thread that has the baton for ever
        for holder in (sess, ws):
            for k_, v_ in list(vars(holder).items()):
                if k_ != "_lock" and isinstance(v_, REAL_LOCK_TYPES):
                    object.__setattr__(holder, k_, CoopLock(sched, "xlock"))
        sess._start_time = 0.0
        if compression == "clock0":
            # the session's clock reads 0.0 for the whole run (no run() has started it yet / a coarse clock that has not advanced
            # since the connection was made): a Close sent now is sent at session time 0.0
            sess._start_time = None
            compression = None
        if compression:
            # ("server_no_takeover": the server asked for a fresh inflate context per message; the client's side keeps its own)
            d = C.Deflate(15, 15, compression == "server_no_takeover", compression == "no_takeover")
            if isinstance(getattr(d, "lock", None), REAL_LOCK_TYPES):
                d.lock = CoopLock(sched, "zlock")
            base_set(st, "compression", d)
            st.stream.set_compression(d)

        import os as _os
        lomond_dir = _os.path.dirname(_os.path.abspath(W.__file__))

        def tracer(frame, event, arg):
            fn = frame.f_code.co_filename
            if event == "call":
                if _os.path.dirname(_os.path.abspath(fn)) == lomond_dir and _os.path.basename(fn) in LINE_FILES:
                    return tracer
                return None
            if event == "line":
                sched.point("line")
            return tracer

        def worker(tid, calls):
            sched.register(tid)
            if lines:
                sys.settrace(tracer)
            try:
                for c in calls:
                    try:
                        if c[0] == "send":
                            kind, payload, comp = c[1], c[2], c[3]
                            if kind == "text":
                                ws.send_text(payload.decode("utf-8"), compress=comp)
                            elif kind == "binary":
                                ws.send_binary(payload, compress=comp)
                            elif kind == "ping":
                                ws.send_ping(payload)
                            elif kind == "pong":
                                # what the event loop's _send_pong does, without swallowing the error so that it can be compared
                                ws.send_pong(payload)
                        elif c[0] == "close":
                            ws.close(c[1], c[2])
                        elif c[0] == "server_close":
                            for _ev in ws.feed(ref6455.encode_frame(8, ref6455.close_payload(c[1], c[2]))):
                                pass
                        elif c[0] == "server_msg":
                            # the event-loop thread receives a (compressed) data message while other threads send
                            for _ev in ws.feed(c[2]):
                                pass
                        elif c[0] == "disconnect":
                            ws.on_disconnect()
                        results[tid].append(0)
                    except Abort:
                        raise
                    except errors.WebSocketClosing:
                        results[tid].append(5)
                    except errors.WebSocketClosed:
                        results[tid].append(4)
                    except errors.WebSocketUnavailable:
                        results[tid].append(3)
                    except errors.WebSocketError:
                        results[tid].append(6)
                    except Exception as e:
                        results[tid].append("exc:" + type(e).__name__)
            except Abort:
                pass
            finally:
                if lines:
                    sys.settrace(None)
                sched.finish()

        # the stream must already be past the HTTP header for server_close; feed a response first (no points: not registered)
        if any(c[0] in ("server_close", "server_msg") for p in programs for c in p):
            st.stream._parsed_response = True
            st.stream.frame_parser.parse_headers = False
            st.stream.frame_parser.reset()
        sess._next_ping = 0.0
        sess._ready = True
        # locks the code creates from now on (lazily, per call, ...) are cooperative too: a real lock taken by a parked thread
        # would block the thread that holds the baton for ever
        class _Threading(object):
            def __getattr__(self_, k):
                return getattr(threading, k)

            def Lock(self_):
                return CoopLock(sched, "xlock")

            def RLock(self_):
                return CoopLock(sched, "xlock")
        for mod in (S, W, C):
            if getattr(mod, "threading", None) is threading:
                mod.threading = _Threading()
                patched_threading.append(mod)
        threads = [threading.Thread(target=worker, args=(i, p)) for i, p in enumerate(programs)]
        for t in threads:
            t.daemon = True
            t.start()
        n = len(programs)
        choices = []
        pos = 0
        cur = None
        steps = 0
        stuck = False
        while True:
            try:
                sched.wait_parked(n)
            except Stuck:
                stuck = True
                sched.abort()
                break
            en = sched.enabled()
            if not en:
                break
            if pos < len(schedule):
                pick = schedule[pos]
                if pick not in en:
                    # a schedule entry naming a disabled/finished thread is a no-op (as in the model)
                    pos += 1
                    choices.append((en, None))
                    continue
            elif default == "stay" and cur in en:
                pick = cur
            else:
                pick = en[0]
            pos += 1
            choices.append((en, pick))
            cur = pick
            sched.release(pick)
            steps += 1
            if steps > (40000 if lines else 2000):
                sched.abort()
                break
        deadlock = len(sched.finished) < n or stuck
        if deadlock:
            sched.abort()
        for t in threads:
            t.join(2)
        return dict(log=list(sched.log), wire=list(sock.wire), results=results, choices=choices, deadlock=deadlock,
                    zorder=list(zp.order), flags=(W.WebSocket.State.__getattribute__(st, "closing"), W.WebSocket.State.__getattribute__(st, "closed")))
    finally:
        C.zlib, F.make_masking_key, S.time = old
        for mod in patched_threading:
            mod.threading = threading


def explore(programs, compression=None, bound=2, limit=20000):
    """stateless DFS over schedules with a preemption bound; yields (schedule, outcome)"""
    stack = [[]]
    seen = 0
    while stack and seen < limit:
        prefix = stack.pop()
        out = run_schedule(programs, prefix, compression)
        seen += 1
        taken = [c[1] for c in out["choices"] if c[1] is not None]
        yield taken, out
        # alternatives beyond the prefix
        real_choices = [c for c in out["choices"] if c[1] is not None]
        for i in range(len(prefix), len(real_choices)):
            en, pick = real_choices[i]
            for alt in en:
                if alt == pick:
                    continue
                cand = taken[:i] + [alt]
                if preemptions(real_choices[:i], cand) <= bound:
                    stack.append(cand)


def preemptions(choices, sched):
    """number of switches away from a thread that was still enabled"""
    n = 0
    for i in range(1, len(sched)):
        if sched[i] != sched[i - 1]:
            en = choices[i][0] if i < len(choices) else None
            if en is None or sched[i - 1] in en:
                n += 1
    return n


def explore_lines(programs, compression=None, fractions=(1.0, 0.5, 0.25), limit=400):
    """line-level schedules with ONE preemption of thread 0 at every source line it executes, after which thread 1 runs
    a fraction of its own steps (all / half / a quarter), then thread 0 finishes, then thread 1 (and further threads).
    Yields (schedule, outcome).  Only for programs with at least two threads."""
    base = run_schedule(programs, [], compression, lines=True)
    taken = [c[1] for c in base["choices"] if c[1] is not None]
    n0 = sum(1 for t in taken if t == 0)
    n1 = sum(1 for t in taken if t == 1)
    yield taken, base
    if n0 == 0 or n1 == 0:
        return
    cands = []
    for p in range(0, n0 + 1):
        for fr in fractions:
            q = max(1, int(n1 * fr))
            cands.append((p, q))
    # spread the budget evenly over the preemption positions
    if len(cands) > limit:
        step = len(cands) / float(limit)
        cands = [cands[int(i * step)] for i in range(limit)]
    for p, q in cands:
        schedule = [0] * p + [1] * q + [0] * (n0 - p + 5) + [1] * (n1 + 5)
        out = run_schedule(programs, schedule, compression, lines=True)
        yield [c[1] for c in out["choices"] if c[1] is not None], out


def explore_lines2(programs, compression=None, fractions=(0.25, 0.5, 0.75), limit=400, offset=0):
    """line-level schedules with TWO preemptions of thread 0: it runs p lines, thread 1 runs a fraction of its steps, thread 0
    runs r more lines, thread 1 runs to its end, thread 0 finishes (further threads afterwards).  All (p, fraction, r) when
    they fit into `limit`, else an even sample of them (rotated by `offset`, so that different seeds see different samples)."""
    base = run_schedule(programs, [], compression, lines=True)
    taken = [c[1] for c in base["choices"] if c[1] is not None]
    n0 = sum(1 for t in taken if t == 0)
    n1 = sum(1 for t in taken if t == 1)
    if n0 < 2 or n1 == 0:
        return
    cands = []
    for p in range(0, n0):
        for fr in fractions:
            q = max(1, int(n1 * fr))
            for r in range(1, n0 - p + 1):
                cands.append((p, q, r))
    if len(cands) > limit:
        step = len(cands) / float(limit)
        start = (offset % max(1, int(step)))
        cands = [cands[min(len(cands) - 1, start + int(i * step))] for i in range(limit)]
    for p, q, r in cands:
        schedule = [0] * p + [1] * q + [0] * r + [1] * (n1 + 5) + [0] * (n0 + 5) + [1] * 5
        out = run_schedule(programs, schedule, compression, lines=True)
        yield [c[1] for c in out["choices"] if c[1] is not None], out
