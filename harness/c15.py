"""C15 -- keep-alive, timeouts and polling fire when, and only when, they should."""
from __future__ import print_function
import itertools
import random

from . import core, fam, scen, simnet, ref6455

E = ref6455.encode_frame


def gen_history(rnd, cfg):
    p, r, T, c = cfg["poll"], cfg["ping_rate"], cfg["ping_timeout"], cfg["close_timeout"]
    steps = [("data", rnd.choice([0, 7, p]), scen.HANDSHAKE)]
    now = 0   # session time (since Ready)
    horizon = rnd.choice([6, 12, 30]) * p
    interesting = []
    if r:
        interesting += [k * r for k in range(1, 8)]
    if T:
        interesting += [T, 2 * T]
    if c:
        interesting += [c]
    mood = rnd.choice(["silent", "chatty", "pongs", "mixed", "trickle"])
    if mood == "trickle":
        # the socket is readable more often than every poll period, but for a long time no read completes a message:
        # one frame arriving byte by byte, or non-final fragments only
        dt = rnd.choice([max(1, p // 2), max(1, p // 3), max(1, p - 1)])
        if rnd.random() < 0.5:
            pieces = [bytes([b]) for b in bytearray(E(2, bytes(bytearray(range(48)))))]
        else:
            pieces = [E(1, b"x", fin=0)] + [E(0, b"y", fin=0) for _ in range(40)] + [E(0, b"z")]
        for piece in pieces:
            steps.append(("data", dt, piece))
            now += dt
    while mood != "trickle" and now < horizon and len(steps) < 120:
        kind = "timeout"
        x = rnd.random()
        if mood == "chatty" and x < 0.6 or mood == "mixed" and x < 0.3 or mood == "pongs" and x < 0.4:
            kind = "data"
        if kind == "timeout":
            steps.append(("timeout", p))
            now += p
        else:
            # arrive exactly on / just around an interesting tick when one is within reach
            cand = [t - now + d for t in interesting for d in (-1, 0, 1) if 0 <= t - now + d <= p]
            dt = rnd.choice(cand) if cand and rnd.random() < 0.5 else rnd.choice([0, 1, p - 1, p, rnd.randrange(0, p + 1)])
            what = rnd.choice(["pong", "pong", "text", "ping", "burst"]) if mood != "pongs" else "pong"
            data = {"pong": E(10, b"k"), "text": E(1, b"t"), "ping": E(9, b"i"), "burst": E(1, b"a") + E(10, b"") + E(2, b"b")}[what]
            steps.append(("data", dt, data))
            now += dt
    app = {}
    closes = rnd.random() < 0.45
    if closes:
        at = rnd.choice([1, 2, 3, rnd.randrange(1, 12), rnd.randrange(1, 30)])
        app[at] = [("close", 1000, b"")]
        if rnd.random() < 0.3:
            # the server completes the handshake some time later
            steps.insert(rnd.randrange(min(3, len(steps)), len(steps) + 1), ("data", rnd.choice([0, 1, p]), E(8, ref6455.close_payload(1000, b""))))
    elif rnd.random() < 0.2:
        steps.insert(rnd.randrange(1, len(steps) + 1), ("data", rnd.choice([0, p]), E(8, ref6455.close_payload(1001, b"going"))))
    # trailing silence so that armed timeouts have room to fire
    steps += [("timeout", p)] * rnd.choice([0, 4, 12, 30])
    if rnd.random() < 0.3:
        steps.append(("eof", rnd.choice([0, p])))
    sc = dict(cfg=cfg, steps=steps, app=app, keys=[b"\x00\x00\x00\x01"] * 80, key16=scen.KEY16)
    sc["_mood"] = mood
    return sc


def oracle(sc, tr, extra):
    out = []
    if extra.get("escaped"):
        return ["exception %s escaped the iterator" % extra["escaped"]]
    cfg = sc["cfg"]
    p, r, T, c = cfg["poll"], cfg["ping_rate"], cfg["ping_timeout"], cfg["close_timeout"]
    tl = fam.timeline(sc, tr)
    ready = None
    for x in tl:
        if x["kind"] == "ev" and x["code"] == 4:
            ready = x["t"]
            break
    if ready is None:
        return out
    end_t = tl[-1]["t"]
    term = [x for x in tl if x["kind"] == "ev" and x["code"] == 14]
    term_t = term[0]["t"] if term else None
    up_until = term_t if term_t is not None else end_t
    rel = lambda t: t - ready
    # ---------------- Poll
    polls = [x["t"] for x in tl if x["kind"] == "ev" and x["code"] == 5]
    if not polls or polls[0] != ready:
        # the first Poll comes right after Ready (same check instant) unless the loop was left at once
        nxt = [x for x in tl if x["kind"] == "ev" and x["t"] >= ready and x["code"] != 4]
        if nxt and nxt[0]["code"] != 5:
            out.append("no Poll right after Ready (next event code %d)" % nxt[0]["code"])
    for a, b in zip(polls, polls[1:]):
        if b - a < p:
            out.append("two Polls %d ticks apart with poll=%d (closer than p)" % (b - a, p))
        if b - a >= 2 * p:
            out.append("two Polls %d ticks apart with poll=%d (2p or more)" % (b - a, p))
    if polls and up_until - polls[-1] >= 2 * p:
        out.append("no Poll for %d ticks (>= 2p, poll=%d) while the connection was up" % (up_until - polls[-1], p))
    # ---------------- automatic pings
    close_act = None
    for x in tl:
        if (x["kind"] == "write" and x["frame"] and x["frame"]["op"] == 8) or (x["kind"] == "call" and x["action"] and x["action"][0] == "close") \
                or (x["kind"] == "ev" and x["code"] in (10, 11, 13)):
            close_act = x["t"]
            break
    pings = [rel(x["t"]) for x in tl if x["kind"] == "write" and x["frame"] and x["frame"]["op"] == 9 and not x["by_app"]]
    if not r:
        if pings:
            out.append("an automatic Ping was written although ping_rate is 0")
    else:
        for u, v in zip(pings, pings[1:]):
            if -(-u // r) >= -(-v // r):
                out.append("two automatic Pings at session times %d and %d fall in the same period of ping_rate=%d" % (u, v, r))
        open_until = rel(close_act) if close_act is not None else rel(up_until)
        k = 0
        while k * r + p <= open_until - 1:
            lo, hi = k * r, k * r + p
            if not any(lo < u <= hi for u in pings):
                out.append("no automatic Ping within p=%d after session time %d (a multiple of ping_rate=%d) although the connection stayed open until %d" % (p, lo, r, open_until))
                break
            k += 1
    # ---------------- ping timeout
    unresp = [x for x in tl if x["kind"] == "ev" and x["code"] == 12]
    pongs = [x["t"] for x in tl if x["kind"] == "ev" and x["code"] == 9]
    if not T:
        if unresp:
            out.append("Unresponsive although ping_timeout is %r" % T)
    else:
        for x in unresp:
            last = max([ready] + [t for t in pongs if t <= x["t"]])
            if x["t"] - last <= T:
                out.append("Unresponsive %d ticks after Ready/the last Pong with ping_timeout=%d (too early)" % (x["t"] - last, T))
            i = tl.index(x)
            nxt = [y for y in tl[i + 1:] if y["kind"] == "ev"]
            if not nxt or nxt[0]["code"] != 14 or nxt[0]["fields"] != [0]:
                out.append("Unresponsive was not followed by a non-graceful Disconnected")
        if not unresp:
            # was it due? walk the quiet gaps
            marks = sorted([ready] + pongs)
            for i, m in enumerate(marks):
                nxt_m = marks[i + 1] if i + 1 < len(marks) else up_until
                if nxt_m - m > T + p:
                    out.append("no Unresponsive although %d ticks passed after Ready/a Pong without another Pong (ping_timeout=%d, poll=%d)" % (nxt_m - m, T, p))
                    break
    # ---------------- close timeout
    sent = None
    for x in tl:
        if x["kind"] == "call" and x["action"] and x["action"][0] == "close" and x["result"] == 0:
            sent = x["t"]
            break
        if x["kind"] == "write" and x["frame"] and x["frame"]["op"] == 8:
            sent = x["t"]
            break
    forced = [x for x in tl if x["kind"] == "ev" and x["code"] == 14 and x["fields"] == [0]]
    other_cause = any(s[0] in ("eof", "oserr", "exc", "selexc") for s in sc["steps"]) or bool(unresp) or any(x["kind"] == "ev" and x["code"] == 13 for x in tl)
    if sent is not None:
        s = max(rel(sent), 0)
        if c:
            completed = [x for x in tl if x["kind"] == "ev" and x["code"] in (11,) ] or [x for x in tl if x["kind"] == "ev" and x["code"] == 14 and x["fields"] == [1]]
            if not completed and not other_cause:
                if not forced:
                    if rel(up_until) > s + c + p:
                        out.append("the client's Close (session time %d) was not completed, yet no forced Disconnected by %d (close_timeout=%d, poll=%d)" % (s, rel(up_until), c, p))
                else:
                    d = rel(forced[0]["t"])
                    if d < s + c:
                        out.append("forced Disconnected at session time %d, earlier than close time %d + close_timeout %d" % (d, s, c))
                    if d > s + c + p:
                        out.append("forced Disconnected at session time %d, later than close time %d + close_timeout %d + poll %d" % (d, s, c, p))
        else:
            if forced and not other_cause:
                out.append("a forced Disconnected happened although close_timeout is %r" % c)
    elif forced and not other_cause:
        out.append("a non-graceful Disconnected without any cause (no fault, no timeout armed)")
    return out


def run(rep, info, model, tier, seed):
    rnd = random.Random(seed)
    proof_ok = rep.proof_obligations(info, "props/C15.v")
    per = 12 if tier == "quick" else 150
    scs = []
    for p, r, T, c in itertools.product([128, 1024, 5120], [0, 512, 3072, 12288], [None, 0, 2048, 22528], [None, 0, 1024, 12288]):
        cfg = simnet.default_cfg(poll=p, ping_rate=r, ping_timeout=T, close_timeout=c)
        for _ in range(per):
            scs.append(gen_history(rnd, cfg))
    for sc in scs:
        rep.count("mood", sc["_mood"])
        rep.count("poll", sc["cfg"]["poll"])
        rep.count("ping_rate", sc["cfg"]["ping_rate"])
        rep.count("ping_timeout", sc["cfg"]["ping_timeout"])
        rep.count("close_timeout", sc["cfg"]["close_timeout"])
    fam.run_family(rep, model, "C15:timer-histories", scs, oracle, project=lambda t: t,
                   rule="all 192 combinations of poll in {1/8,1,5}s x ping_rate in {0,1/2,3,12}s x ping_timeout in {None,0,2,22}s x close_timeout in {None,0,1,12}s, each with %d arrival histories on the virtual clock (silence, pongs, data bursts, close replies; wake-ups exactly on and +-1 tick around multiples of ping_rate and deadline ticks); every trace item is time-stamped through the selector-wait markers and judged against the bounds of the statement" % per)
    rep.exhaustive["parameter grid (192 combinations)"] = True
    # the same histories read as ARRIVAL times, under a selector that sleeps exactly as long as the loop asks it to (it is the
    # loop, not the script, that decides when it wakes up without traffic): the wake-ups that result are judged by the same
    # oracle and handed to the model as its script
    per2 = 3 if tier == "quick" else 40
    hs = []
    for p, r, T, c in itertools.product([128, 1024, 5120], [0, 512, 3072, 12288], [None, 0, 2048, 22528], [None, 0, 1024, 12288]):
        cfg = simnet.default_cfg(poll=p, ping_rate=r, ping_timeout=T, close_timeout=c)
        for _ in range(per2):
            sc = gen_history(rnd, cfg)
            sc["honest"] = True
            sc["horizon"] = sum(st[1] for st in sc["steps"]) + 6 * p + 2 * max(T or 0, c or 0)
            hs.append(sc)
    fam.run_family(rep, model, "C15:honest-selector", hs, oracle, project=lambda t: t,
                   rule="the same parameter grid, %d histories each, with the steps read as arrival times and a simulated selector that honours the timeout it is given (returns True when the next arrival is there, False after exactly `timeout` seconds, never for a negative timeout or None): the wake-ups are the loop's own; they are time-stamped, judged against the bounds of the statement and replayed through the model" % per2)
    # the loop's own waiting discipline against the selector model of the theorems (Model.Selector.wakes): with handlers that
    # take no time, the instants at which selector.wait returned are those of a loop that asks for `poll` every time
    if model is not None:
        sub = hs[::3]
        res = fam.run_impl_many([fam.strip_meta(sc) for sc in sub])
        reqs, got = [], []
        for sc, (it, extra) in zip(sub, res):
            t, wk = 0, []
            for st in (extra or {}).get("wake_script") or ():
                t += st[1]
                wk.append(t)
            a, arr = 0, []
            for st in sc["steps"]:
                a += st[1] if st[0] == "timeout" else 0
                if st[0] != "timeout":
                    arr.append(a + st[1])
                    a += st[1]
            got.append(wk)
            reqs.append([42, len(wk), sc["cfg"]["poll"], 0, arr])
        mres = model.run(reqs)
        rep.watch_extraction(model, reqs[:30])
        dis = 0
        first = None
        for sc, wk, m in zip(sub, got, mres):
            rep.add_case(("wakes", fam.fingerprint(fam.strip_meta(sc))))
            mw = [x if not isinstance(x, list) else -x[0] for x in m]
            if mw != wk:
                dis += 1
                first = first or (sc["cfg"], wk[:12], mw[:12])
        if dis and not rep.violations:
            rep.broken("correspondence C15:selector-discipline: on %d of %d histories the instants at which the loop woke up under the honest selector differ from Model.Selector.wakes with timeout = poll; first (cfg, implementation, model): %r" % (dis, len(sub), first))
        rep.families.append(dict(name="C15:selector-discipline", cases=len(sub), disagreements=dis,
                                 rule="a third of the honest-selector histories: the wake-up instants recorded by the simulated selector against Model.Selector.wakes (the selector of the theorems C15_*_under_honest_selector) for the same arrival times and timeout = poll"))
    if not proof_ok and not rep.violations:
        rep.broken("proof obligation props/C15.v no longer checks: %s" % (rep.coq_failure,))


def replay(body):
    return fam.replay_generic(body, {"C15:timer-histories": oracle, "C15:honest-selector": oracle}, show=80)
