"""C13 -- abandoning the event loop at any event releases the socket."""
from __future__ import print_function
import random

from . import core, fam, scen, simnet, ref6455

E = ref6455.encode_frame
MECHS = ["break", "raise", "close", "with", "rebind", "with-kept"]


def bases(rnd, n):
    out = []
    fixed = [
        ("handshake+messages", [("data", 10, scen.HANDSHAKE + E(1, b"a") + E(9, b"p") + E(2, b"b"))], {}),
        ("silence-polls", [("data", 10, scen.HANDSHAKE)] + [("timeout", 5120)] * 4, {}),
        ("ping-timeout", [("data", 10, scen.HANDSHAKE)] + [("timeout", 5120)] * 6, dict(ping_timeout=10 * 1024)),
        ("server-close", [("data", 10, scen.HANDSHAKE + E(1, b"x")), ("data", 10, E(8, ref6455.close_payload(1000, b"")))], {}),
        ("rejected", [("data", 10, b"HTTP/1.1 403 Forbidden\r\n\r\n")], {}),
        ("protocol-error", [("data", 10, scen.HANDSHAKE + E(3, b""))], {}),
        ("data-then-poll", [("data", 10, scen.HANDSHAKE), ("timeout", 5120), ("data", 6000, E(1, b"late")), ("timeout", 5120)], {}),
        ("eof", [("data", 10, scen.HANDSHAKE + E(2, b"zz")), ("eof", 5)], {}),
        ("write-fault", [("data", 10, scen.HANDSHAKE + E(9, b"pp") + E(1, b"t")), ("timeout", 5120), ("timeout", 5120)], dict(_wf=["ok", "oserr"])),
        ("autoping-fault", [("data", 10, scen.HANDSHAKE)] + [("timeout", 5120)] * 3, dict(ping_rate=4 * 1024, _wf=["ok", "oserr"])),
        # the websocket is no longer "active" (a closing handshake is under way) when the consumer leaves
        ("client-closing-then-polls", [("data", 10, scen.HANDSHAKE)] + [("timeout", 5120)] * 3, dict(_app={2: [("close", 1000, b"bye")]})),
        ("client-closing-then-message", [("data", 10, scen.HANDSHAKE), ("timeout", 5120), ("data", 10, E(1, b"still talking")), ("timeout", 5120)],
         dict(_app={2: [("close", 1000, b"bye")]})),
        ("client-closing-unresponsive", [("data", 10, scen.HANDSHAKE)] + [("timeout", 5120)] * 6, dict(ping_timeout=10 * 1024, close_timeout=None, _app={2: [("close", 1000, b"")]})),
        ("client-closing-protocol-error", [("data", 10, scen.HANDSHAKE), ("timeout", 5120), ("data", 10, E(3, b""))], dict(_app={2: [("close", 1001, b"")]})),
        ("server-close-echoed-then-polls", [("data", 10, scen.HANDSHAKE + E(8, ref6455.close_payload(1000, b"")))] + [("timeout", 5120)] * 3, {}),
        ("closed-at-connected", [("data", 10, scen.HANDSHAKE)] + [("timeout", 5120)] * 2, dict(_app={1: [("close", 1000, b"")]})),
        # the client's own Close cannot be written (the connection is already broken): close() swallows the error
        ("client-close-write-fails", [("data", 10, scen.HANDSHAKE)] + [("timeout", 5120)] * 3, dict(_wf=["ok", "oserr"], _app={2: [("close", 1000, b"bye")]})),
        ("client-close-write-explodes", [("data", 10, scen.HANDSHAKE + E(1, b"m"))] + [("timeout", 5120)] * 2, dict(_wf=["ok", "exc"], _app={3: [("close", 1001, b"")]})),
        ("echo-write-fails", [("data", 10, scen.HANDSHAKE + E(8, ref6455.close_payload(1000, b"")))] + [("timeout", 5120)] * 2, dict(_wf=["ok", "oserr"])),
        ("text-write-fails-then-close", [("data", 10, scen.HANDSHAKE)] + [("timeout", 5120)] * 3,
         dict(_wf=["ok", "oserr", "oserr"], _app={2: [("text", b"x", False)], 3: [("close", 1000, b"")]})),
        # events of the loop that come BEFORE Ready: the upgrade reply is broken (no timer has been started, no pong seen yet)
        ("oversize-reply-unterminated", [("data", 10, b"HTTP/1.1 101 Switching Protocols\r\nX-Pad: " + b"p" * 17000)] + [("timeout", 5120)] * 2, {}),
        ("oversize-reply-terminated", [("data", 10, b"HTTP/1.1 101 Switching Protocols\r\nX-Pad: " + b"p" * 17000 + b"\r\n\r\n")] + [("timeout", 5120)], {}),
        ("oversize-reply-in-pieces", [("data", 10, b"HTTP/1.1 101 Switching Protocols\r\nX-Pad: " + b"p" * 9000), ("timeout", 5120), ("data", 10, b"q" * 9000)] + [("timeout", 5120)], {}),
        ("reply-then-silence", [("data", 10, scen.HANDSHAKE[:40])] + [("timeout", 5120)] * 3, {}),
        ("rejected-bad-accept", [("data", 10, ref6455.handshake_response(b"AAAAAAAAAAAAAAAAAAAAAAAAAAA="))] + [("timeout", 5120)], {}),
        # the upgrade request cannot be written
        ("request-write-fails", [("data", 10, scen.HANDSHAKE)], dict(_wf=["oserr"])),
    ]
    for name, steps, extra in fixed:
        out.append((name, steps, extra))
    # the same over a TLS-like socket (it has unwrap(), which fails while the peer's data is unread)
    for name, steps, extra in fixed[:4] + fixed[6:8]:
        e2 = dict(extra)
        e2["_tls"] = True
        out.append((name + "+tls", steps + [("data", 10, E(1, b"unread"))], e2))
    for i in range(n):
        msgs = [scen.gen_message(rnd, big_ok=False) for _ in range(rnd.choice([1, 2, 4]))]
        frames, _ = scen.wire_plan(rnd, msgs)
        stream = scen.HANDSHAKE + scen.render(frames)
        steps = []
        for c in scen.chunkings(rnd, stream, "random"):
            if rnd.random() < 0.3:
                steps.append(("timeout", 5120))
            steps.append(("data", rnd.choice([0, 100, 5120]), c))
        steps += [("timeout", 5120)] * rnd.choice([0, 2])
        out.append(("random-%d" % i, steps, dict(ping_rate=rnd.choice([0, 30 * 1024, 6 * 1024]))))
    return out


def oracle(sc, tr, extra):
    out = []
    if extra.get("escaped"):
        return ["exception %s escaped" % extra["escaped"]]
    if extra.get("sock_closed") is False:
        out.append("the TCP socket is still open after the consumer abandoned the loop by '%s' at event %d (%s)" % (sc["_mech"], sc["_at"], sc["_base"]))
    if extra.get("sock_closed_after_with") is False:
        out.append("the TCP socket is still open when the exception has left the with-block at event %d (%s) -- the iterator, created inside the block, is still referenced, so only __exit__ can close it" % (sc["_at"], sc["_base"]))
    if extra.get("sel_closed") is False:
        out.append("the selector is still open after the consumer abandoned the loop by '%s' at event %d (%s)" % (sc["_mech"], sc["_at"], sc["_base"]))
    return out


def failed_addresses(rep, tier):
    """descriptors opened on the way to the connection: when an earlier resolved address fails (socket set-up or connect) and a
    later one succeeds, or all fail, no socket of a failed attempt may stay open -- whatever the consumer does afterwards"""
    import itertools
    from . import c09
    n = 0
    for naddr in range(1, 4 if tier == "quick" else 5):
        for create_ok in itertools.product((True, False), repeat=naddr):
            for connect_ok in itertools.product((True, False), repeat=naddr):
                for secure in (False, True):
                    complaint, exp, res, log = c09.judge_connect(True, create_ok, connect_ok, False, secure)
                    n += 1
                    rep.add_case(("failed-addresses", create_ok, connect_ok, secure))
                    if complaint and "not closed" in complaint:
                        rep.violation("a descriptor stays open behind the WebSocket: " + complaint,
                                      scenario=dict(kind="connect_each", resolve_ok=True, create_ok=list(create_ok), connect_ok=list(connect_ok), v6=False, secure=secure),
                                      family="C13:failed-addresses")
    rep.families.append(dict(name="C13:failed-addresses", cases=n, exhaustive=True,
                             rule="real _connect_sock against a fake socket module, every pattern of per-address socket()/connect() success and failure for up to %d addresses, plain and TLS: the sockets of the failed attempts are closed" % (3 if tier == "quick" else 4)))


def run(rep, info, model, tier, seed):
    rnd = random.Random(seed)
    proof_ok = rep.proof_obligations(info, "props/C13.v")
    failed_addresses(rep, tier)
    scs = []
    for name, steps, extra in bases(rnd, 6 if tier == "quick" else 40):
        cfgkw = {k: v for k, v in extra.items() if not k.startswith("_")}
        cfg = simnet.default_cfg(**cfgkw)
        # how many events does the un-abandoned run yield?
        base_app = extra.get("_app", {})
        probe = dict(cfg=cfg, steps=steps, keys=[b"\x01\x02\x03\x04"] * 12, key16=scen.KEY16, wfaults=list(extra.get("_wf", [])),
                     app={k: list(v) for k, v in base_app.items()}, tls_like=bool(extra.get("_tls")))
        r = simnet.run_impl(probe)
        nev = len([it for it in r.trace if it[0] == 0])
        for at in range(nev):
            for mech in MECHS:
                app = {k: list(v) for k, v in base_app.items()}
                app.setdefault(at, []).append(("abandon", mech))
                sc = dict(cfg=cfg, steps=steps, keys=[b"\x01\x02\x03\x04"] * 12, key16=scen.KEY16, app=app,
                          wfaults=list(extra.get("_wf", [])), tls_like=bool(extra.get("_tls")))
                sc["_mech"] = mech
                sc["_at"] = at
                sc["_base"] = name
                ev = [it for it in r.trace if it[0] == 0][at][1][0]
                sc["_evname"] = ev
                scs.append(sc)
    for sc in scs:
        rep.count("mechanism", sc["_mech"])
        rep.count("abandoned_at_event_code", sc["_evname"])
    def _release_order(t):
        # when the WebSocket was reconnected before the old iterator is released, the selector is closed before the socket
        # (feed's GeneratorExit handler reaches the new session): the order of the two releases is not part of the property
        out = list(t)
        for i in range(len(out) - 1):
            if out[i] == [6] and out[i + 1] == [5]:
                out[i], out[i + 1] = out[i + 1], out[i]
        return out

    fam.run_family(rep, model, "C13:abandon-at-every-event", scs, oracle, project=_release_order,
                   rule="for each base scenario (handshake, messages, housekeeping Polls in silence, Unresponsive, server close, rejection, protocol error, EOF, failed library writes, a failed request write, a failed write of the client's own Close or of the echo, and the same while a closing handshake started by either side is under way): abandonment at EVERY event index by break / exception in the handler / generator.close() / exception leaving `with ws:` (the iterator created before the block and dropped, or created inside it and still referenced when __exit__ runs: the socket must be closed right after the block) / reconnecting the same WebSocket before the old iterator is released; afterwards gc.collect(); the simulated socket and selector must have been closed")
    rep.exhaustive["every event index x 6 mechanisms for each base scenario"] = True
    if not proof_ok and not rep.violations:
        rep.broken("proof obligation props/C13.v no longer checks: %s" % (rep.coq_failure,))


def replay(body):
    sc = body.get("scenario") or {}
    if sc.get("kind") == "connect_each":
        from . import c09
        complaint, exp, res, log = c09.judge_connect(sc["resolve_ok"], sc["create_ok"], sc["connect_ok"], bool(sc.get("v6")), bool(sc.get("secure")))
        bad = bool(complaint and "not closed" in complaint)
        print("socket module calls:", log)
        print("REPLAY:", ("VIOLATION reproduced: %s" % complaint) if bad else "property holds on this input")
        return 1 if bad else 0
    return fam.replay_generic(body, {"C13:abandon-at-every-event": oracle})
