"""Run scenarios in a fresh interpreter: `python -m harness.fresh` reads a pickled (runner, list of scenarios, options) from stdin,
runs them one after the other in this one process and writes the pickled list of results to stdout.  runner is "module:function";
the function takes (scenario, options)."""
from __future__ import print_function
import importlib
import pickle
import sys


def main():
    runner, scs, opts = pickle.load(sys.stdin.buffer)
    mod, fn = runner.split(":")
    f = getattr(importlib.import_module(mod), fn)
    out = [f((sc, opts)) for sc in scs]
    sys.stdout.buffer.write(pickle.dumps(out, protocol=2))


if __name__ == "__main__":
    main()
