"""Run scenarios in a fresh interpreter: `python -m harness.fresh` reads a pickled (list of scenarios, options) from stdin, runs
them one after the other in this one process and writes the pickled list of (trace, extra) to stdout."""
from __future__ import print_function
import pickle
import sys


def main():
    from . import fam
    scs, opts = pickle.load(sys.stdin.buffer)
    out = [fam._impl_worker((sc, opts)) for sc in scs]
    sys.stdout.buffer.write(pickle.dumps(out, protocol=2))


if __name__ == "__main__":
    main()
