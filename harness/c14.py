"""C14 -- every Ping is answered by exactly one matching Pong, in order."""
from __future__ import print_function
import random

from . import core, fam, scen, simnet, ref6455

E = ref6455.encode_frame


def gen(rnd):
    n = rnd.choice([1, 2, 3, 5, 8, 20])
    msgs = []
    for _ in range(n):
        r = rnd.random()
        if r < 0.55:
            msgs.append(("ping", scen.rand_bytes(rnd, rnd.choice([0, 1, 2, 124, 125, rnd.randrange(0, 126)]))))
        else:
            msgs.append(scen.gen_message(rnd, big_ok=False))
    frames, completed = scen.wire_plan(rnd, msgs, ctrl_p=0.7)
    body = scen.render(frames)
    tailkind = rnd.choice(["eof", "eof", "server_close_then_pings", "client_close_then_pings", "violation"])
    auto = rnd.random() < 0.75
    app = {}
    # the application reacts to events by sending (these must come after the pong of that event)
    for _ in range(rnd.choice([0, 1, 2, 4])):
        i = rnd.randrange(2, 6 + len(completed))
        app[i] = app.get(i, []) + [rnd.choice([("text", b"re", True), ("binary", b"\x07", True), ("ping", b"mine"), ("pong", b"unsolicited")])]
    if rnd.random() < 0.15:
        # a close() the library refuses (reason too long): nothing is written, and Pings keep being answered
        i = rnd.randrange(2, 4 + len(completed))
        app[i] = app.get(i, []) + [("close", 1000, b"r" * rnd.choice([124, 200]))]
    extra = b""
    if tailkind == "server_close_then_pings":
        extra = E(8, ref6455.close_payload(1000, b"")) + E(9, b"after-close")
    elif tailkind == "client_close_then_pings":
        i = rnd.randrange(2, 4 + len(completed))
        app[i] = app.get(i, []) + [("close", 1000, b"bye")]
        extra = E(9, b"late-ping") + E(9, b"")
    elif tailkind == "violation":
        # the stream ends with a frame that violates the protocol, possibly in the same read as the Pings before it: those
        # Pings arrived first and are owed their event and their Pong
        extra = rnd.choice([E(3, b""), E(1, b"\xff"), E(9, b"m", mask_key=b"\x01\x02\x03\x04"), E(9, b"x" * 126), E(0, b"orphan"), E(2, b"r", rsv=4),
                            E(8, b"\x03"), E(8, ref6455.close_payload(1005, b"")), E(9, b"frag", fin=0), E(11, b"")]) + rnd.choice([b"", E(9, b"never")])
    deflate = rnd.random() < 0.2
    hs = scen.HANDSHAKE
    if deflate and extra.startswith(E(2, b"r", rsv=4)):
        # with the extension negotiated RSV1 is no violation; RSV2 is
        extra = E(2, b"r", rsv=2) + extra[len(E(2, b"r", rsv=4)):]
    if deflate:
        # permessage-deflate negotiated (the server happens to send its messages uncompressed, which is legal): control frames
        # are never compressed, the Pong carries the Ping's bytes as they are
        hs = ref6455.handshake_response(scen.ACCEPT, extra=b"Sec-WebSocket-Extensions: permessage-deflate\r\n")
        app = {k: [(a[0], a[1], False) if a[0] in ("text", "binary") else a for a in v] for k, v in app.items()}
    stream = hs + body + extra
    chunks = scen.chunkings(rnd, stream, rnd.choice(["one", "one", "random", "small"]))
    wf = []
    if rnd.random() < 0.15:
        wf = ["ok"] * rnd.randrange(1, 5) + [rnd.choice(["oserr", "exc"])]
    sc = dict(cfg=simnet.default_cfg(auto_pong=auto), steps=scen.steps_from_chunks(chunks), app=app, keys=scen.keys(rnd, 40), key16=scen.KEY16, wfaults=wf)
    if deflate:
        sc["ws_kwargs"] = dict(compress=True)
    sc["_deflate"] = deflate
    sc["_auto"] = auto
    sc["_tail"] = tailkind
    sc["_npings"] = sum(1 for k, _ in completed if k == "ping")
    sc["_completed"] = scen.expected_events(completed)
    sc["_wf"] = bool(wf)
    return sc


def oracle(sc, tr, extra):
    out = []
    if extra.get("escaped"):
        return ["exception %s escaped the iterator" % extra["escaped"]]
    tl = fam.timeline(sc, tr)
    close_attempted = False
    close_written = False
    transport_failed = False
    for i, x in enumerate(tl):
        if x["kind"] == "write" and x["frame"] and x["frame"]["op"] == 10 and not x["by_app"] and close_written:
            out.append("the library wrote a Pong (%r) after the client's Close frame: once the client has sent its Close a Pong cannot be written and is to be dropped silently" % (x["frame"]["payload"][:20],))
        if x["kind"] == "write" and x["frame"] and x["frame"]["op"] == 8:
            close_attempted = True
            close_written = close_written or bool(x["ok"])
        if x["kind"] == "write" and not x["ok"]:
            transport_failed = True
        if x["kind"] == "call" and x["action"] and x["action"][0] == "close" and x["result"] == 0:
            close_attempted = True
        if x["kind"] == "write" and x["frame"] and x["frame"]["op"] == 10 and not x["by_app"] and not x["frame"].get("minimal", True):
            out.append("the Pong for a %d-byte Ping is not a valid control frame: its length is not in the 7-bit form (RFC 6455 5.2: the minimal encoding must be used; a server refuses the frame)" % (x["frame"]["length"],))
        if x["kind"] == "write" and x["frame"] and x["frame"]["op"] >= 8 and x["frame"]["rsv"]:
            out.append("a control frame (opcode %d) was written with reserved bits set (%d)" % (x["frame"]["op"], x["frame"]["rsv"]))
        if x["kind"] == "write" and x["frame"] and x["frame"]["op"] == 10 and not x["by_app"]:
            # a Pong written by the library: must be directly followed by its Ping event with the same payload
            nxt = tl[i + 1] if i + 1 < len(tl) else None
            if not sc["_auto"]:
                out.append("the library wrote a Pong although automatic pongs are disabled")
            elif not (nxt and nxt["kind"] == "ev" and nxt["code"] == 8 and nxt["fields"][0] == x["frame"]["payload"]):
                out.append("a library Pong (%r) is not immediately followed by the Ping event it answers" % (x["frame"]["payload"][:20],))
        if x["kind"] == "ev" and x["code"] == 8:
            prev = tl[i - 1] if i > 0 else None
            has_pong = prev is not None and prev["kind"] == "write" and prev["frame"] and prev["frame"]["op"] == 10 and not prev["by_app"]
            if sc["_auto"] and not close_attempted and not transport_failed:
                if not has_pong:
                    out.append("Ping %r was not answered by a Pong before its event was handed to the application" % (x["fields"][0][:20],))
                elif prev["frame"]["payload"] != x["fields"][0]:
                    out.append("Pong payload %r differs from Ping payload %r" % (prev["frame"]["payload"][:20], x["fields"][0][:20]))
    # every generated stream is a conforming one: a ProtocolError means that a Ping (and all that follows) was lost
    if sc["_tail"] == "violation":
        cut = [i for i, x in enumerate(tl) if x["kind"] == "ev" and x["code"] == 13]
        got = [[x["code"]] + x["fields"] for x in (tl[:cut[0]] if cut else tl) if x["kind"] == "ev" and x["code"] in (6, 7, 8, 9)]
        if got != list(sc["_completed"]):
            npi = len([g for g in got if g[0] == 8])
            out.append("the stream ends with a protocol violation; the %d messages (%d Pings) that arrived BEFORE it were not all delivered first (%d message events, %d Pings)" % (
                len(sc["_completed"]), sc["_npings"], len(got), npi))
    elif any(x["kind"] == "ev" and x["code"] == 13 for x in tl):
        npi = len([x for x in tl if x["kind"] == "ev" and x["code"] == 8])
        out.append("a ProtocolError was raised for a conforming stream with %d Pings, %d of them were delivered: the others were neither delivered nor answered" % (sc["_npings"], npi))
    # the event stream is not disturbed by pongs that cannot be written
    if sc["_tail"] in ("eof", "server_close_then_pings") and not any(x["kind"] == "ev" and x["code"] == 13 for x in tl):
        got = [[x["code"]] + x["fields"] for x in tl if x["kind"] == "ev" and x["code"] in (6, 7, 8, 9)]
        exp = list(sc["_completed"])
        if sc["_tail"] == "server_close_then_pings":
            exp = exp  # after the close echo the websocket keeps reading until EOF: the late ping is still an event
            exp = exp + [[8, b"after-close"]]
        if got != exp:
            out.append("the sequence of message events was disturbed (got %d message events, expected %d)" % (len(got), len(exp)))
    return out


def run(rep, info, model, tier, seed):
    rnd = random.Random(seed)
    proof_ok = rep.proof_obligations(info, "props/C14.v")
    n = 1500 if tier == "quick" else 20000
    scs = [gen(rnd) for _ in range(n)]
    for sc in scs:
        rep.count("auto_pong", sc["_auto"])
        rep.count("tail", sc["_tail"])
        rep.count("pings", min(sc["_npings"], 10))
        rep.count("write_fault", sc["_wf"])
        rep.count("permessage_deflate_negotiated", sc["_deflate"])
    fam.run_family(rep, model, "C14:pings-anywhere", scs, oracle, project=lambda t: t,
                   rule="streams with 0-20 Pings (payload 0..125 bytes) at the start, between fragments, back-to-back in one read, after the server's or the client's Close, before a protocol violation in the same read, with failing writes; auto_pong on/off; the application sends in reaction to events; wire order is checked against event order")
    if not proof_ok and not rep.violations:
        rep.broken("proof obligation props/C14.v no longer checks: %s" % (rep.coq_failure,))


def replay(body):
    return fam.replay_generic(body, {"C14:pings-anywhere": oracle}, show=60)
