"""Run the REAL lomond client against a scripted socket / selector / clock / application.

Scenario (python dict; `to_sx` lowers it to the model's request):
  cfg:   dict(poll, ping_rate, ping_timeout|None, auto_pong, close_timeout|None)   -- times in ticks of 1/1024 s
  connect: 'ok' | 'sockfail' | 'exc'
  steps: list of ('timeout', dt) | ('data', dt, bytes) | ('eof', dt) | ('oserr', dt) | ('exc', dt) | ('selexc', dt)
  app:   dict event_index -> list of actions:
         ('text', payload_utf8_bytes, compress) | ('binary', bytes, compress) | ('ping', bytes) | ('pong', bytes)
         | ('close', code|None, reason_bytes) | ('abandon', mechanism)   mechanism in break|raise|close|with|rebind|hold
  keys:  list of 4-byte masking keys (one per frame built)
  wfaults: list of 'ok'|'oserr'|'exc' per sendall, in order
  ztape / ctape: see compression scenarios
  key16: the 16 random bytes of the handshake key

The trace has exactly the shape the model prints (see coq/model/Main.v sx_titem).
"""
from __future__ import print_function
import base64
import gc
import hashlib
import socket as _socket
import sys
import zlib

from . import core

sys.path.insert(0, core.REPO)
import logging  # noqa: E402
logging.getLogger("lomond").addHandler(logging.NullHandler())
logging.getLogger("lomond").propagate = False
logging.getLogger("lomond").setLevel(logging.CRITICAL + 1)

TICK = 1024.0

EXN_CODES = {"TypeError": 1, "ValueError": 2, "WebSocketUnavailable": 3, "WebSocketClosed": 4,
             "WebSocketClosing": 5, "TransportFail": 6}


class Blocked(BaseException):
    """The script is exhausted: the real client would now wait forever."""


class Boom(Exception):
    """Raised by the simulated application handler."""


class Clock(object):
    def __init__(self):
        self.ticks = 0

    def time(self):
        return 1000000.0 + self.ticks / TICK

    # anything else the session module might use from `time`: the other clocks read the same virtual time (a maintainer
    # may well switch to time.monotonic()), sleeping moves it, everything else is the real module's
    def monotonic(self):
        return 5000.0 + self.ticks / TICK

    perf_counter = monotonic

    def sleep(self, s):
        self.ticks += int(round(s * TICK))

    def __getattr__(self, name):
        import time as _real_time
        return getattr(_real_time, name)


class SimSocket(object):
    def __init__(self, run):
        self.run = run
        self.closed = False
        self.close_calls = 0
        self.next_recv = None

    # --- used by lomond
    def sendall(self, data):
        data = bytes(data)
        run = self.run
        fault = run.wfaults.pop(0) if run.wfaults else "ok"
        run.n_sendall += 1
        first = run.n_sendall == 1
        if fault == "ok":
            if first and run.expect_request:
                run.request = data
                run.log([3, 1])
            else:
                run.log([1, data])
            return
        if first and run.expect_request:
            run.log([3, 0])
        else:
            run.log([2, data])
        # the errno and the text of the failure vary from one fault to the next (deterministically): a reset, an
        # interrupted call, a broken pipe, a full buffer, and messages containing format characters
        k = (run.n_sendall + len(data) + run.salt) % len(OS_ERRORS)
        if fault == "oserr":
            raise _socket.error(*OS_ERRORS[k])
        raise RuntimeError(EXC_TEXTS[k % len(EXC_TEXTS)])

    def recv_into(self, buf, nbytes=0):
        r = self.next_recv
        self.next_recv = None
        if r is None:
            raise AssertionError("recv_into without a readable selector result")
        kind = r[0]
        if kind == "data":
            data = r[1]
            n = len(data)
            assert n <= (nbytes or len(buf)), "script chunk larger than the requested read"
            buf[:n] = data
            self.run.live_views.append((memoryview(buf), n, data))
            return n
        if kind == "eof":
            return 0
        k = (self.run.pos + self.run.n_sendall + self.run.salt) % len(OS_ERRORS)
        if kind == "oserr":
            raise _socket.error(*OS_ERRORS[k])
        raise RuntimeError(EXC_TEXTS[k % len(EXC_TEXTS)])

    # the same reads and writes through the other calls of the socket API (a maintainer may prefer them)
    def recv(self, nbytes, *flags):
        buf = bytearray(nbytes)
        n = self.recv_into(buf, nbytes)
        return bytes(buf[:n])

    def send(self, data, *flags):
        self.sendall(data)
        return len(data)

    def setblocking(self, flag):
        pass

    def getpeername(self):
        return ("192.0.2.1", 80)

    def shutdown(self, how):
        if self.closed:
            raise _socket.error(9, "Bad file descriptor")

    def close(self):
        self.close_calls += 1
        if not self.closed:
            self.closed = True
            self.run.log([5])

    def settimeout(self, t):
        pass

    def setsockopt(self, *a):
        pass

    def fileno(self):
        return 99


class TlsLikeSocket(SimSocket):
    """what ssl.SSLSocket adds: unwrap() fails while application data is still unread (as OpenSSL's shutdown does)"""

    def unwrap(self):
        import ssl
        rest = self.run.steps[self.run.pos:]
        if any(st[0] == "data" for st in rest) or self.next_recv is not None:
            raise ssl.SSLError(1, "[SSL: APPLICATION_DATA_AFTER_CLOSE_NOTIFY] application data after close notify")
        return self

    def pending(self):
        return 0


class SimSelector(object):
    def __init__(self, sock, run):
        self.sock = sock
        self.run = run
        self.closed = False

    def wait(self, max_bytes, timeout=0.0):
        run = self.run
        run.wait_timeouts.append(timeout)
        if run.pos >= len(run.steps):
            run.log([7])
            run.dead = True
            raise Blocked()
        st = run.steps[run.pos]
        run.pos += 1
        run.clock.ticks += st[1]
        run.log([10])
        kind = st[0]
        if kind == "timeout":
            return False, max_bytes
        if kind == "selexc":
            raise IOError(EXC_TEXTS[run.pos % len(EXC_TEXTS)])
        if kind == "data":
            self.sock.next_recv = ("data", st[2])
        else:
            self.sock.next_recv = (kind,)
        run.max_bytes_seen.append(max_bytes)
        return True, max_bytes

    def close(self):
        if not self.closed:
            self.closed = True
            self.run.log([6])


class HonestSelector(SimSelector):
    """A selector that sleeps exactly as long as it is told to (scenario key `honest`).  The scenario's steps are then ARRIVALS on
    an absolute time line -- ("data", dt, bytes): the bytes arrive dt ticks after the previous arrival; ("timeout", dt): nothing
    arrives for dt ticks; eof / oserr / exc likewise -- and not wake-ups: wait(timeout) returns True as soon as the next arrival is
    there, False after `timeout` seconds otherwise; a negative timeout or None blocks until something arrives (what poll() does),
    i.e. for ever when nothing does.  After the last arrival the line stays silent until sc["horizon"] ticks.  The wake-ups that
    really happened are recorded as an ordinary step script in run.wake_script (for the model and for fam.timeline)."""

    def wait(self, max_bytes, timeout=0.0):
        run = self.run
        run.wait_timeouts.append(timeout)
        steps = run.steps
        now = run.clock.ticks
        last = getattr(run, "last_wake", 0)
        while run.pos < len(steps) and steps[run.pos][0] == "timeout":
            run.arr_base = getattr(run, "arr_base", 0) + steps[run.pos][1]
            run.pos += 1
        t_arr = None
        if run.pos < len(steps):
            t_arr = getattr(run, "arr_base", 0) + steps[run.pos][1]
        tmo = None if (timeout is None or timeout < 0) else int(round(timeout * TICK))
        horizon = run.sc.get("horizon", 0)
        if t_arr is not None and (tmo is None or t_arr <= now + tmo):
            st = steps[run.pos]
            run.pos += 1
            run.arr_base = t_arr
            run.clock.ticks = max(now, t_arr)
            run.wake_script.append((st[0], run.clock.ticks - last) + tuple(st[2:]))
            run.last_wake = run.clock.ticks
            run.log([10])
            kind = st[0]
            if kind == "selexc":
                raise IOError(EXC_TEXTS[run.pos % len(EXC_TEXTS)])
            self.sock.next_recv = ("data", st[2]) if kind == "data" else (kind,)
            run.max_bytes_seen.append(max_bytes)
            return True, max_bytes
        if tmo is None:
            # nothing will ever arrive and no timeout was given: the loop sleeps for ever
            if horizon > now:
                run.clock.ticks = horizon
                run.wake_script.append(("timeout", horizon - last))
                run.last_wake = horizon
                run.log([10])
            run.log([7])
            run.dead = True
            raise Blocked()
        wake = now + tmo
        if t_arr is None and wake > horizon:
            run.log([7])
            run.dead = True
            raise Blocked()
        run.clock.ticks = wake
        run.wake_script.append(("timeout", wake - last))
        run.last_wake = wake
        run.log([10])
        return False, max_bytes


class Run(object):
    """State of one simulated execution."""

    def __init__(self, sc):
        self.sc = sc
        self.trace = []
        self.dead = False
        self.steps = list(sc.get("steps", []))
        self.pos = 0
        self.wfaults = list(sc.get("wfaults", []))
        self.keys = list(sc.get("keys", []))
        self.n_sendall = 0
        self.salt = sc.get("salt", 0)    # varies which errno / error text a fault uses
        self.expect_request = True
        self.request = None
        self.clock = Clock()
        self.wait_timeouts = []
        self.wake_script = []
        self.max_bytes_seen = []
        self.live_views = []
        self.events = []       # the real event objects, kept to check they never change afterwards
        self.escaped = None
        self.stop_ok = True
        self.sock = None
        self.selector = None

    def log(self, item):
        if not self.dead:
            self.trace.append(item)

    def next_key(self):
        if self.keys:
            return self.keys.pop(0)
        return b"\x00\x00\x00\x00"


def canon_event(ev):
    """lomond event object -> the model's (code, fields...) list"""
    n = ev.name
    if n == "connecting":
        return [0]
    if n == "connect_fail":
        return [1]
    if n == "connected":
        return [2]
    if n == "rejected":
        return [3]
    if n == "ready":
        proto = ev.protocol
        p = [] if proto is None else [_txt(proto)]
        return [4, p, 1 if "permessage-deflate" in (ev.extensions or ()) else 0]
    if n == "poll":
        return [5]
    if n == "text":
        return [6, ev.text.encode("utf-8", "surrogatepass")]
    if n == "binary":
        return [7, bytes(ev.data)]
    if n == "ping":
        return [8, bytes(ev.data)]
    if n == "pong":
        return [9, bytes(ev.data)]
    if n in ("closing", "closed"):
        code = [] if ev.code is None else [ev.code]
        reason = ev.reason
        if not isinstance(reason, bytes):
            reason = reason.encode("utf-8", "surrogatepass")
        return [10 if n == "closing" else 11, code, reason]
    if n == "unresponsive":
        return [12]
    if n == "protocol_error":
        return [13, 1 if ev.critical else 0]
    if n == "disconnected":
        return [14, 1 if ev.graceful else 0]
    return [99, n.encode()]


def _txt(s):
    # header values are ascii-with-replacement strings; the model uses 0xff for the replacement character
    return bytes(bytearray((ord(ch) if ord(ch) < 128 else 0xFF) for ch in s))


def accept_for(key16):
    key = base64.b64encode(key16)
    return base64.b64encode(hashlib.sha1(key + b"258EAFA5-E914-47DA-95CA-C5AB0DC85B11").digest())


import weakref
import threading as _threading
_REAL_LOCKS = (type(_threading.Lock()),)        # (a re-entrant lock never blocks its own thread: left alone)
_HOLDERS = weakref.WeakKeyDictionary()
# abandoned iterators that the application still references (mechanism 'hold'): WebSocket object -> generator.  They are
# released by the NEXT connection on that object, right after its connect() call -- the reconnecting idiom `events = ws.connect()`
_HELD = weakref.WeakKeyDictionary()


class SelfDeadlock(BaseException):
    """the only thread of the simulation asked, blocking, for a lock it already holds: in real life it would wait for ever"""


class DetectLock(object):
    """the session's write lock in the single-threaded simulation: like threading.Lock, except that a blocking acquire by the
    thread that already holds it -- a self-deadlock, which would hang the run -- is turned into SelfDeadlock (a BaseException, so
    that it escapes the library and is reported as such)"""

    def __init__(self):
        self.held = False

    def acquire(self, blocking=True, timeout=-1):
        if self.held:
            if not blocking:
                return False
            raise SelfDeadlock()
        self.held = True
        return True

    def release(self):
        if not self.held:
            raise RuntimeError("release unlocked lock")
        self.held = False

    def locked(self):
        return self.held

    def __enter__(self):
        self.acquire()
        return self

    def __exit__(self, *a):
        self.release()


class BusyLock(object):
    """the session's write lock as the event loop sees it while other threads of the application keep sending: a blocking
    acquire gets the lock (the other thread finishes its sendall), a non-blocking probe always finds it taken"""

    def __init__(self):
        self.held = False

    def acquire(self, blocking=True, timeout=-1):
        if not blocking:
            return False
        self.held = True
        return True

    def release(self):
        self.held = False

    def locked(self):
        return True

    def __enter__(self):
        self.acquire()
        return self

    def __exit__(self, *a):
        self.release()


def run_impl(sc, url="ws://example.test/chat", ws_kwargs=None, check_alias=True):
    """Execute scenario on the real code. Returns Run (trace in .trace)."""
    import lomond.session as S
    import lomond.frame as F
    import lomond.websocket as W
    from lomond import errors

    # what happened earlier in this process: other connections (of other WebSocket objects) run to their end first
    for prev in sc.get("previously", ()):
        try:
            run_impl(prev, url=url, ws_kwargs=ws_kwargs, check_alias=check_alias)
        except BaseException:
            pass
    # ... and the earlier life of this very WebSocket object: connections made on it before the one under test
    if sc.get("previously_same") and sc.get("_ws_object") is None:
        ws0 = W.WebSocket(sc.get("url", url), **(sc.get("ws_kwargs") or ws_kwargs or {}))
        for prev in sc["previously_same"]:
            try:
                run_impl(dict(prev, _ws_object=ws0), url=url, ws_kwargs=ws_kwargs, check_alias=check_alias)
            except BaseException:
                pass
        sc = dict(sc, _ws_object=ws0)
    if sc.get("debug_log") and not sc.get("_debug_log_on"):
        # the application has switched on DEBUG logging for the library (records go to a handler that drops them)
        import logging
        lg = logging.getLogger("lomond")
        old_level, old_prop = lg.level, lg.propagate
        h = logging.NullHandler()
        lg.addHandler(h)
        lg.setLevel(logging.DEBUG)
        lg.propagate = False
        try:
            return run_impl(dict(sc, _debug_log_on=True), url=url, ws_kwargs=ws_kwargs, check_alias=check_alias)
        finally:
            lg.setLevel(old_level)
            lg.propagate = old_prop
            lg.removeHandler(h)
    run = Run(sc)
    key16 = sc.get("key16", b"\x01" * 16)

    # one session class per WebSocket object, as an application has: a reconnect passes the SAME class to connect() again
    try:
        holder = _HOLDERS.get(sc["_ws_object"]) if sc.get("_ws_object") is not None else None
    except TypeError:
        holder = None
    if holder is None:
        holder = {}

        class Sess(S.WebsocketSession):
            def __init__(self, *a, **kw):
                S.WebsocketSession.__init__(self, *a, **kw)
                if holder["sc"].get("busy_lock"):
                    self._lock = BusyLock()
                elif isinstance(getattr(self, "_lock", None), _REAL_LOCKS):
                    self._lock = DetectLock()

            def _connect(self):
                sc, run = holder["sc"], holder["run"]
                how = sc.get("connect", "ok")
                if how == "sockfail":
                    self._socket_fail("unable to connect")
                if how == "exc":
                    # also exceptions without any text, and with format characters
                    raise [ValueError("connect exploded"), RuntimeError(), ConnectionResetError(), ValueError("{bad} %s"), OSError()][sc.get("salt", 0) % 5]
                run.sock = (TlsLikeSocket if sc.get("tls_like") else SimSocket)(run)
                return run.sock, None

            def _selector_cls(self, sock):
                run = holder["run"]
                run.selector = (HonestSelector if run.sc.get("honest") else SimSelector)(sock, run)
                return run.selector
        holder["cls"] = Sess
    holder["sc"], holder["run"] = sc, run
    Sess = holder["cls"]
    if sc.get("_ws_object") is not None:
        try:
            _HOLDERS[sc["_ws_object"]] = holder     # kept outside the WebSocket object: the C17 inventory walks that object
        except TypeError:
            pass

    import lomond.compression as C
    old_zlib = C.zlib
    run.zparams = []
    run.zpending_parts = None
    if sc.get("zlog"):
        C.zlib = ZlibLog(run)
    old_time = S.time
    old_mk = F.make_masking_key
    old_urandom = W.os.urandom
    S.time = run.clock
    F.make_masking_key = run.next_key
    W.os = _OsProxy(W.os, key16)
    try:
        cfg = sc["cfg"]
        ws = sc.get("_ws_object") or W.WebSocket(sc.get("url", url), **(sc.get("ws_kwargs") or ws_kwargs or {}))
        for h, v in sc.get("headers", ()):
            ws.add_header(h, v)
        run.ws = ws
        kw = dict(session_class=Sess, poll=cfg["poll"] / TICK, ping_rate=cfg["ping_rate"] / TICK,
                  ping_timeout=None if cfg["ping_timeout"] is None else cfg["ping_timeout"] / TICK,
                  auto_pong=cfg["auto_pong"],
                  close_timeout=None if cfg["close_timeout"] is None else cfg["close_timeout"] / TICK)
        if sc.get("int_seconds"):
            # the same configuration with whole numbers of seconds given as int rather than float
            kw = {k: (int(v) if isinstance(v, float) and v == int(v) else v) for k, v in kw.items()}
        app = sc.get("app", {})
        idx = [0]

        def do_calls(acts):
            """returns abandon mechanism or None"""
            for a in acts:
                kind = a[0]
                if kind == "abandon":
                    return a[1]
                if kind == "sleep":
                    # the application's handler takes (virtual) time
                    run.clock.ticks += a[1]
                    continue
                try:
                    if kind == "text":
                        ws.send_text(a[1].decode("utf-8"), compress=a[2])
                    elif kind == "binary":
                        ws.send_binary(a[1], compress=a[2])
                    elif kind == "ping":
                        ws.send_ping(a[1])
                    elif kind == "pong":
                        ws.send_pong(a[1])
                    elif kind == "close":
                        ws.close(a[1], a[2])
                    run.log([4, 0])
                except Exception as e:
                    code = None
                    for cls in type(e).__mro__:
                        if cls.__name__ in EXN_CODES:
                            code = EXN_CODES[cls.__name__]
                            break
                    if code is None:
                        run.log([4, 98, type(e).__name__.encode()])
                    else:
                        if code >= 3 and not isinstance(e, errors.WebSocketError):
                            code = 97
                        run.log([4, code])
            return None

        def consume(gen_iterable):
            for event in gen_iterable:
                run.events.append(event)
                run.log([0, canon_event(event)])
                i = idx[0]
                idx[0] += 1
                mech = do_calls(app.get(i, ()))
                if mech is not None:
                    return mech
            return None

        mech = None
        with_kept = any(a[0] == "abandon" and a[1] == "with-kept" for acts in app.values() for a in acts)
        try:
            # ('with-kept': connect() is called inside the with-block, below)
            gen = ws.connect(**kw) if not with_kept else None
            run.gen = gen
            try:
                held = _HELD.pop(ws, None)
            except TypeError:
                held = None
            if held is not None:
                # `events = ws.connect()` has just rebound the only reference to the abandoned iterator of the previous connection
                del held
                gc.collect()
            try:
                if with_kept:
                    # `with ws: events = ws.connect(); for event in events: ...` and an exception leaves the block: the iterator
                    # is still referenced (a local variable, a traceback) when __exit__ runs, so it is __exit__ -- not the
                    # finalisation of the generator -- that has to close the socket
                    try:
                        with ws:
                            gen = ws.connect(**kw)
                            run.gen = gen
                            for event in gen:
                                run.events.append(event)
                                run.log([0, canon_event(event)])
                                i = idx[0]
                                idx[0] += 1
                                m = do_calls(app.get(i, ()))
                                if m is not None:
                                    raise Boom()
                    except Boom:
                        mech = "with-kept"
                    run.sock_closed_after_with = (run.sock.closed if run.sock else None) if mech else None
                elif any(a[0] == "abandon" and a[1] == "with" for acts in app.values() for a in acts):
                    try:
                        with ws:
                            for event in gen:
                                run.events.append(event)
                                run.log([0, canon_event(event)])
                                i = idx[0]
                                idx[0] += 1
                                m = do_calls(app.get(i, ()))
                                if m is not None:
                                    del event, gen
                                    run.gen = None
                                    raise Boom()
                    except Boom:
                        mech = "with"
                else:
                    mech = consume(gen)
                    if mech is None:
                        # a finished iterator must stay finished
                        try:
                            next(gen)
                            run.stop_ok = False
                        except StopIteration:
                            run.stop_ok = True
                    if mech == "rebind":
                        # the reconnecting client's `events = ws.connect()`: the same WebSocket gets its next session while
                        # the abandoned iterator of this connection is still referenced; only then is the old one released
                        first = (run.sock, run.selector)
                        gen2 = ws.connect(**kw)
                        gen = None
                        run.gen = None
                        gc.collect()
                        gen2.close()
                        del gen2
                        run.sock, run.selector = first
                    if mech == "hold":
                        # the consumer left the loop but keeps the iterator (a variable that is only rebound by the next connect())
                        try:
                            _HELD[ws] = gen
                        except TypeError:
                            pass
                    if mech == "close":
                        gen.close()
                    elif mech == "raise":
                        try:
                            _raise_in_loop(run)
                        except Boom:
                            pass
                    # 'break': just drop the generator below
            finally:
                gen = None
                run.gen = None
                gc.collect()
        except Blocked:
            pass
        except BaseException as e:  # anything leaving the iterator is an escape
            run.escaped = type(e).__name__
            run.log([11, type(e).__name__.encode()])
        run.mech = mech
        # StopIteration discipline: a finished generator must stay finished
    finally:
        S.time = old_time
        F.make_masking_key = old_mk
        W.os = W.os._real
        C.zlib = old_zlib
    return run


def _raise_in_loop(run):
    raise Boom()


class ZlibLog(object):
    """stands in for the `zlib` module inside lomond.compression: same functions, calls are logged in the trace"""

    def __init__(self, run):
        self._run = run
        self._n_c = 0
        self._n_d = 0

    def __getattr__(self, name):
        return getattr(zlib, name)

    def compressobj(self, *a, **kw):
        real = zlib.compressobj(*a, **kw)
        self._n_c += 1
        epoch = self._n_c - 1
        run = self._run
        run.zparams.append(("c", a))

        class C(object):
            def compress(self, data):
                run.log([9, epoch, bytes(data)])
                return real.compress(data)

            def flush(self, *fa):
                return real.flush(*fa)

            def __getattr__(self, name):      # whatever else a compressobj offers (copy, ...)
                return getattr(real, name)
        return C()

    def decompressobj(self, *a, **kw):
        real = zlib.decompressobj(*a, **kw)
        self._n_d += 1
        epoch = self._n_d - 1
        run = self._run
        run.zparams.append(("d", a))
        parts = []

        class D(object):
            # after the peer ended its DEFLATE stream (BFINAL) the rest of the input is handed on to a fresh inflater:
            # that hand-over is not a message part and not the end of a logical Deflate.decompress(frames) call
            @property
            def unused_data(self):
                u = real.unused_data
                run.zcarry = bytes(u) if u else None
                return u

            @property
            def eof(self):
                return real.eof

            @property
            def unconsumed_tail(self):
                return real.unconsumed_tail

            def __getattr__(self, name):      # whatever else a decompressobj offers (flush, copy, ...)
                return getattr(real, name)

            def decompress(self, data, *da):
                data = bytes(data)
                if getattr(run, "zcarry", None) is not None and data == run.zcarry:
                    run.zcarry = None
                    return real.decompress(data, *da)
                tail = data == b"\x00\x00\xff\xff"
                if not tail:
                    parts.append(data)
                try:
                    out = real.decompress(data, *da)
                except Exception:
                    # the logical Deflate.decompress(frames) call ends here: log the inputs of the whole message
                    run.log([8, epoch, list(run.zpending_parts or parts)])
                    del parts[:]
                    raise
                if tail:
                    run.log([8, epoch, list(parts)])
                    del parts[:]
                return out
        return D()


class _OsProxy(object):
    def __init__(self, real, key16):
        self._real = real
        self._key16 = key16

    def urandom(self, n):
        if n == 16:
            return self._key16
        return self._real.urandom(n)

    def __getattr__(self, name):
        return getattr(self._real, name)


# ---------------------------------------------------------------- model request
STEP_CODES = {"timeout": 0, "data": 1, "eof": 2, "oserr": 3, "exc": 4, "selexc": 5}
ACT_CODES = {"text": 0, "binary": 1, "ping": 2, "pong": 3, "close": 4, "abandon": 5}
WF_CODES = {"ok": 0, "oserr": 1, "exc": 2}
OS_ERRORS = [(104, "Connection reset by peer"), (4, "Interrupted system call"), (32, "Broken pipe"),
             (11, "Resource temporarily unavailable"), (5, "I/O error on {fd} at {0}%s {}"), (110, "Connection timed out"), ()]
EXC_TEXTS = ["sendall exploded", "bad state {'fd': 7} %d {}", "{", "}", "", "two\nlines"]
CN_CODES = {"ok": 0, "sockfail": 1, "exc": 2}


def to_sx(sc):
    cfg = sc["cfg"]
    key16 = sc.get("key16", b"\x01" * 16)
    c = [cfg["poll"], cfg["ping_rate"], [] if cfg["ping_timeout"] is None else [cfg["ping_timeout"]],
         1 if cfg["auto_pong"] else 0, [] if cfg["close_timeout"] is None else [cfg["close_timeout"]],
         key16]      # the connection's 16 random bytes: the model derives the key and the expected accept value itself
    steps = []
    for st in sc.get("steps", []):
        if st[0] == "data":
            steps.append([1, st[1], st[2]])
        else:
            steps.append([STEP_CODES[st[0]], st[1]])
    app = []
    for i in sorted(sc.get("app", {})):
        acts = []
        for a in sc["app"][i]:
            k = a[0]
            if k == "sleep":
                continue
            if k in ("text", "binary"):
                acts.append([ACT_CODES[k], a[1], 1 if a[2] else 0])
            elif k in ("ping", "pong"):
                acts.append([ACT_CODES[k], a[1]])
            elif k == "close":
                acts.append([4, [] if a[1] is None else [a[1]], a[2]])
            else:
                acts.append([5, 1 if a[1] in ("with", "with-kept") else 0])
        app.append([i, acts])
    return [10, c, CN_CODES[sc.get("connect", "ok")], steps, app, list(sc.get("keys", [])),
            [WF_CODES[w] for w in sc.get("wfaults", [])],
            [[] if z is None else ([z[0], 1] if isinstance(z, (tuple, list)) else [z]) for z in sc.get("ztape", [])], list(sc.get("ctape", []))]


# ---------------------------------------------------------------- canonicalisation of traces
def canon_trace(tr):
    """Applied to BOTH the model's and the implementation's trace.
    The reason text of the Close(1002) the library writes right after a non-critical ProtocolError is an
    English error message; it is not compared (only opcode, code and masking are)."""
    from . import ref6455
    out = []
    pending = False
    for i, it in enumerate(tr):
        if it[0] == 0:
            pending = it[1][0] == 13 and it[1][1] == 0
        elif it[0] in (1, 2) and pending and not (i + 1 < len(tr) and tr[i + 1][0] == 4):
            # a write the library made on its own (application writes are followed by a call-result marker)
            fr = ref6455.decode_client_frame(it[1])
            if fr is not None and fr["op"] == 8 and fr["payload"][:2] == b"\x03\xea":
                out.append([it[0], "close-1002", fr["fin"], fr["rsv"], fr["masked"], fr["key"]])
                pending = False
                continue
        out.append(it)
    return out


def default_cfg(**kw):
    c = dict(poll=5 * 1024, ping_rate=30 * 1024, ping_timeout=None, auto_pong=True, close_timeout=30 * 1024)
    c.update(kw)
    return c
