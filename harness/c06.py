"""C06 -- permessage-deflate is lossless both ways for every negotiated configuration."""
from __future__ import print_function
import itertools
import random
import zlib

from . import core, fam, scen, simnet, ref6455, ref7692

E = ref6455.encode_frame


def ext_header(rnd, swb, cwb, snct, cnct, plain=False):
    params = []
    if swb != 15 or rnd.random() < 0.5:
        params.append(("server_max_window_bits", str(swb)))
    if cwb != 15 or rnd.random() < 0.5:
        params.append(("client_max_window_bits", str(cwb)))
    if snct:
        params.append(("server_no_context_takeover", None))
    if cnct:
        params.append(("client_no_context_takeover", None))
    if not plain:
        rnd.shuffle(params)
    out = "permessage-deflate"
    for k, v in params:
        sep = ";" if plain else rnd.choice([";", "; ", " ;", " ; ", ";  "])
        if v is None:
            out += sep + k
        else:
            q = '"' if (not plain and rnd.random() < 0.25) else ""
            eq = "=" if plain else rnd.choice(["=", " =", "= ", " = "])
            out += sep + k + eq + q + v + q
    return out.encode()


def payloads_for_window(rnd, w):
    """messages whose repeats sit at distances just inside / outside a 2^w window (context carried across messages)"""
    block = scen.rand_bytes(rnd, 61) + bytes(bytearray(rnd.getrandbits(8) for _ in range(rnd.choice([40, 200]))))
    win = 1 << w
    gap = rnd.choice([win - 300 - len(block), win - len(block) - 8, win, win + 40, 2 * win + 10, 50])
    gap = max(gap, 0)
    filler = bytes(bytearray(rnd.getrandbits(8) for _ in range(min(gap, 70000))))
    return [block + filler[:gap // 2], filler[gap // 2:] + block, block]


def gen(rnd, swb, cwb, snct, cnct):
    peer = ref7692.Peer(swb, cwb, snct, cnct)
    client_comp = ref7692.client_reference_compressor(cwb, cnct)
    hs = ref6455.handshake_response(scen.ACCEPT, extra=b"Sec-WebSocket-Extensions: " + ext_header(rnd, swb, cwb, snct, cnct) + b"\r\n")
    n = rnd.choice([1, 2, 3, 5, 8, 12])
    server_msgs = []
    pool = payloads_for_window(rnd, swb) if rnd.random() < 0.6 else []
    for i in range(n):
        r = rnd.random()
        if pool and r < 0.6:
            p = pool.pop(0)
            kind = "binary"
        elif r < 0.7:
            kind, p = "text", scen.rand_text(rnd, rnd.choice([0, 1, 5, 50, 400]))
        elif r < 0.8:
            kind, p = "binary", b""
        elif r < 0.9:
            kind, p = "text", (b"abcabcabc " * rnd.choice([1, 30, 400]))
        else:
            kind, p = "binary", scen.rand_bytes(rnd, rnd.choice([1, 100, 3000]))
        server_msgs.append((kind, p, rnd.random() < 0.8))
    stream = b""
    expected = []
    ztape = []
    # some peers flush with a BFINAL block (RFC 7692 7.2.3.4) now and then
    pfinal = rnd.choice([0, 0, 0, 0.3, 0.6])
    for kind, p, comp in server_msgs:
        op = 1 if kind == "text" else 2
        if comp:
            final = rnd.random() < pfinal
            if final and rnd.random() < 0.4:
                final = "mid"      # the stream ends inside the message and a new one carries the rest
            z = peer.compress(p, final=final)
            ztape.append((p, True) if final else p)
            nfr = rnd.choice([1, 1, 2, 3]) if len(z) < 200 else rnd.choice([1, 2, 3])
            if len(z) <= 12 and rnd.random() < 0.3:
                nfr = len(z) + 1   # one byte per frame (+ an empty one)
            pts = [0] + sorted(rnd.randrange(0, len(z) + 1) for _ in range(nfr - 1)) + [len(z)]
            for j in range(nfr):
                stream += E(op if j == 0 else 0, z[pts[j]:pts[j + 1]], fin=1 if j == nfr - 1 else 0, rsv=4 if j == 0 else 0)
                if j < nfr - 1 and rnd.random() < 0.3:
                    stream += E(9, b"mid")
                    expected.append([8, b"mid"])
        else:
            stream += E(op, p)
        expected.append([6 if kind == "text" else 7, p])
        if rnd.random() < 0.2:
            stream += E(10, b"")
            expected.append([9, b""])
    # application sends
    app = {}
    sends = []
    cpool = payloads_for_window(rnd, cwb) if rnd.random() < 0.6 else []
    nsend = rnd.choice([0, 1, 2, 3, 6])
    idxs = sorted(rnd.randrange(2, 4 + len(expected)) for _ in range(nsend))
    ctape = []
    for i in idxs:
        if cpool and rnd.random() < 0.7:
            p = cpool.pop(0)
            kind = "binary"
        else:
            kind, p = rnd.choice([("text", b"hello hello hello hello"), ("binary", scen.rand_bytes(rnd, 300)), ("text", b""), ("binary", b"x" * 2000)])
        comp = rnd.random() < 0.8
        app.setdefault(i, []).append((kind, p, comp))
        sends.append((kind, p, comp))
        if comp:
            ctape.append(client_comp(p))
    chunks = scen.chunkings(rnd, hs + stream, rnd.choice(["one", "random", "random"]))
    sc = dict(cfg=simnet.default_cfg(auto_pong=False), steps=scen.steps_from_chunks(chunks), app=app, keys=scen.keys(rnd, nsend + 2), key16=scen.KEY16,
              ztape=ztape, ctape=ctape, zlog=True, ws_kwargs=dict(compress=True))
    sc["_expect"] = expected
    sc["_sends"] = sends
    sc["_params"] = (swb, cwb, snct, cnct)
    sc["_bfinal"] = sum(1 for z in ztape if isinstance(z, tuple))
    return sc


def oracle(sc, tr, extra):
    out = []
    if extra.get("escaped"):
        return ["exception %s escaped the iterator" % extra["escaped"]]
    swb, cwb, snct, cnct = sc["_params"]
    if any(it[0] == 0 and it[1][0] == 13 for it in tr) and not sc.get("_corrupt"):
        out.append("a ProtocolError was raised for a correct permessage-deflate stream (parameters swb=%d cwb=%d server_nct=%s client_nct=%s)" % sc["_params"])
    got = fam.message_events(tr)
    if not sc.get("_corrupt") and got != sc["_expect"]:
        k = 0
        while k < min(len(got), len(sc["_expect"])) and got[k] == sc["_expect"][k]:
            k += 1
        out.append("message %d sent by the RFC 7692 peer was not delivered with its original content (parameters %r)" % (k, sc["_params"]))
    if sc.get("_corrupt"):
        for g in got:
            if g not in sc["_expect"]:
                out.append("a corrupted compressed message was delivered with wrong content instead of a ProtocolError")
    # client -> server: an independent peer inflates in wire order
    peer = ref7692.Peer(swb, cwb, snct, cnct)
    tl = fam.timeline(sc, tr)
    frames = [x for x in tl if x["kind"] == "write" and x["ok"] and x["frame"] and x["frame"]["op"] in (1, 2) and x["by_app"]]
    accepted = []
    for x in tl:
        if x["kind"] == "call" and x["action"] and x["action"][0] in ("text", "binary") and x["result"] == 0:
            accepted.append(x["action"])
    if len(frames) != len(accepted):
        out.append("%d data frames on the wire for %d accepted sends" % (len(frames), len(accepted)))
    else:
        for fr, act in zip(frames, accepted):
            f = fr["frame"]
            if f["rsv"] & 3:
                out.append("RSV2/RSV3 set on a client frame")
            if f["rsv"] & 4:
                if not act[2]:
                    out.append("a send with compress=False went out with RSV1 set")
                try:
                    data = peer.decompress(f["payload"])
                except zlib.error as e:
                    out.append("the RFC 7692 peer (client_max_window_bits=%d, client_no_context_takeover=%s) cannot inflate a message the client sent compressed: %s" % (cwb, cnct, e))
                    break
                if data != act[1]:
                    out.append("the peer inflated a compressed message to different content (%d bytes instead of %d)" % (len(data), len(act[1])))
            else:
                if act[2]:
                    out.append("compression is negotiated and compress=True but the frame went out uncompressed")
                if f["payload"] != act[1]:
                    out.append("uncompressed frame payload differs from the message")
    for x in tl:
        if x["kind"] == "write" and x["frame"] and x["frame"]["op"] >= 8 and x["frame"]["rsv"]:
            out.append("reserved bits set on a control frame written by the client")
    return out[:3]


def no_negotiation_family(rnd, n):
    scs = []
    for _ in range(n):
        sends = [(rnd.choice(["text", "binary"]), scen.rand_text(rnd, rnd.choice([0, 10, 300])), rnd.random() < 0.7) for _ in range(3)]
        sc = dict(cfg=simnet.default_cfg(), steps=[("data", 0, scen.HANDSHAKE + E(1, b"x")), ("eof", 0)], app={2: sends}, keys=scen.keys(rnd, 4), key16=scen.KEY16,
                  zlog=True, ws_kwargs=dict(compress=rnd.random() < 0.5))
        sc["_sends"] = sends
        scs.append(sc)
    return scs


def no_neg_oracle(sc, tr, extra):
    tl = fam.timeline(sc, tr)
    for x in tl:
        if x["kind"] == "write" and x["frame"] and x["frame"]["rsv"]:
            return ["RSV bits set on a client frame although permessage-deflate was not negotiated"]
    return []


def corrupt_family(rnd, n):
    scs = []
    for _ in range(n):
        swb = rnd.choice([8, 10, 15])
        peer = ref7692.Peer(swb, 15, False, False)
        p = scen.rand_text(rnd, 200) + b"abc" * 50
        z = bytearray(peer.compress(p))
        how = rnd.choice(["flip", "truncate", "garbage"])
        if how == "flip":
            z[rnd.randrange(len(z))] ^= 1 << rnd.randrange(8)
        elif how == "truncate":
            z = z[:rnd.randrange(1, len(z))]
        else:
            z = bytearray(scen.rand_bytes(rnd, 40))
        hs = ref6455.handshake_response(scen.ACCEPT, extra=b"Sec-WebSocket-Extensions: permessage-deflate; server_max_window_bits=%d\r\n" % swb)
        ref, ended = ref7692.inflate_message(bytes(z), swb)
        zt = None if ref is None else ((ref, True) if ended else ref)
        sc = dict(cfg=simnet.default_cfg(), steps=[("data", 0, hs + E(1, bytes(z), rsv=4) + E(2, b"after")), ("eof", 0)], keys=scen.keys(rnd, 3), key16=scen.KEY16,
                  ztape=[zt], zlog=True, ws_kwargs=dict(compress=True))
        sc["_params"] = (swb, 15, False, False)
        sc["_corrupt"] = True
        sc["_sends"] = []
        # what may legitimately be delivered: the original text (if the corruption was harmless) or whatever plain zlib yields, when that is valid UTF-8
        exp = [[6, p], [7, b"after"]]
        if ref is not None:
            exp.append([6, ref])
        sc["_expect"] = exp
        scs.append(sc)
    return scs


def params_family(rep, rnd):
    """parameter spellings in the response header -> negotiated (swb, cwb, flags), observed on the zlib objects lomond creates"""
    n = 0
    bad_values = ["7", "16", "0", "abc", "", "1 5", "-8", "99999"]
    for swb, cwb in itertools.product(range(8, 16), repeat=2):
        for snct, cnct in itertools.product((False, True), repeat=2):
            hdr = ext_header(rnd, swb, cwb, snct, cnct)
            hs = ref6455.handshake_response(scen.ACCEPT, extra=b"Sec-WebSocket-Extensions: " + hdr + b"\r\n")
            sc = dict(cfg=simnet.default_cfg(), steps=[("data", 0, hs), ("eof", 0)], key16=scen.KEY16, zlog=True, ws_kwargs=dict(compress=True))
            r = simnet.run_impl(sc)
            n += 1
            rep.add_case(("params", hdr))
            ready = any(it[0] == 0 and it[1][0] == 4 and it[1][2] == 1 for it in r.trace)
            dpar = [a for k, a in r.zparams if k == "d"]
            cpar = [a for k, a in r.zparams if k == "c"]
            ok = ready and dpar and dpar[0] == (-swb,) and cpar and cpar[0][-1] == -max(9, cwb)
            if not ok:
                rep.violation("response header %r should negotiate server_max_window_bits=%d client_max_window_bits=%d; ready=%s inflater=%r deflater=%r" % (hdr, swb, cwb, ready, dpar[:1], cpar[:1]),
                              scenario=dict(kind="params", header=hdr.decode()), family="C06:parameter-spellings")
    for key in ("server_max_window_bits", "client_max_window_bits"):
        for v in bad_values:
            hdr = ("permessage-deflate; %s=%s" % (key, v)).encode()
            hs = ref6455.handshake_response(scen.ACCEPT, extra=b"Sec-WebSocket-Extensions: " + hdr + b"\r\n")
            sc = dict(cfg=simnet.default_cfg(), steps=[("data", 0, hs + E(1, b"x")), ("eof", 0)], key16=scen.KEY16, zlog=True, ws_kwargs=dict(compress=True))
            r = simnet.run_impl(sc)
            n += 1
            rep.add_case(("params-bad", hdr))
            codes = [it[1][0] for it in r.trace if it[0] == 0]
            if 4 in codes or 3 not in codes or r.escaped:
                rep.violation("response header %r carries an invalid window size but the upgrade was not rejected (events %s, escaped %s)" % (hdr, codes, r.escaped),
                              scenario=dict(kind="params-bad", header=hdr.decode()), family="C06:parameter-spellings")
    rep.families.append(dict(name="C06:parameter-spellings", cases=n, rule="all 8x8x2x2 parameter combinations spelled with random parameter order, optional blanks, quoted values, omitted defaults; out-of-range / non-integer window sizes must be rejected; the negotiated sizes are read off the zlib objects the client creates", exhaustive=True))
    rep.exhaustive["8x8x2x2 parameter combinations"] = True


def large_family(rnd, tier):
    """messages that inflate to several MiB (a few KiB on the wire), whole and in fragments, followed by a small message through
    the same context: delivered complete, and the context stays in step (no model: only the oracle judges these)"""
    out = []
    sizes = [5 * 1024 * 1024 + 17] if tier == "quick" else [4 * 1024 * 1024 - 1, 4 * 1024 * 1024, 4 * 1024 * 1024 + 1, 9 * 1024 * 1024 + 3]
    for size in sizes:
        for frag in (False, True):
            swb = rnd.choice([9, 15])
            peer = ref7692.Peer(swb, 15, False, False)
            hs = ref6455.handshake_response(scen.ACCEPT, extra=b"Sec-WebSocket-Extensions: permessage-deflate; server_max_window_bits=%d\r\n" % swb)
            unit = scen.rand_bytes(rnd, 97)
            big = (unit * (size // len(unit) + 1))[:size]
            z = peer.compress(big)
            after = b"after the large one " * 3
            za = peer.compress(after)
            if frag:
                k = len(z) // 3
                stream = E(2, z[:k], rsv=4, fin=0) + E(0, z[k:2 * k], fin=0) + E(0, z[2 * k:])
            else:
                stream = E(2, z, rsv=4)
            stream += E(1, za, rsv=4)
            sc = dict(cfg=simnet.default_cfg(auto_pong=False), steps=scen.steps_from_chunks([hs + stream]) + [("eof", 0)], app={}, keys=[], key16=scen.KEY16,
                      zlog=False, ws_kwargs=dict(compress=True))
            sc["_expect"] = [[7, big], [6, after]]
            sc["_sends"] = []
            sc["_params"] = (swb, 15, False, False)
            sc["_bfinal"] = 0
            out.append(sc)
    return out


def _regen():
    import importlib.util
    import os
    spec = importlib.util.spec_from_file_location("verif_regen", os.path.join(os.path.dirname(os.path.dirname(os.path.abspath(__file__))), "tools", "regen.py"))
    m = importlib.util.module_from_spec(spec)
    spec.loader.exec_module(m)
    return m


def negotiation_table(rep):
    """the strings of the regenerated negotiation table (coq/gen/GenNegotiation.v, the subject of NegotiationTie.v), each read by
    the live code and judged against what it was rendered FROM: when the tie proof breaks, this names the failing value"""
    R = _regen()
    n_domain, strings = R.negotiation_strings()
    intents = R.negotiation_strings.intents
    bad = 0
    for i, s in enumerate(strings[:n_domain]):
        got = R.read_negotiation(s)
        rep.add_case(("negotiation", s))
        if got != intents[i]:
            bad += 1
            if bad <= 3:
                rep.violation("the extension value %r negotiates %r, it states (server_max_window_bits, client_max_window_bits, server_no_context_takeover, client_no_context_takeover) = %r" % (s, got, intents[i]),
                              scenario=dict(kind="negotiation", value=s, expected=list(intents[i])), family="C06:negotiation-table")
    for s, exp in zip(strings[n_domain:], R.negotiation_strings.extra_expected):
        rep.add_case(("negotiation", s))
        got = R.read_negotiation(s)
        if got != exp:
            rep.violation("the extension value %r was read as %r; by RFC 7692 (window sizes are 1*DIGIT in 8..15, the last of repeated parameters wins, other extension tokens are ignored) it is %r" % (s, got, exp),
                          scenario=dict(kind="negotiation", value=s, expected=exp if not isinstance(exp, tuple) else list(exp)), family="C06:negotiation-table")
    rep.families.append(dict(name="C06:negotiation-table", cases=len(strings), exhaustive=True,
                             rule="every permessage-deflate configuration (each window size absent or 8..15, each flag absent or present: 324), the parameters in every order, plus quoted and blank-padded spellings (%d values), and window sizes that must be refused: WebSocket.process_extensions of the live code against the configuration each value was rendered from; the same values are the rows of the regenerated table behind C06_running_code_reads_every_configuration" % n_domain))
    rep.exhaustive["324 configurations x parameter orders"] = True


def run(rep, info, model, tier, seed):
    rnd = random.Random(seed)
    proof_ok = rep.proof_obligations(info, "props/C06.v")
    rep.assumptions += ["zlib (DEFLATE) is outside the model: its results enter the model as oracle tapes computed by the harness' own RFC 7692 peer; the theorems carry the bookkeeping (which context sees which bytes in which order, resets, RSV1), the correspondence runs check real zlib"]
    per = 3 if tier == "quick" else 30
    scs = []
    for swb, cwb in itertools.product(range(8, 16), repeat=2):
        for snct, cnct in itertools.product((False, True), repeat=2):
            for _ in range(per):
                scs.append(gen(rnd, swb, cwb, snct, cnct))
    for sc in scs:
        rep.count("server_msgs", min(len(sc["_expect"]), 12))
        rep.count("client_sends", len(sc["_sends"]))
        rep.count("bfinal_flushed_messages", min(sc["_bfinal"], 3))
    fam.run_family(rep, model, "C06:histories-x-256-configurations", scs, oracle, project=lambda t: [it for it in t if it[0] != 10],
                   rule="all 256 (server_max_window_bits, client_max_window_bits, server_no_context_takeover, client_no_context_takeover) x %d message histories: 1-12 server messages (compressed by an independent RFC 7692 peer, fragmented anywhere incl. one byte per frame, flushed with an empty stored block or -- some peers, now and then -- with a BFINAL block (RFC 7692 7.2.3.4), pings between fragments, mixed with uncompressed messages and pongs; payloads with repeats just inside/outside the negotiated window across message boundaries, empty, incompressible) and 0-6 client sends with per-message compress flag; the peer inflates client frames in wire order; zlib calls (context epoch, inputs) are compared with the model" % per)
    nn = no_negotiation_family(rnd, 100 if tier == "quick" else 1000)
    fam.run_family(rep, model, "C06:no-negotiation", nn, no_neg_oracle, project=fam.no_waits, rule="no extension in the reply (with and without the offer): RSV1 must never be set")
    cf = corrupt_family(rnd, 150 if tier == "quick" else 3000)
    fam.run_family(rep, model, "C06:corrupted", cf, oracle, project=lambda t: [it for it in t if it[0] != 10],
                   rule="bit flips, truncation and garbage in a compressed message: either the exact content or a ProtocolError")
    fam.run_family(rep, None, "C06:large-messages", large_family(rnd, tier), oracle, project=lambda t: [],
                   rule="compressed messages that inflate to 5 MiB (thorough: around 4 MiB and 9 MiB), unfragmented and in three fragments, then a small compressed message through the same context: both delivered with their original content (judged by the oracle; the model is not asked)")
    params_family(rep, rnd)
    negotiation_table(rep)
    if not proof_ok and not rep.violations:
        rep.broken("proof obligation props/C06.v no longer checks: %s" % (rep.coq_failure,))


def replay(body):
    if (body["scenario"] or {}).get("kind") == "negotiation":
        sc = body["scenario"]
        got = _regen().read_negotiation(sc["value"])
        exp = tuple(sc["expected"]) if isinstance(sc["expected"], list) else sc["expected"]
        print("value %r is read as %r, expected %r" % (sc["value"], got, exp))
        print("REPLAY:", "property holds on this input" if got == exp else "VIOLATION reproduced: the negotiated configuration differs from the one stated")
        return 0 if got == exp else 1
    if (body["scenario"] or {}).get("kind"):
        print("in-process family: re-run check.py C06 quick")
        return 2
    return fam.replay_generic(body, {"C06:histories-x-256-configurations": oracle, "C06:no-negotiation": no_neg_oracle, "C06:corrupted": oracle, "C06:large-messages": oracle})
