"""C11 -- concurrent senders never corrupt the wire."""
from __future__ import print_function
from . import core, fam, conc, ref6455, ref7692


def program_sets(tier):
    def T(i, comp=True, body=None):
        return ("send", "text", body or (b"message-%d " % i) * 3, comp, i)

    def B(i, comp=True):
        return ("send", "binary", bytes([i]) * 40, comp, i)
    P = ("send", "ping", b"pp", False, 90)
    PO = ("send", "pong", b"po", False, 91)
    shared = b"the quick brown fox jumps over the lazy dog "
    sets = [
        ([[T(1)], [T(2)]], None), ([[T(1), T(2)], [B(3)]], None), ([[T(1)], [P]], None), ([[T(1)], [PO], ], None),
        ([[T(1, body=shared + b"one")], [T(2, body=shared + b"two")]], "takeover"),
        ([[T(1, body=shared + b"one"), T(3, body=shared + b"three")], [T(2, body=shared + b"two")]], "takeover"),
        ([[T(1, body=shared + b"one")], [T(2, body=shared + b"two")]], "no_takeover"),
        ([[T(1, body=shared + b"one")], [T(2, comp=False, body=shared)]], "takeover"),
        ([[T(1, body=shared + b"one")], [PO]], "takeover"),
        # one thread in send_text, the other in send_binary, with content in common: the two methods share one compression
        # context, so their order of compression has to be their order on the wire too
        ([[T(1, body=shared + b"one")], [("send", "binary", shared + b"two", True, 2)]], "takeover"),
        ([[("send", "binary", shared + b"one", True, 1), T(3, body=shared + b"three")], [("send", "binary", shared + b"two", True, 2)]], "takeover"),
        # payloads beyond the 16-bit length form (a send is one frame, however large)
        ([[T(1, comp=False, body=bytes(bytearray(32 + (i * 7 + 3) % 95 for i in range(70000))))], [T(2, comp=False, body=b"small")]], None),
        ([[("send", "binary", bytes(bytearray((i * 13 + 1) % 253 for i in range(66000))), False, 1)], [T(2)], ], None),
        ([[T(1)], [T(2)], [PO]], None),
        ([[T(1, body=shared + b"one")], [T(2, body=shared + b"two")], [P]], "takeover"),
    ]
    if tier == "thorough":
        sets += [([[T(1), T(2), T(3)], [B(4), B(5)]], None),
                 ([[T(1, body=shared + b"1"), T(2, body=shared + b"2")], [T(3, body=shared + b"3"), T(4, body=shared + b"4")]], "takeover"),
                 ([[T(1, body=shared + b"1")], [T(2, body=shared + b"2")], [T(3, body=shared + b"3")]], "takeover")]
    return sets


def run(rep, info, model, tier, seed):
    proof_ok = rep.proof_obligations(info, "props/C11.v")
    rep.assumptions += ["schedules are explored at the granularity of shared-state actions; that local computation between them commutes with other threads' steps is an argument, not mechanised; it is probed by the line-level family (every executed source line a scheduling point, one preemption)",
                        "zlib is an oracle: that a raw-deflate stream inflates iff its sync-flushed messages arrive in compression order is checked with real zlib by the harness' RFC 7692 peer"]
    sets = program_sets(tier)
    two = [s for s in sets if len(s[0]) == 2]
    three = [s for s in sets if len(s[0]) == 3]
    conc.run_programs(rep, model, "C11", "C11:2-threads", two, bound=(3 if tier == "quick" else 99), limit=(3000 if tier == "quick" else 200000), which="c11")
    conc.run_programs(rep, model, "C11", "C11:3-threads", three, bound=(2 if tier == "quick" else 3), limit=(2500 if tier == "quick" else 60000), which="c11")
    # source-line granularity: the action-level reduction assumes that what happens between two shared actions is local
    line_sets = [s for s in two if s[1] in (None, "takeover", "no_takeover")][:6] if tier == "quick" else two
    # one buffer object handed to two threads at once (the API takes bytes; whatever it accepts must go out as it was)
    ba = bytearray(b"heartbeat " * 4)
    shared_buf = [([[("send", "binary", ba, False, 1, bytes(ba))], [("send", "binary", ba, False, 2, bytes(ba))]], None),
                  ([[("send", "binary", ba, False, 1, bytes(ba)), ("send", "ping", b"pp", False, 90)], [("send", "binary", ba, False, 2, bytes(ba))]], None)]
    # the event-loop thread receives compressed messages (inflater, with and without a reset per message) while another thread
    # is inside a compressed send: the two directions have nothing to do with each other
    recv_sets = []
    for mode in ("server_no_takeover", "takeover", "no_takeover"):
        sp = ref7692.Peer(15, 15, mode == "server_no_takeover", False)     # the server's compressor for this connection
        m1 = ref6455.encode_frame(1, sp.compress(b"from the server, " * 3), rsv=4)
        m2 = ref6455.encode_frame(2, sp.compress(b"from the server, again " * 2), rsv=4)
        text = b"client text client text client text"
        recv_sets.append(([[("send", "text", text, True, 1)], [("server_msg", "data", m1), ("server_msg", "data", m2)]], mode))
        recv_sets.append(([[("send", "binary", b"\x00\x01" * 30, True, 1), ("send", "text", text, True, 2)], [("server_msg", "data", m1)]], mode))
    conc.run_programs_lines(rep, "C11", "C11:line-level", line_sets + shared_buf + recv_sets, limit=(150 if tier == "quick" else 1500), which="c11")
    conc.run_programs_fresh(rep, "C11:first-execution", line_sets[:2] if tier == "quick" else line_sets, per=(24 if tier == "quick" else 80), which="c11")
    if not proof_ok and not rep.violations:
        rep.broken("proof obligation props/C11.v no longer checks: %s" % (rep.coq_failure,))


def replay(body):
    from . import sched
    sc = body["scenario"]
    shared = {}

    def arg(c, i, x):
        if isinstance(x, dict) and "shared_bytearray" in x:
            return shared.setdefault(x["shared_bytearray"], bytearray(bytes.fromhex(x["shared_bytearray"])))
        if isinstance(x, str) and i in (2, 5) and c[0] in ("send", "close", "server_close", "server_msg"):
            return bytes.fromhex(x)
        return x
    progs = [[tuple(arg(c, i, x) for i, x in enumerate(c)) for c in p] for p in sc["programs"]]
    if sc.get("fresh"):
        out = conc._one_fresh((progs, sc["schedule"], sc["compression"]))
    else:
        out = sched.run_schedule(progs, sc["schedule"], sc["compression"], lines=bool(sc.get("lines")))
    c11, c12 = conc.judge(progs, out, sc["compression"])
    print("wire:", [(t, b.hex()[:40]) for t, b in out["wire"]], "results:", out["results"])
    print("REPLAY:", ("VIOLATION reproduced: %s" % c11[0]) if c11 else "property holds on this schedule")
    return 1 if c11 else 0
