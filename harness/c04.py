"""C04 -- protocol violations are detected, reported once, and fail the connection."""
from __future__ import print_function
import random
import struct

from . import core, fam, scen, simnet, ref6455

E = ref6455.encode_frame
RESERVED_CODES = [0, 1, 999, 1004, 1005, 1006, 1015, 1016, 1100, 2000, 2999]
BAD_UTF8 = [b"\xff", b"\xc0\xaf", b"\xed\xa0\x80", b"\xf4\x90\x80\x80", b"\xe2\x82", b"ab\x80", b"\xf8\x88\x80\x80\x80", b"caf\xe9"]


def gen_violation(rnd, in_msg):
    """returns (class label, bytes of the violating frame(s), needs_idle/needs_inmsg satisfied)"""
    k = rnd.choice(["reserved_opcode", "rsv", "frag_control", "big_control", "masked", "cont_in_idle", "data_in_msg",
                    "len63", "close_len1", "close_code", "bad_utf8_text", "bad_utf8_close", "bad_utf8_fragmented"])
    if k == "reserved_opcode":
        return k, E(rnd.choice([3, 4, 5, 6, 7, 11, 12, 13, 14, 15]), scen.rand_bytes(rnd, rnd.choice([0, 1, 5])), fin=rnd.choice([0, 1]))
    if k == "rsv":
        op = rnd.choice([2, 9, 10, 8]) if not in_msg else rnd.choice([0, 9, 10])
        return k, E(op, b"", rsv=rnd.randrange(1, 8))
    if k == "frag_control":
        return k, E(rnd.choice([8, 9, 10]), b"", fin=0)
    if k == "big_control":
        n = rnd.choice([126, 127, 200, 65536])
        return k, E(rnd.choice([9, 10, 8]), (b"\x03\xe8" + b"r" * (n - 2)), lenform=rnd.choice([None, 64]))
    if k == "masked":
        op = 0 if in_msg else rnd.choice([1, 2, 9])
        return k, E(op, b"abc"[:rnd.randrange(0, 4)], mask_key=b"\x01\x02\x03\x04")
    if k == "cont_in_idle":
        if in_msg:
            return gen_violation(rnd, in_msg)
        return k, E(0, b"x", fin=rnd.choice([0, 1]))
    if k == "data_in_msg":
        if not in_msg:
            # the open message's first fragment may be empty (it is still an open message)
            return k, E(rnd.choice([1, 2]), rnd.choice([b"a", b"a", b""]), fin=0) + E(rnd.choice([1, 2]), b"b", fin=rnd.choice([0, 1]))
        return k, E(rnd.choice([1, 2]), b"b", fin=rnd.choice([0, 1]))
    if k == "len63":
        op = 0 if in_msg else 2
        return k, bytes([0x80 | op, 127]) + struct.pack("!Q", rnd.choice([1 << 63, (1 << 64) - 1, (1 << 63) + 5]))
    if k == "close_len1":
        return k, E(8, b"\x03")
    if k == "close_code":
        return k, E(8, ref6455.close_payload(rnd.choice(RESERVED_CODES), rnd.choice([b"", b"xxx", b'{"error": "going away"}', b"{0} {} %s %d }{", b"{"])))
    if k == "bad_utf8_text":
        if in_msg:
            return gen_violation(rnd, in_msg)   # the open message is binary: a continuation with any bytes is legal
        # the text before the offending byte may contain anything, also characters that mean something to str.format / %
        pre = rnd.choice([b"ok ", b"ok ", b'{"key": {"n": 1}, "s": "caf', b"100%s {0} {} }{ ", b""])
        return k, E(1, pre + rnd.choice(BAD_UTF8) + (b" tail" if rnd.random() < 0.5 else b""))
    if k == "bad_utf8_close":
        return k, E(8, ref6455.close_payload(1000, rnd.choice([b"", b"{bye} %d "]) + rnd.choice(BAD_UTF8)))
    if in_msg:
        return gen_violation(rnd, in_msg)
    if rnd.random() < 0.4:
        # the offending bytes stand in a MIDDLE fragment (after a control frame between the fragments) and the message is never
        # finished: only control frames follow, then EOF.  The error is due when that fragment arrives.
        mid = rnd.choice([b"\xff", b"ok\xc0\xaf", b"\xed\xa0\x80", b"caf\xe9 "])
        ctl = rnd.choice([(9, "ping", b"p"), (10, "pong", b"q")])
        return (k, E(1, b"start ", fin=0) + E(ctl[0], ctl[2]) + E(0, mid, fin=0), [(ctl[1], ctl[2])],
                rnd.choice([b"", E(9, b"after"), E(9, b"after") + E(10, b"")]))
    bad = rnd.choice([b"\xe2\x82", b"\xf0\x9f\x98"])
    if rnd.random() < 0.5:
        # the Ping between the fragments is a complete message that precedes the violating continuation frame
        return k, E(1, b"x" + bad, fin=0) + E(9, b"p") + E(0, b"\x41z", fin=1), [("ping", b"p")]
    return k, E(1, b"x" + bad, fin=0) + E(0, b"\x41z", fin=1)


def make_scenario(rnd):
    nmsg = rnd.choice([0, 1, 2, 4])
    msgs = [scen.gen_message(rnd, big_ok=False) for _ in range(nmsg)]
    frames, completed = scen.wire_plan(rnd, msgs)
    in_msg = False
    if rnd.random() < 0.3:
        # leave a fragmented binary message open before the violation
        frames.append((2, 0, rnd.choice([b"open", b"open", b""]), None))
        in_msg = True
    # a text message open before the violation only when the violation is not itself about utf8 (it would be ambiguous)
    gv = gen_violation(rnd, in_msg)
    label, bad = gv[0], gv[1]
    completed = completed + (list(gv[2]) if len(gv) > 2 else [])
    rest_msgs = [scen.gen_message(rnd, big_ok=False) for _ in range(rnd.choice([0, 1, 2]))]
    rest = scen.render(scen.wire_plan(rnd, rest_msgs)[0])
    if len(gv) > 3:
        rest = gv[3]
    stream = scen.HANDSHAKE + scen.render(frames) + bad + rest
    chunks = scen.chunkings(rnd, stream, None if len(stream) < 3000 else "random")
    app = {}
    if rnd.random() < 0.3:
        app = {rnd.randrange(2, 6): [rnd.choice([("text", b"hi", True), ("ping", b"x"), ("binary", b"\x00", True)])]}
    elif rnd.random() < 0.15:
        app = {rnd.randrange(1, 4): [("close", 1000, b"done")]}
    steps = scen.steps_from_chunks(chunks)
    cfg = simnet.default_cfg()
    if rnd.random() < 0.25:
        # a quiet connection on which the violating bytes arrive just when an automatic Ping has become due: after the error
        # is reported the only frame the library may still write is its Close
        cfg = simnet.default_cfg(ping_rate=rnd.choice([4, 6, 30]) * 1024, close_timeout=None)    # (no close timeout: it may not fire in the gap)
        k = max(1, len(steps) - 1 - rnd.randrange(0, 3))
        gap = cfg["ping_rate"] + rnd.choice([0, 1, 512, 1024])
        steps = steps[:k] + [(steps[k][0], gap) + tuple(steps[k][2:])] + steps[k + 1:] if steps[k][0] == "data" else steps
    sc = dict(cfg=cfg, steps=steps, app=app, keys=scen.keys(rnd, 12), key16=scen.KEY16)
    sc["_expect"] = scen.expected_events(completed)
    sc["_class"] = label
    sc["_inmsg"] = in_msg
    return sc


def oracle(sc, tr, extra):
    out = []
    if extra.get("escaped"):
        return ["exception %s escaped the iterator" % extra["escaped"]]
    evs = [it[1] for it in tr if it[0] == 0]
    pe = [i for i, it in enumerate(tr) if it[0] == 0 and it[1][0] == 13]
    if len(pe) != 1:
        out.append("%d ProtocolError events for a stream with a %s violation (expected exactly one)" % (len(pe), sc["_class"]))
        return out
    before = fam.message_events(tr[:pe[0]])
    after = fam.message_events(tr[pe[0]:])
    if before != sc["_expect"]:
        out.append("messages delivered before the violation differ from the messages completed before it (got %d, expected %d)" % (len(before), len(sc["_expect"])))
    if after:
        out.append("a message event was delivered after the ProtocolError: %r" % (after[0][:2],))
    if not evs or evs[-1][0] != 14 or evs[-1][1] != 0:
        out.append("the connection did not end with a non-graceful Disconnected (last event %r)" % (evs[-1] if evs else None))
    # writes made by the library itself after the error (a write directly followed by a call-result marker was
    # made by an application call during an event and is the application's own doing)
    tail = tr[pe[0]:]
    w_after = [it for i, it in enumerate(tail) if it[0] in (1, 2) and not (i + 1 < len(tail) and tail[i + 1][0] == 4)]
    closes = 0
    for it in w_after:
        if it[1] == "close-1002":
            closes += 1
            continue
        fr = ref6455.decode_client_frame(it[1])
        if fr is not None and fr["op"] == 8:
            closes += 1
        else:
            out.append("a frame other than Close was written after the ProtocolError")
    if closes > 1:
        out.append("%d Close frames written after the ProtocolError" % closes)
    return out


# ---------------------------------------------------------------- exhaustive header sweep
def spec_header_violation(ctx, compression, b1, b2):
    """RFC 6455 classification of a 2-byte frame header in a context, written from the RFC text.
    Returns True when the frame (completed with a zero-filled payload of the announced length) violates the protocol."""
    fin = b1 >> 7
    rsv1, rsv2, rsv3 = (b1 >> 6) & 1, (b1 >> 5) & 1, (b1 >> 4) & 1
    op = b1 & 15
    mask = b2 >> 7
    l7 = b2 & 127
    length = l7 if l7 < 126 else (126 if l7 == 126 else 65536)
    if op in (3, 4, 5, 6, 7, 11, 12, 13, 14, 15):
        return True
    if rsv2 or rsv3 or (rsv1 and not compression):
        return True
    if op >= 8 and (not fin or length > 125):
        return True
    if mask:
        return True
    if op == 0 and ctx == "idle":
        return True
    if op in (1, 2) and ctx != "idle":
        return True
    if op == 8 and length >= 1:
        return True   # 1 byte: malformed; >= 2 zero bytes: close code 0 is reserved
    return False


def sweep_scenarios(tier, rnd):
    scs = []
    ext = b"Sec-WebSocket-Extensions: permessage-deflate\r\n"
    # compression: False | True (negotiated) | "offered" (the client asked for permessage-deflate with compress=True, the server's
    # reply does not mention it: nothing was negotiated, RSV1 is a violation like on any other connection)
    for compression in (False, True, "offered"):
        offered = compression == "offered"
        if offered:
            compression = False
        hs = ref6455.handshake_response(scen.ACCEPT, extra=ext if compression else b"")
        for ctx, prefix in (("idle", b""), ("intext", E(1, b"a", fin=0)), ("inbinary", E(2, b"a", fin=0))):
            for b1 in range(256):
                for b2 in range(256):
                    l7 = b2 & 127
                    rsv1 = (b1 >> 6) & 1
                    if compression and rsv1 and l7 != 0:
                        continue    # compressed non-empty zero-filled payloads are zlib's business (C06)
                    if offered and not rsv1 and (b1 * 256 + b2) % 16 != 5:
                        continue    # (the headers without RSV1 behave as on the plain connection: a sixteenth of them)
                    if tier == "quick":
                        # stratified: every b1 with the boundary lengths; plus a random eighth of everything else
                        if l7 not in (0, 1, 2, 125, 126, 127) and rnd.random() > 0.04:
                            continue
                        if l7 == 127 and rnd.random() > 0.25:
                            continue
                    length = l7 if l7 < 126 else (126 if l7 == 126 else 65536)
                    tail = b""
                    if l7 == 126:
                        tail = struct.pack("!H", 126)
                    elif l7 == 127:
                        tail = struct.pack("!Q", 65536)
                    if b2 & 0x80:
                        tail += b"\x00\x00\x00\x00"
                    stream = hs + prefix + bytes([b1, b2]) + tail + b"\x00" * length
                    sc = dict(cfg=simnet.default_cfg(), steps=[("data", 0, stream[:65536])] + ([("data", 0, stream[65536:])] if len(stream) > 65536 else []) + [("eof", 0)],
                              keys=[b"\x00\x00\x00\x00"] * 4, key16=scen.KEY16,
                              ztape=[b""] * 3 if compression else [])
                    if offered:
                        sc["ws_kwargs"] = dict(compress=True)
                    sc["_hdr"] = (ctx, compression, b1, b2)
                    sc["_offered"] = offered
                    sc["_viol"] = spec_header_violation(ctx, compression, b1, b2)
                    scs.append(sc)
    # process history: the connection with permessage-deflate negotiated runs immediately before the one without it that
    # receives the same header (the worker processes run consecutive scenarios in one Python process), so that anything
    # a parser leaves behind for later connections -- caches, class attributes -- meets the case where it matters
    scs.sort(key=lambda sc: (sc["_hdr"][0], sc["_hdr"][2], sc["_hdr"][3], not sc["_hdr"][1], sc["_offered"]))
    prev = None
    for sc in scs:
        if prev is not None and prev["_hdr"][1] and not sc["_hdr"][1] and prev["_hdr"][0] == sc["_hdr"][0] and prev["_hdr"][2:] == sc["_hdr"][2:]:
            sc["prelude"] = dict(steps=prev["steps"], ztape=prev["ztape"])
        prev = sc
    return scs


def sweep_oracle(sc, tr, extra):
    if extra.get("escaped"):
        return ["exception %s escaped the iterator" % extra["escaped"]]
    pe = [it for it in tr if it[0] == 0 and it[1][0] == 13]
    ctx, compression, b1, b2 = sc["_hdr"]
    if sc["_viol"] and len(pe) != 1:
        return ["frame header %02x %02x in context %s (compression %s) violates RFC 6455 but %d ProtocolError events were yielded" % (b1, b2, ctx, compression, len(pe))]
    if sc["_viol"]:
        msgs = fam.message_events(tr)
        if msgs:
            return ["content of the violating frame %02x %02x (context %s) was delivered as a message" % (b1, b2, ctx)]
    if not sc["_viol"] and pe:
        return ["frame header %02x %02x in context %s (compression %s) is legal but a ProtocolError was yielded" % (b1, b2, ctx, compression)]
    return []


def run(rep, info, model, tier, seed):
    rnd = random.Random(seed)
    proof_ok = rep.proof_obligations(info, "props/C04.v")
    n = 1500 if tier == "quick" else 15000
    scs = [make_scenario(rnd) for _ in range(n)]
    for sc in scs:
        rep.count("violation_class", sc["_class"])
        rep.count("inside_fragmented_message", sc["_inmsg"])
        rep.count("completed_before", min(len(sc["_expect"]), 5))
    fam.run_family(rep, model, "C04:prefix-violation-rest", scs, oracle, project=fam.no_waits,
                   rule="valid prefix (0-4 messages, optionally an open fragmented message) x violation class x random rest x random segmentation x passive/sending/closing application; oracle: prefix delivered, exactly one ProtocolError, nothing delivered after, non-graceful Disconnected, at most one Close and nothing else written after the error")
    sw = sweep_scenarios(tier, rnd)
    for sc in sw:
        rep.count("sweep.violation", sc["_viol"])
    fam.run_family(rep, model, "C04:two-byte-header-sweep", sw, sweep_oracle, project=fam.no_waits,
                   rule=("all" if tier == "thorough" else "a stratified subset of the") + " 65536 two-byte frame headers x contexts {idle, inside text, inside binary} x compression {off, negotiated, offered by the client but not negotiated}, each completed with the shortest continuation and a zero-filled payload; classified by an RFC 6455 predicate written in the harness; the compression=on connection for a header runs in the same process immediately before the compression=off one (state left behind by earlier connections)")
    rep.exhaustive["65536 headers x 3 contexts x 2 compression modes"] = (tier == "thorough")
    if not proof_ok and not rep.violations:
        rep.broken("proof obligation props/C04.v no longer checks: %s" % (rep.coq_failure,))


def replay(body):
    def fix(sc):
        if sc.get("prelude"):
            # the connection that ran just before this one in the same process (permessage-deflate negotiated)
            pre = dict(sc, steps=[tuple(x) for x in sc["prelude"]["steps"]], ztape=sc["prelude"]["ztape"])
            pre.pop("prelude")
            sc["previously"] = [fam.strip_meta(pre)] + list(sc.get("previously", []))
        return sc
    return fam.replay_generic(body, {"C04:prefix-violation-rest": oracle, "C04:two-byte-header-sweep": sweep_oracle}, fix)
