"""C05 -- text delivered iff strictly valid UTF-8; fail-fast."""
from __future__ import print_function
import random
import sys

from . import core

sys.path.insert(0, core.REPO)

STATE_NAMES = {0: "acc", 1: "rej", 2: "t1", 3: "t2", 4: "e0", 5: "ed", 6: "f0", 7: "t3", 8: "f4"}


# ---------------------------------------------------------------- independent oracle
def _proper_prefixes():
    """All proper prefixes of encodings of scalar values (independent of lomond and of the model)."""
    s = set([b""])
    # it is enough to take one representative per (lead, second, third) combination
    for cp in range(0x80, 0x110000):
        if 0xD800 <= cp < 0xE000:
            continue
        e = chr(cp).encode("utf-8")
        for i in range(1, len(e)):
            s.add(e[:i])
    return s


_PP = None


def viable(p):
    """exists s, (p+s) strictly decodable -- computed with CPython's decoder only."""
    global _PP
    if _PP is None:
        _PP = _proper_prefixes()
    for cut in range(0, 4):
        if cut > len(p):
            break
        head, tail = (p[:len(p) - cut], p[len(p) - cut:]) if cut else (p, b"")
        if tail in _PP:
            try:
                head.decode("utf-8")
                return True
            except UnicodeDecodeError:
                pass
    return False


def first_offending(bs):
    """index of the last byte of the shortest non-viable prefix, or None"""
    lo = 0
    for i in range(1, len(bs) + 1):
        if not viable(bs[:i]):
            return i - 1
    return None


# ---------------------------------------------------------------- generators
def gen_valid_char(rnd):
    k = rnd.random()
    if k < 0.35:
        cp = rnd.randrange(0, 0x80)
    elif k < 0.55:
        cp = rnd.choice([0x80, 0x7FF, rnd.randrange(0x80, 0x800)])
    elif k < 0.8:
        cp = rnd.choice([0x800, 0xD7FF, 0xE000, 0xFFFF, 0xFFFD, rnd.randrange(0x800, 0xD800), rnd.randrange(0xE000, 0x10000)])
    else:
        cp = rnd.choice([0x10000, 0x10FFFF, 0x3FFFF, 0x40000, 0xFFFFF, 0x100000, rnd.randrange(0x10000, 0x110000)])
    return chr(cp).encode("utf-8")


BAD_SEQS = [b"\xc0\xaf", b"\xc1\xbf", b"\xe0\x80\x80", b"\xe0\x9f\xbf", b"\xed\xa0\x80", b"\xed\xbf\xbf", b"\xf0\x80\x80\x80",
            b"\xf0\x8f\xbf\xbf", b"\xf4\x90\x80\x80", b"\xf5\x80\x80\x80", b"\xf8\x88\x80\x80\x80", b"\xff", b"\xfe", b"\x80", b"\xbf",
            b"\xc2", b"\xe2\x82", b"\xf0\x9f\x98", b"\xc2\x41", b"\xe2\x41\x80", b"\xe2\x82\x41", b"\xf0\x9f\x41\x80", b"\xf0\x9f\x98\x41"]


def gen_string(rnd):
    n = rnd.choice([0, 1, 2, 3, 5, 8, 13, 40])
    parts = [gen_valid_char(rnd) for _ in range(n)]
    kind = rnd.random()
    label = "valid"
    if kind < 0.45:
        pos = rnd.randrange(0, len(parts) + 1)
        parts.insert(pos, rnd.choice(BAD_SEQS))
        label = "bad-seq"
    elif kind < 0.55:
        b = bytearray(b"".join(parts))
        if b:
            b[rnd.randrange(len(b))] = rnd.randrange(256)
        parts = [bytes(b)]
        label = "byte-flip"
    elif kind < 0.62:
        b = b"".join(parts)
        parts = [b[:rnd.randrange(len(b) + 1)]]
        label = "truncated"
    elif kind < 0.67:
        parts = [bytes(rnd.randrange(256) for _ in range(rnd.randrange(1, 12)))]
        label = "random"
    out = b"".join(parts)
    if rnd.random() < 0.1:
        # characters that tolerant decoders drop or rewrite: a leading U+FEFF (also twice, also alone), NUL, U+2028, U+FFFE; they are
        # part of the text and are delivered like any other character
        out = rnd.choice([b"\xef\xbb\xbf", b"\xef\xbb\xbf\xef\xbb\xbf", b"\x00", b"\xe2\x80\xa8", b"\xef\xbf\xbe", b"\r\n"]) + out
    if rnd.random() < 0.12:
        # JSON-like text: braces and percent signs in front of whatever follows (they mean something to str.format and %)
        out = rnd.choice([b'{"k": {"n": 1}, "s": "', b"{0} {} %s }{ "]) + out
    return out, label


# ---------------------------------------------------------------- implementation side
def impl_validate(state, bs):
    from lomond.utf8validator import Utf8Validator
    v = Utf8Validator()
    v._state = state
    try:
        valid, ends, cur, total = v.validate(bytes(bs))
    except Exception as e:      # the validator is total: whatever it raises is a verdict it failed to give
        return "raised " + type(e).__name__, False, -1
    return v._state, bool(valid), cur


def text_oracle(sc, tr, extra):
    if extra.get("escaped"):
        return ["exception %s escaped the iterator" % extra["escaped"]]
    p = sc["_payload"]
    texts = [it[1] for it in tr if it[0] == 0 and it[1][0] == 6]
    closings = [it[1] for it in tr if it[0] == 0 and it[1][0] == 10]
    pes = [it for it in tr if it[0] == 0 and it[1][0] == 13]
    if sc["_valid"]:
        if pes:
            return ["well-formed UTF-8 %s was rejected with a ProtocolError" % p.hex()[:80]]
        if sc["_close"]:
            if not closings or closings[0][2] != p:
                return ["close reason %s was not delivered exactly (got %r)" % (p.hex()[:80], closings[:1])]
        elif texts != [[6, p]]:
            return ["text %s was not delivered exactly once as its exact decoding (Text events: %r)" % (p.hex()[:80], [t[1].hex()[:60] for t in texts])]
    else:
        if len(pes) != 1:
            return ["ill-formed UTF-8 %s produced %d ProtocolError events (expected one)" % (p.hex()[:80], len(pes))]
        if texts:
            return ["a Text event was produced for ill-formed UTF-8 %s" % p.hex()[:80]]
        if sc["_close"] and closings:
            return ["a Closing event was produced for a close reason that is not UTF-8: %s" % p.hex()[:80]]
    return []


def ff_oracle(sc, tr, extra):
    if extra.get("escaped"):
        return ["exception %s escaped the iterator" % extra["escaped"]]
    pes = [it for it in tr if it[0] == 0 and it[1][0] == 13]
    if len(pes) != 1:
        return ["the first offending byte of an uncompressed text message (%s, %s) has arrived but %d ProtocolError events were raised before the peer went silent" % (sc["_payload"].hex()[-40:], sc["_mode"], len(pes))]
    return []



def run(rep, info, model, tier, seed):
    rnd = random.Random(seed)
    proof_ok = rep.proof_obligations(info, "props/C05.v")
    rep.assumptions += [
        "modelled, tied by correspondence only: _ReadUtf8.validate / Utf8Validator.validate on multi-byte slices is the fold of the one-byte graph with early exit; CPython's bytes.decode('utf-8') equals Model.Utf8.decode",
    ]
    if model is None:
        return
    import lomond.utf8validator as U
    if U.Utf8Validator.__module__ != "lomond.utf8validator":
        rep.broken("wsaccel validator in use; the graph tie does not cover it")
        return

    # ---- family A: every reachable state x every string of length <= 2 (exhaustive)
    reqs, metas = [], []
    states = sorted(STATE_NAMES)
    for s in states:
        for a in range(256):
            reqs.append([1, s, bytes([a])])
            metas.append((s, bytes([a])))
        if tier == "thorough" or s in (0, 2, 3, 4, 5, 6, 7, 8):
            step = 1 if tier == "thorough" else 1
            for a in range(0, 256, step):
                for b in range(0, 256, 1 if tier == "thorough" else 3):
                    reqs.append([1, s, bytes([a, b])])
                    metas.append((s, bytes([a, b])))
    ans = model.run(reqs)
    rep.watch_extraction(model, reqs[::997] + [[2, b'h\xe2\x82\xac'], [2, b'\xed\xa0\x80']])
    nA = 0
    for (s, bs), a in zip(metas, ans):
        st, valid, cur = impl_validate(s, bs)
        m_st, m_valid, m_idx = a[0], bool(a[1]), (a[2][0] if a[2] else len(bs))
        rep.add_case(("A", s, bs), nontrivial=True)
        nA += 1
        if isinstance(st, str):
            rep.violation("Utf8Validator.validate %s on the bytes %s from state %d: no verdict, the exception leaves WebSocket.feed" % (st, bs.hex(), s),
                          scenario=dict(kind="validate", state=s, data=bs.hex()), expected="a verdict", actual=st, family="A:state-x-short-strings")
            continue
        if (st, valid, cur) != (m_st, m_valid, m_idx):
            # model and implementation differ: decide with the independent oracle on the whole-string level
            _judge_validator(rep, s, bs, (st, valid, cur), (m_st, m_valid, m_idx), "A:state-x-short-strings")
    rep.families.append(dict(name="A:state-x-short-strings", cases=nA,
                             rule="Utf8Validator.validate from each of the 9 reachable states on every 1-byte string and %s 2-byte strings; compared with Model.uvalidate (state, valid?, index)" % ("all" if tier == "thorough" else "a third of all"),
                             exhaustive=(tier == "thorough")))
    rep.exhaustive["validator: states x strings of length<=2"] = (tier == "thorough")

    # ---- family B: random whole strings, three-way: implementation / model / CPython decoder + viability oracle
    nB = 20000 if tier == "quick" else 400000
    strings = []
    for _ in range(nB):
        bs, label = gen_string(rnd)
        strings.append((bs, label))
        rep.count("B.kind", label)
        rep.count("B.len", min(len(bs) // 8 * 8, 64))
    ans = model.run([[1, 0, bs] for bs, _ in strings])
    ans2 = model.run([[2, bs] for bs, _ in strings[:nB // 4]])
    nviol = 0
    for i, ((bs, label), a) in enumerate(zip(strings, ans)):
        st, valid, cur = impl_validate(0, bs)
        m_st, m_valid, m_idx = a[0], bool(a[1]), (a[2][0] if a[2] else len(bs))
        rep.add_case(bs, nontrivial=len(bs) > 0)
        rep.traces_vs_impl += 1
        if isinstance(st, str):
            nviol += 1
            rep.violation("Utf8Validator.validate %s on the bytes %s: no verdict, the exception leaves WebSocket.feed" % (st, bs.hex()),
                          scenario=dict(kind="validate", state=0, data=bs.hex()), expected="a verdict", actual=st, family="B:random-strings")
            continue
        # independent oracle
        try:
            txt = bs.decode("utf-8")
            whole_ok = True
        except UnicodeDecodeError:
            whole_ok = False
            txt = None
        off = first_offending(bs)
        exp_valid = off is None
        exp_idx = len(bs) if off is None else off
        exp_accept = whole_ok
        impl_accept = valid and st == 0
        bad = None
        if valid != exp_valid or (not valid and cur != exp_idx):
            bad = "validator verdict/fail-fast index differs from RFC 3629 viability: impl (valid=%s, index=%s) expected (valid=%s, index=%s)" % (valid, cur, exp_valid, exp_idx)
        elif impl_accept != exp_accept:
            bad = "validator end-state says complete=%s but strict decoding says %s" % (impl_accept, exp_accept)
        if bad:
            nviol += 1
            rep.violation(bad, scenario=dict(kind="validate", state=0, data=bs.hex()),
                          expected=dict(valid=exp_valid, index=exp_idx, complete=exp_accept),
                          actual=dict(valid=valid, index=cur, state=st), family="B:random-strings")
        elif (st, valid, cur) != (m_st, m_valid, m_idx):
            rep.broken("correspondence B:random-strings: model and implementation disagree on %s but the oracle accepts the implementation (model=%r impl=%r)" % (bs.hex(), (m_st, m_valid, m_idx), (st, valid, cur)))
        if i < len(ans2):
            d = ans2[i]
            m_ok = bool(d[0])
            if m_ok != whole_ok or (m_ok and [ord(c) for c in txt] != d[1]):
                rep.broken("Model.Utf8.decode disagrees with CPython's strict decoder on %s" % bs.hex())
        if i < 3:
            rep.sample(dict(family="B", data=bs.hex(), kind=label, impl=dict(state=st, valid=valid, index=cur), oracle=dict(valid=exp_valid, index=exp_idx)))
    rep.families.append(dict(name="B:random-strings", cases=nB,
                             rule="grammar-aware random strings (valid chars of 1-4 bytes at range boundaries; inserted overlongs, surrogates, >U+10FFFF, stray tails, truncations, byte flips); distinct = distinct non-empty byte strings; judged by CPython strict decoding + an independent viability oracle"))

    delivery_families(rep, model, tier, rnd)
    if not proof_ok:
        if not rep.violations:
            rep.broken("proof obligation props/C05.v no longer checks: %s" % (rep.coq_failure,))


# ---------------------------------------------------------------- through the real session loop
def delivery_families(rep, model, tier, rnd):
    from . import fam, scen, simnet, ref6455
    E = ref6455.encode_frame

    def split_frames(payload, rnd, with_ctrl):
        """text message as 1-5 frames cut anywhere (also inside a code point), control frames between fragments"""
        n = rnd.choice([1, 2, 2, 3, 5])
        pts = [0] + sorted(rnd.randrange(0, len(payload) + 1) for _ in range(n - 1)) + [len(payload)]
        out = b""
        for j in range(n):
            out += E(1 if j == 0 else 0, payload[pts[j]:pts[j + 1]], fin=1 if j == n - 1 else 0)
            if j < n - 1 and with_ctrl and rnd.random() < 0.6:
                out += E(rnd.choice([9, 10]), b"c")
        return out, n

    scs = []
    n = 1500 if tier == "quick" else 20000
    for _ in range(n):
        payload, label = gen_string(rnd)
        with_ctrl = rnd.random() < 0.5
        as_close = rnd.random() < 0.12 and len(payload) <= 123
        if as_close:
            body = E(8, b"\x03\xe8" + payload)
            nfr = 1
        else:
            body, nfr = split_frames(payload, rnd, with_ctrl)
        before = E(2, b"pre") if rnd.random() < 0.3 else b""
        hs = scen.HANDSHAKE
        zextra = {}
        if not as_close and rnd.random() < 0.15:
            # the same text on a connection with permessage-deflate, compressed by an independent peer and fragmented
            from . import ref7692
            z = ref7692.Peer().compress(payload)
            nfr = rnd.choice([1, 2, 3, 5])
            pts = [0] + sorted(rnd.randrange(0, len(z) + 1) for _ in range(nfr - 1)) + [len(z)]
            body = b""
            for j in range(nfr):
                body += E(1 if j == 0 else 0, z[pts[j]:pts[j + 1]], fin=1 if j == nfr - 1 else 0, rsv=4 if j == 0 else 0)
                if j < nfr - 1 and with_ctrl and rnd.random() < 0.6:
                    body += E(rnd.choice([9, 10]), b"c")
            hs = ref6455.handshake_response(scen.ACCEPT, extra=b"Sec-WebSocket-Extensions: permessage-deflate\r\n")
            zextra = dict(ztape=[payload], ws_kwargs=dict(compress=True))
            label = label + "+deflate"
        stream = hs + before + body + E(2, b"post")
        chunks = scen.chunkings(rnd, stream, rnd.choice(["one", "random", "small", "bytes"]))
        sc = dict(cfg=simnet.default_cfg(), steps=scen.steps_from_chunks(chunks), keys=scen.keys(rnd, 8), key16=scen.KEY16, **zextra)
        try:
            payload.decode("utf-8")
            sc["_valid"] = True
        except UnicodeDecodeError:
            sc["_valid"] = False
        sc["_payload"] = payload
        sc["_close"] = as_close
        sc["_shape"] = (label, nfr, with_ctrl, as_close)
        scs.append(sc)
        rep.count("delivery.kind", label)
        rep.count("delivery.frames", nfr)
        rep.count("delivery.valid", sc["_valid"])

    fam.run_family(rep, model, "C05:text-delivery", scs, text_oracle, project=fam.no_waits,
                   rule="a text message (or close reason) with a generated payload (valid / overlong / surrogate / >U+10FFFF / truncated / byte-flip / random), cut into 1-5 frames anywhere incl. inside a code point, optionally with Ping/Pong between fragments, delivered in one read / random reads / byte-at-a-time; Text(payload) iff CPython's strict decoder accepts the payload, else exactly one ProtocolError and no Text")

    # ---- fail-fast: deliver up to and including the offending byte, then the peer goes silent
    ff = []
    nff = 600 if tier == "quick" else 8000
    tries = 0
    while len(ff) < nff and tries < nff * 20:
        tries += 1
        payload, label = gen_string(rnd)
        off = first_offending(payload)
        if off is None:
            continue
        payload = payload + b"trailing bytes that never arrive"
        mode = rnd.choice(["single", "fragmented", "ctrl-between", "ctrl-between", "many-fragments", "many-fragments"])
        if mode == "many-fragments":
            # three to five fragments, the offending byte in the last one that arrives (whatever was validated so far, the
            # bookkeeping must still know that a text message is open)
            nf = rnd.choice([3, 3, 4, 5])
            ks = sorted(rnd.randrange(0, off + 1) for _ in range(nf - 1))
            pieces = [payload[:ks[0]]] + [payload[a:b] for a, b in zip(ks, ks[1:])]
            body = b""
            for i, pc in enumerate(pieces):
                body += E(1 if i == 0 else 0, pc, fin=0)
                if rnd.random() < 0.3:
                    body += E(9, b"p")
            last = payload[ks[-1]:]
            hdrl = 2 if len(last) < 126 else 4
            cut = len(body) + hdrl + (off - ks[-1]) + 1
            body += E(0, last, fin=1)
        elif mode == "single":
            body = E(1, payload)
            hdr = 2 if len(payload) < 126 else 4
            cut = hdr + off + 1
        else:
            # first fragment: a clean prefix strictly before the offending char; second: the rest
            k = rnd.randrange(0, off + 1)
            f1 = E(1, payload[:k], fin=0)
            mid = E(9, b"p") if mode == "ctrl-between" else b""
            f2 = E(0, payload[k:], fin=1)
            hdr2 = 2 if len(payload) - k < 126 else 4
            body = f1 + mid + f2
            cut = len(f1) + len(mid) + hdr2 + (off - k) + 1
        stream = scen.HANDSHAKE + body[:cut]
        chunks = scen.chunkings(rnd, stream, rnd.choice(["one", "random", "small"]))
        sc = dict(cfg=simnet.default_cfg(), steps=scen.steps_from_chunks(chunks, end=None) + [("timeout", 5120)] * 2, keys=scen.keys(rnd, 8), key16=scen.KEY16)
        sc["_mode"] = mode
        sc["_payload"] = payload[:off + 1]
        ff.append(sc)
        rep.count("failfast.mode", mode)

    fam.run_family(rep, model, "C05:fail-fast", ff, ff_oracle, project=fam.no_waits,
                   rule="uncompressed text whose payload has a first offending byte (computed by an independent viability oracle): the stream is delivered up to and including that byte -- single frame, two to five fragments, with or without Pings between them -- and then stalls; the ProtocolError must already have been raised")


def _judge_validator(rep, s, bs, impl, mod, fam):
    """A one/two-byte step from state s differs between model and implementation.
    Build a whole string that reaches state s and exhibits the difference, then judge it with the oracle."""
    PREFIX = {0: b"", 2: b"\xc2", 3: b"\xe1", 4: b"\xe0", 5: b"\xed", 6: b"\xf0", 7: b"\xf1", 8: b"\xf4", 1: None}
    pre = PREFIX.get(s)
    if pre is None:
        # from the reject state everything must stay rejected
        if impl[1] or impl[0] != 1:
            rep.violation("validator leaves the reject state", scenario=dict(kind="validate", state=s, data=bs.hex()),
                          expected=dict(state=1, valid=False), actual=dict(state=impl[0], valid=impl[1]), family=fam)
        return
    whole = pre + bs
    st, valid, cur = impl_validate(0, whole)
    off = first_offending(whole)
    exp_valid = off is None
    exp_idx = len(whole) if off is None else off
    try:
        whole.decode("utf-8")
        exp_complete = True
    except UnicodeDecodeError:
        exp_complete = False
    if valid != exp_valid or (not valid and cur != exp_idx) or ((valid and st == 0) != exp_complete):
        rep.violation("validator verdict differs from RFC 3629 on %s" % whole.hex(),
                      scenario=dict(kind="validate", state=0, data=whole.hex()),
                      expected=dict(valid=exp_valid, index=exp_idx, complete=exp_complete),
                      actual=dict(valid=valid, index=cur, state=st), family=fam)
    else:
        rep.broken("correspondence %s: model and implementation disagree from state %d on %s (model=%r impl=%r) but the whole-string oracle accepts the implementation" % (fam, s, bs.hex(), mod, impl))


def replay(body):
    sc = body["scenario"]
    if sc.get("kind") == "validate":
        bs = bytes.fromhex(sc["data"])
        st, valid, cur = impl_validate(sc["state"], bs)
        off = first_offending(bs)
        print("input", bs.hex(), "impl: state=%s valid=%s index=%s" % (st, valid, cur), "oracle: first offending byte index =", off)
        exp = body.get("expected") or {}
        if isinstance(st, str):
            print("REPLAY: VIOLATION reproduced: the validator %s" % st)
            return 1
        if not isinstance(exp, dict):
            exp = {}
        if sc["state"] != 0:
            # a run from another automaton state: judged against the expectation stored with the input
            ok = (valid == exp.get("valid", valid)) and (st == exp.get("state", st))
        else:
            ok = (valid == (off is None)) and (valid or cur == off)
            if "complete" in exp:
                try:
                    bs.decode("utf-8")
                    complete = True
                except UnicodeDecodeError:
                    complete = False
                ok = ok and ((valid and st == 0) == complete)
        print("REPLAY:", "property holds on this input" if ok else "VIOLATION reproduced")
        return 0 if ok else 1
    from . import fam as _fam
    return _fam.replay_generic(body, {"C05:text-delivery": text_oracle, "C05:fail-fast": ff_oracle})
