"""C18 -- available data is always drained without waiting for more traffic."""
from __future__ import print_function
import os
import random
import socket as _socket
import ssl
import subprocess
import sys
import tempfile
import threading
import time as _time

from . import core, fam, scen, simnet, ref6455

sys.path.insert(0, core.REPO)
E = ref6455.encode_frame


class SimTransport(object):
    """kernel queue + (TLS) decrypted-pending buffer on the virtual clock"""

    def __init__(self, tls, arrivals, clock):
        self.tls = tls
        self.arrivals = list(arrivals)     # [(tick, bytes)], plain: segments; tls: records (<= 16384 plaintext bytes)
        self.kernel = []
        self.pend = b""
        self.clock = clock
        self.closed = False
        self.recv_log = []
        self.avail_log = []                # (tick, nbytes) when bytes became available
        self.writes = []
        self.fail_writes = ()
        self.failed_writes = []
        self._absorb()

    def _absorb(self):
        while self.arrivals and self.arrivals[0][0] <= self.clock.ticks:
            t, b = self.arrivals.pop(0)
            self.kernel.append(b)
            self.avail_log.append((t, len(b)))

    # -- socket API used by lomond
    def sendall(self, data):
        # fail_writes: indices (0 = the upgrade request) of the writes the peer no longer takes; the socket stays readable
        k = len(self.writes) + len(self.failed_writes)
        if k in self.fail_writes:
            self.failed_writes.append((self.clock.ticks, bytes(data)))
            import socket as _s
            raise _s.error(32, "Broken pipe")
        self.writes.append((self.clock.ticks, bytes(data)))

    def recv_into(self, buf, nbytes=0):
        self._absorb()
        # like ssl.SSLSocket.recv_into: a request larger than the buffer is cut down to the buffer's size
        n = min(nbytes or len(buf), len(buf))
        if self.tls:
            if not self.pend:
                if not self.kernel:
                    raise AssertionError("recv_into would block")
                if self.tls == 2:
                    # a TLS layer with read-ahead: everything that has arrived is decrypted and buffered
                    self.pend = b"".join(self.kernel)
                    self.kernel = []
                else:
                    self.pend = self.kernel.pop(0)
            out, self.pend = self.pend[:n], self.pend[n:]
        else:
            allb = b"".join(self.kernel)
            if not allb:
                raise AssertionError("recv_into would block")
            out, rest = allb[:n], allb[n:]
            self.kernel = [rest] if rest else []
        buf[:len(out)] = out
        self.recv_log.append((n, len(out)))
        return len(out)

    def shutdown(self, how):
        pass

    def close(self):
        self.closed = True

    def settimeout(self, t):
        pass

    def fileno(self):
        return 98


class TlsTransport(SimTransport):
    def pending(self):
        return len(self.pend)


class FakeSelectModule(object):
    """stands in for the `select` module inside lomond.selectors, so that lomond's REAL selector classes (PollSelector,
    SelectSelector) run unchanged over the simulated kernel queue on the virtual clock"""
    POLLIN, POLLPRI, POLLERR, POLLHUP, POLLNVAL = 1, 2, 8, 16, 32

    def __init__(self, transport, clock, limit_ticks):
        self.tr, self.clock, self.limit = transport, clock, limit_ticks

    def _wait(self, timeout_s):
        tr, clock = self.tr, self.clock
        tr._absorb()
        if tr.kernel:
            return True
        dt = int(round((timeout_s or 0.0) * simnet.TICK))
        if tr.arrivals and tr.arrivals[0][0] <= clock.ticks + dt:
            clock.ticks = tr.arrivals[0][0]
            tr._absorb()
            return True
        clock.ticks += dt
        if clock.ticks > self.limit:
            raise simnet.Blocked()
        return False

    def select(self, rlist, wlist, xlist, timeout=None):
        return (list(rlist) if self._wait(timeout) else []), [], []

    def poll(self):
        mod = self

        class P(object):
            def __init__(self):
                self.fds = []

            def register(self, fd, events=0):
                self.fds.append(fd)

            def unregister(self, fd):
                self.fds.remove(fd)

            def poll(self, timeout_ms=None):
                return [(fd, mod.POLLIN) for fd in self.fds] if mod._wait((timeout_ms or 0.0) / 1000.0) else []

            def close(self):
                pass
        return P()


def run_sim(sc):
    import lomond.session as S
    import lomond.frame as F
    import lomond.websocket as W
    clock = simnet.Clock()
    tr = (TlsTransport if sc["tls"] else SimTransport)(sc["tls"], sc["arrivals"], clock)
    limit = sc["arrivals"][-1][0] + 3 * 60 * 1024
    tr.fail_writes = tuple(sc.get("fail_writes") or ())

    class BusyLock(object):
        """the session's write lock as seen while another thread of the application is sending: a blocking acquire gets the
        lock promptly (the other thread finishes its sendall), but a non-blocking probe made at the instant a burst is
        being handled finds it taken; the next window opens when time has moved on by more than a poll period"""

        def __init__(self):
            self.window = None
            self.held = False

        def _busy(self):
            t = clock.ticks
            if self.window is None or t > self.window + 10 * 60 * 1024:
                self.window = t
            return t == self.window

        def acquire(self, blocking=True, timeout=-1):
            if not blocking and self._busy():
                return False
            self.held = True
            return True

        def release(self):
            self.held = False

        def locked(self):
            return self.held or self._busy()

        def __enter__(self):
            self.acquire()
            return self

        def __exit__(self, *a):
            self.release()

    class HeldLock(object):
        """the write lock while another thread of the application sits in a sendall from tick A to tick B: whoever asks for it in
        between waits (the virtual clock moves to B); non-blocking probes fail"""

        def __init__(self, a, b):
            self.a, self.b = a, b
            self.held = False

        def _taken(self):
            return self.a <= clock.ticks < self.b

        def acquire(self, blocking=True, timeout=-1):
            if self._taken():
                if not blocking:
                    return False
                clock.ticks = self.b
            self.held = True
            return True

        def release(self):
            self.held = False

        def locked(self):
            return self.held or self._taken()

        def __enter__(self):
            self.acquire()
            return self

        def __exit__(self, *a):
            self.release()

    class Sess(S.WebsocketSession):
        def __init__(self, *a, **kw):
            S.WebsocketSession.__init__(self, *a, **kw)
            if sc.get("busy_lock"):
                self._lock = BusyLock()
            if sc.get("held_lock"):
                self._lock = HeldLock(*sc["held_lock"])

        def _connect(self):
            return tr, None
    import lomond.selectors as LS
    Sess._selector_cls = LS.SelectSelector if sc.get("selector") == "select" else LS.PollSelector
    old = (S.time, F.make_masking_key, W.os, LS.select)
    LS.select = FakeSelectModule(tr, clock, limit)
    S.time = clock
    F.make_masking_key = lambda: b"\x00\x00\x00\x00"
    W.os = simnet._OsProxy(W.os, scen.KEY16)
    events = []
    try:
        # plain_url: a ws:// URL whose transport is TLS all the same (it goes through an https:// proxy)
        ws = W.WebSocket("wss://example.test/" if (sc["tls"] and not sc.get("plain_url")) else "ws://example.test/")
        try:
            for ev in ws.connect(session_class=Sess, poll=60.0, ping_rate=0, ping_timeout=None, close_timeout=None):
                events.append((clock.ticks, simnet.canon_event(ev)))
        except simnet.Blocked:
            pass
    finally:
        S.time, F.make_masking_key, W.os, LS.select = old
    return events, tr


def gen(rnd, tls, held=False):
    """arrival pattern: handshake, then bursts.  held: another thread of the application holds the write lock (it is inside a
    sendall that the peer drains slowly) while the bursts arrive; the bursts then contain no Pings, so the loop itself has
    nothing to write and must deliver everything at once"""
    arrivals = [(0, scen.HANDSHAKE)]
    t = 1 if held else 0      # held: the lock is taken after the upgrade request has been written (tick 0)
    expected = []     # (availability tick of the message's last byte, event)
    for b in range(rnd.choice([1, 2, 3])):
        t += rnd.choice([1, 500, 61 * 1024, 3 * 60 * 1024])
        kind = rnd.choice(["many-small", "around-16k", "around-64k", "spanning", "mixed", "huge", "empty-last", "empty-last", "unicode", "unicode"])
        frames = []
        raw = None
        if kind == "many-small":
            for i in range(rnd.choice([2, 50, 1000, 5000])):
                p = bytes([i & 0xFF]) * rnd.choice([0, 1, 3])
                op = rnd.choice([2, 2, 9])
                frames.append((op, p))
        elif kind == "around-16k":
            frames = [(2, scen.rand_bytes(rnd, rnd.choice([16384 - 4 - 1, 16384 - 4, 16384 - 4 + 1, 16384, 16385, 2 * 16384 - 3]))), (9, b"after")]
        elif kind == "around-64k":
            frames = [(2, scen.rand_bytes(rnd, rnd.choice([65536 - 10 - 1, 65536 - 10, 65536 - 9, 65536, 65537, 100000]))), (1, b"tail"), (9, b"")]
        elif kind == "huge":
            frames = [(2, scen.rand_bytes(rnd, rnd.choice([131072 + 5, 200000, 300000]))), (1, b"t"), (9, b"h")]
        elif kind == "empty-last":
            # the burst ends with a frame that has no payload: an empty text message, or the empty final fragment of one
            which = rnd.choice(["text", "cont-text", "cont-binary", "ping", "binary"])
            if which == "text":
                frames = [(2, b"x"), (1, b"")]
            elif which == "ping":
                frames = [(1, b"y"), (9, b"")]
            elif which == "binary":
                frames = [(1, b"y"), (2, b"")]
            else:
                op = 1 if which == "cont-text" else 2
                raw = E(op, b"streamed ", fin=0) + E(0, b"message", fin=0) + E(0, b"", fin=1)
                frames = [(op, b"streamed message")]
        elif kind == "unicode":
            # text of 2-, 3- and 4-byte characters larger than a TLS record / the receive buffer: record and read boundaries fall
            # inside characters
            unit = rnd.choice(["\u20ac", "\u00e9\u20ac", "\U0001f600x", "\u65e5\u672c\u8a9e"]).encode("utf-8")
            n = rnd.choice([20000, 70000, 140000])
            frames = [(1, b"x" * rnd.choice([0, 1, 2]) + unit * (n // len(unit))), (2, b"bin"), (1, unit * 3), (9, b"u")]
        elif kind == "spanning":
            frames = [(1, b"a" * 20000), (2, b"b" * 20000), (1, b"c" * 30000), (9, b"p")]
        else:
            frames = [(2, scen.rand_bytes(rnd, rnd.choice([0, 10, 5000]))) for _ in range(rnd.choice([3, 40]))] + [(9, b"x")]
        if held:
            frames = [(2 if op == 9 else op, p) for op, p in frames]
        data = raw if raw is not None else b"".join(E(op, p) for op, p in frames)
        # cut into TLS records / TCP segments, all available at the same instant t
        cuts = []
        pos = 0
        while pos < len(data):
            n = 16384 if (tls and rnd.random() < 0.7) else rnd.choice([1, 100, 1460, 16384, 9000])
            n = min(n, 16384) if tls else n
            cuts.append(data[pos:pos + n])
            pos += n
        for c in cuts:
            arrivals.append((t, c))
        for op, p in frames:
            expected.append((t, [{1: 6, 2: 7, 9: 8}[op], p]))
    extra = dict(selector=rnd.choice(["poll", "select"]), plain_url=bool(tls) and rnd.random() < 0.25)
    if held:
        return dict(tls=tls, arrivals=arrivals, _expected=expected, busy_lock=False, held_lock=[arrivals[1][0] - 1, t + 30 * 1024], **extra)
    if rnd.random() < 0.15:
        # the peer takes no more of what the client writes from some Pong on (the write fails; the read side is unaffected):
        # an unwritable Pong is dropped, everything that has arrived is delivered all the same
        npings = sum(1 for _, e in expected if e[0] == 8)
        if npings:
            first = rnd.randrange(1, npings + 1)
            extra["fail_writes"] = list(range(first, npings + 2))
    return dict(tls=tls, arrivals=arrivals, _expected=expected, busy_lock=(rnd.random() < 0.3), **extra)


def oracle(sc, events, tr):
    out = []
    msgs = [(t, e) for t, e in events if e[0] in (6, 7, 8, 9)]
    exp = sc["_expected"]
    if [e for _, e in msgs] != [e for _, e in exp]:
        out.append("%d of %d messages were delivered before the loop went idle for good (transport %s)" % (len(msgs), len(exp), ["TCP", "TLS", "TLS with read-ahead"][sc["tls"]]))
        return out
    for (t, e), (ta, _) in zip(msgs, exp):
        if t != ta:
            out.append("a message whose last byte was available at tick %d was delivered at tick %d (%.1f s later; transport %s): the loop waited for a poll timeout or more traffic" % (ta, t, (t - ta) / 1024.0, ["TCP", "TLS", "TLS with read-ahead"][sc["tls"]]))
            break
    pongs = sorted([(t, ref6455.decode_client_frame(w)) for t, w in tr.writes[1:]] + [(t, ref6455.decode_client_frame(w)) for t, w in tr.failed_writes], key=lambda x: x[0])
    pings = [(ta, e) for ta, e in exp if e[0] == 8]
    if len(pongs) != len(pings):
        out.append("%d automatic pongs for %d pings" % (len(pongs), len(pings)))
    else:
        for (t, fr), (ta, e) in zip(pongs, pings):
            if t != ta:
                out.append("the pong for a ping available at tick %d was written at tick %d" % (ta, t))
                break
    return out


# ---------------------------------------------------------------- real loopback sockets
def _make_cert(tmp):
    key, crt = os.path.join(tmp, "k.pem"), os.path.join(tmp, "c.pem")
    subprocess.check_call(["openssl", "req", "-x509", "-newkey", "rsa:2048", "-nodes", "-keyout", key, "-out", crt, "-days", "1", "-subj", "/CN=localhost"],
                          stdout=subprocess.DEVNULL, stderr=subprocess.DEVNULL)
    return key, crt


def real_run(tls, nsmall, big, tmp, tail_split=False):
    """a tiny server sends the handshake reply and one burst in a single sendall; returns (n delivered, seconds)"""
    import base64
    import hashlib
    import lomond
    from lomond import WebSocket
    srv = _socket.socket()
    srv.bind(("127.0.0.1", 0))
    srv.listen(1)
    port = srv.getsockname()[1]
    burst = b"".join(E(2, bytes([i & 0xFF])) for i in range(nsmall)) + E(2, b"B" * big) + E(1, b"end")
    done = threading.Event()

    def serve():
        try:
            c, _ = srv.accept()
            if tls:
                ctx = ssl.SSLContext(ssl.PROTOCOL_TLS_SERVER)
                ctx.load_cert_chain(tls[1], tls[0])
                c = ctx.wrap_socket(c, server_side=True)
            req = b""
            while b"\r\n\r\n" not in req:
                req += c.recv(4096)
            key = [l.split(b":", 1)[1].strip() for l in req.split(b"\r\n") if l.lower().startswith(b"sec-websocket-key")][0]
            acc = base64.b64encode(hashlib.sha1(key + b"258EAFA5-E914-47DA-95CA-C5AB0DC85B11").digest())
            if tail_split:
                # the last byte of the burst travels in a segment of its own, after the rest has been consumed
                c.sendall(ref6455.handshake_response(acc))
                _time.sleep(0.3)
                c.sendall(burst[:-1])
                _time.sleep(0.5)
                c.sendall(burst[-1:])
            else:
                c.sendall(ref6455.handshake_response(acc) + burst)
            done.wait(20)
            c.close()
        except Exception:
            pass
    th = threading.Thread(target=serve)
    th.daemon = True
    th.start()
    ws = WebSocket(("wss" if tls else "ws") + "://127.0.0.1:%d/" % port, proxies={})
    n = 0
    t0 = _time.time()
    got_end = False
    deadline = t0 + 8
    for ev in ws.connect(poll=60, ping_rate=0):
        if ev.name in ("binary", "text"):
            n += 1
            if ev.name == "text":
                got_end = True
                break
        if ev.name in ("disconnected", "connect_fail"):
            break
        if _time.time() > deadline:
            break
    dt = _time.time() - t0
    done.set()
    srv.close()
    return n, dt, got_end


def run(rep, info, model, tier, seed):
    rnd = random.Random(seed)
    proof_ok = rep.proof_obligations(info, "props/C18.v")
    rep.assumptions += ["the kernel queue and the TLS record layer are modelled (one recv decrypts one whole record into the pending buffer); the real-socket runs are tests of that model, not proofs"]
    n = 200 if tier == "quick" else 3000
    scs = [gen(rnd, tls=(i % 3)) for i in range(n)] + [gen(rnd, tls=(i % 3), held=True) for i in range(n // 8)]
    dis = 0
    for sc in scs:
        events, tr = run_sim(sc)
        rep.add_case(repr((sc["tls"], [(t, len(b)) for t, b in sc["arrivals"]])))
        rep.traces_vs_impl += 1
        rep.count("transport", ["tcp", "tls-one-record-per-read", "tls-read-ahead"][sc["tls"]])
        rep.count("records", "1-4" if len(sc["arrivals"]) <= 5 else ("5-50" if len(sc["arrivals"]) <= 51 else "51+"))
        res = oracle(sc, events, tr)
        if res:
            rep.violation(res[0], scenario=fam.jsonable_sc(dict(kind="virtual", tls=sc["tls"], busy_lock=sc.get("busy_lock", False), held_lock=sc.get("held_lock"), selector=sc.get("selector"), plain_url=sc.get("plain_url", False), arrivals=[[t, b] for t, b in sc["arrivals"]],
                                                              expected=[[t, e] for t, e in sc["_expected"]])), family="C18:virtual-clock-bursts")
        sc["_recv_log"] = tr.recv_log
        if len(rep.samples) < 3:
            rep.sample(dict(tls=sc["tls"], arrival_sizes=[[t, len(b)] for t, b in sc["arrivals"]][:12], recv_calls=tr.recv_log[:12]))
    # model correspondence: single-burst scenarios -> the sequence of read sizes
    if model is not None:
        single = [sc for sc in scs if len(set(t for t, _ in sc["arrivals"][1:])) == 1]
        mres = model.run([[40, sc["tls"], [b for _, b in sc["arrivals"][1:]]] for sc in single])
        rep.watch_extraction(model, [[40, 2, [b"abc" * 100, b"d" * 50]], [40, 1, [b"x" * 300, b"y"]], [40, 0, [b"q" * 10]]])
        for sc, m in zip(single, mres):
            got = [r for _, r in sc["_recv_log"][1:]]     # first read is the handshake
            if m[0] != got or m[1] != 0:
                dis += 1
                if dis == 1:
                    first = (sc["tls"], [len(b) for _, b in sc["arrivals"][1:]][:20], m[0][:20], got[:20])
        if dis and not rep.violations:
            rep.broken("correspondence C18: the model's sequence of read sizes differs from the implementation on %d single-burst scenarios; first %r" % (dis, first))
    rep.families.append(dict(name="C18:virtual-clock-bursts", cases=n, disagreements=dis,
                             rule="real session loop + lomond's REAL PollSelector / SelectSelector (the `select` module they use is simulated: kernel queue and TLS pending buffer on the virtual clock) with poll=60 s, wss:// URLs and ws:// URLs carried over TLS (https proxy): bursts around 16 KiB records and the 64 KiB receive buffer (+-1), 2-5000 small frames per burst, messages spanning records; every message and automatic pong must appear at the very tick its last byte became available; in some runs the write lock looks taken to non-blocking probes (another thread is sending) while blocking acquisition succeeds; in others another thread holds it for 30 s and more (a sendall the peer drains slowly) while bursts without Pings arrive: reading must not wait for it"))
    # real sockets
    nreal = 2 if tier == "quick" else 12   # per transport; odd runs put the last byte of the burst in its own segment
    tmp = tempfile.mkdtemp(prefix="c18-", dir=core.BUILD)
    try:
        tlsfiles = None
        try:
            tlsfiles = _make_cert(tmp)
        except Exception as e:
            rep.notes.append("openssl not usable (%s): TLS loopback runs skipped" % e)
        for i in range(nreal):
            for tls in (None, tlsfiles):
                if tls is None and i % 1 == 0 or tls:
                    nsmall, big = rnd.choice([(2000, 200000), (20000, 70000), (500, 16384 * 3)])
                    split = (i % 2 == 1)
                    cnt, dt, got_end = real_run(tls, nsmall, big, tmp, tail_split=split)
                    rep.add_case(("real", bool(tls), nsmall, big, i, split))
                    rep.count("real_tail_byte_in_own_segment", split)
                    rep.count("real_transport", "tls" if tls else "tcp")
                    if got_end and cnt == nsmall + 2 and dt > 6.0:
                        rep.violation("real %s loopback: the last message of a burst was delivered only after %.1f s (poll=60): the loop sat on available data until unrelated activity (the peer closing) woke it" % ("TLS" if tls else "TCP", dt),
                                      scenario=dict(kind="real", tls=bool(tls), nsmall=nsmall, big=big, tail_split=split), family="C18:real-loopback")
                    if not got_end or cnt != nsmall + 2:
                        rep.violation("real %s loopback: only %d of %d messages of one burst were delivered within %.1f s with poll=60 (the loop stalled on buffered data)" % ("TLS" if tls else "TCP", cnt, nsmall + 2, dt),
                                      scenario=dict(kind="real", tls=bool(tls), nsmall=nsmall, big=big), family="C18:real-loopback")
        rep.families.append(dict(name="C18:real-loopback", cases=2 * nreal, rule="real TCP and TLS (throw-away self-signed certificate) loopback server sending the handshake reply and a burst of thousands of frames in one sendall; poll=60 s, 8 s wall-clock bound"))
    finally:
        for f in os.listdir(tmp):
            os.unlink(os.path.join(tmp, f))
        os.rmdir(tmp)
    if not proof_ok and not rep.violations:
        rep.broken("proof obligation props/C18.v no longer checks: %s" % (rep.coq_failure,))


def replay(body):
    sc = fam.unjson_sc(body["scenario"])
    if sc.get("kind") == "virtual":
        sc2 = dict(tls=sc["tls"], busy_lock=sc.get("busy_lock", False), held_lock=sc.get("held_lock"), selector=sc.get("selector"), plain_url=sc.get("plain_url", False), arrivals=[(t, b) for t, b in sc["arrivals"]],
                   _expected=[(t, e) for t, e in sc["expected"]])
        events, tr = run_sim(sc2)
        res = oracle(sc2, events, tr)
        print("messages delivered: %d of %d" % (len([1 for _, e in events if e[0] in (6, 7, 8, 9)]), len(sc2["_expected"])))
        print("REPLAY:", ("VIOLATION reproduced: %s" % res[0]) if res else "property holds on this input")
        return 1 if res else 0
    if sc.get("kind") == "real":
        tmp = tempfile.mkdtemp(prefix="c18-", dir=core.BUILD)
        try:
            tlsfiles = _make_cert(tmp) if sc.get("tls") else None
            cnt, dt, got_end = real_run(tlsfiles, sc["nsmall"], sc["big"], tmp, tail_split=bool(sc.get("tail_split")))
        finally:
            for f in os.listdir(tmp):
                os.unlink(os.path.join(tmp, f))
            os.rmdir(tmp)
        bad = (not got_end) or cnt != sc["nsmall"] + 2 or dt > 6.0
        print("delivered %d of %d messages in %.1f s" % (cnt, sc["nsmall"] + 2, dt))
        print("REPLAY:", "VIOLATION reproduced" if bad else "property holds on this input")
        return 1 if bad else 0
    print("this replay file predates the complete scenario format: re-run /venv/bin/python /verif/check.py C18 quick")
    return 2
