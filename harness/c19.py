"""C19 -- with a proxy configured, nothing is sent to the target before the tunnel is up."""
from __future__ import print_function
import base64
import random
import socket as _socket
import sys

from . import core, fam, scen, simnet, ref6455

sys.path.insert(0, core.REPO)


class NetLog(object):
    def __init__(self):
        self.ops = []


class PSock(simnet.SimSocket):
    """socket handed out by the fake socket module: proxy negotiation ops are logged, then it behaves as SimSocket"""

    def __init__(self, run, net, script, connect_ok, send_fault):
        simnet.SimSocket.__init__(self, run)
        self.net = net
        self.script = list(script)
        self.connect_ok = connect_ok
        self.send_fault = send_fault
        self.tunnel_phase = True
        self.wrapped = False

    def connect(self, sa):
        self.net.ops.append(("connect", sa[0], sa[1]))
        if not self.connect_ok:
            raise _socket.error(111, "Connection refused")

    def sendall(self, data):
        if self.tunnel_phase and not self.net.ops_has_request:
            pass
        if self.tunnel_phase:
            self.net.ops.append(("send", bytes(data)))
            n = sum(1 for o in self.net.ops if o[0] == "send")
            if self.send_fault is not None and n - 1 == self.send_fault:
                raise _socket.error(32, "Broken pipe")
            if self.net.direct or self.net.tunnel_up:
                # this is the upgrade request (first write after the tunnel is up / on a direct connection)
                self.tunnel_phase = False
                self.run.n_sendall += 1
                self.run.request = bytes(data)
                self.run.log([3, 1])
            return
        return simnet.SimSocket.sendall(self, data)

    def recv(self, n):
        self.net.ops.append(("recv", n))
        if self.tunnel_phase and not self.net.tunnel_up and getattr(self.net, "poke", None):
            # another thread of the application tries to send while the connecting thread waits for the proxy
            self.net.poke()
        if not self.script:
            raise simnet.Blocked()
        st = self.script.pop(0)
        if len(st) > 2:
            # a slow proxy: this piece arrives st[2] ticks after the previous one (each recv returns well within the socket timeout)
            self.run.clock.ticks += st[2]
        if st[0] == "data":
            assert len(st[1]) <= n
            return st[1]
        if st[0] == "eof":
            return b""
        if st[0] == "oserr":
            # which errno the failing recv reports varies (a reset, an interrupted call, "temporarily unavailable", ...)
            raise _socket.error(*(simnet.OS_ERRORS[st[1] % len(simnet.OS_ERRORS)] if len(st) > 1 else (104, "Connection reset by peer")))
        raise RuntimeError("recv exploded")

    def close(self):
        self.net.ops.append(("close",))
        simnet.SimSocket.close(self)


class FakeSocketModule(object):
    AF_UNSPEC = 0
    SOCK_STREAM = 1
    IPPROTO_TCP = 6
    TCP_NODELAY = 1
    SHUT_RDWR = 2
    error = _socket.error

    def __init__(self, run, net, sc):
        self.run, self.net, self.sc = run, net, sc

    def getaddrinfo(self, host, port, *a):
        self.net.ops.append(("resolve", host, port))
        if self.sc.get("resolve") == "fail":
            raise _socket.gaierror(-2, "Name or service not known")
        return [(2, 1, 6, "", (host, port))]

    def socket(self, af, st, proto):
        s = PSock(self.run, self.net, self.sc.get("proxy_script", []), self.sc.get("connect_ok", True), self.sc.get("send_fault"))
        self.run.sock = s
        return s


def run_case(sc):
    import lomond.session as S
    import lomond.frame as F
    import lomond.websocket as W
    run = simnet.Run(dict(steps=[("data", 0, scen.HANDSHAKE), ("eof", 0)]))
    net = NetLog()
    net.direct = sc["_direct"]
    net.tunnel_up = False
    net.ops_has_request = False

    class Sess(S.WebsocketSession):
        def _selector_cls(self, sock):
            run.selector = simnet.SimSelector(sock, run)
            return run.selector

        def _wrap_socket(self, sock, host):
            net.ops.append(("tls-wrap", host))
            return sock
    old = (S.socket, S.time, F.make_masking_key, W.os)
    S.socket = FakeSocketModule(run, net, sc)
    S.time = run.clock
    F.make_masking_key = run.next_key
    W.os = simnet._OsProxy(W.os, scen.KEY16)
    events = []
    escaped = None
    import os as _os
    saved_env = {k: _os.environ.get(k) for k in ("HTTP_PROXY", "HTTPS_PROXY", "NO_PROXY", "no_proxy")}
    for k in saved_env:
        _os.environ.pop(k, None)
    for k, v in (sc.get("env") or {}).items():
        _os.environ[k] = v
    try:
        ws = W.WebSocket(sc["url"], proxies=sc["proxies"])
        if sc.get("poke"):
            def poke():
                for name, args in (("send_text", (u"early",)), ("send_binary", (b"e",)), ("send_ping", (b"",)), ("send_pong", (b"",))):
                    try:
                        getattr(ws, name)(*args)
                        net.ops.append(("poke", name, None))
                    except Exception as e:
                        net.ops.append(("poke", name, type(e).__name__))
            net.poke = poke
        try:
            for ev in ws.connect(session_class=Sess):
                if ev.name == "connected":
                    net.tunnel_up = True
                    events.append(("connected", ev.proxy))
                else:
                    events.append((ev.name,))
                # the tunnel is up as soon as the negotiation returned: mark it before the request is written
        except simnet.Blocked:
            events.append(("blocked",))
        except BaseException as e:
            escaped = type(e).__name__
    finally:
        S.socket, S.time, F.make_masking_key, W.os = old
        for k, v in saved_env.items():
            if v is None:
                _os.environ.pop(k, None)
            else:
                _os.environ[k] = v
    return events, net.ops, escaped, run


def gen(rnd):
    secure = rnd.random() < 0.4
    host = rnd.choice(["target.test", "ws.example.org"])
    port = rnd.choice([None, 8080, 443, 80, 9443])
    url = "%s://%s%s/feed" % ("wss" if secure else "ws", host, "" if port is None else ":%d" % port)
    tport = port if port is not None else (443 if secure else 80)
    pshape = rnd.choice(["plain", "port", "cred", "cred_nopw", "https_proxy", "none", "empty", "other_scheme_only", "from_env", "capitals", "no_user"])
    user = pw = None
    pscheme, phost, pport = "http", "proxy.test", None
    if pshape == "port":
        pport = rnd.choice([3128, 8080, 80])
    elif pshape == "cred":
        # (credentials are case-sensitive and go out exactly as written, percent escapes included)
        user, pw = rnd.choice(["alice", "Alice", "ALICE", "svc%2Buser", "svc%2buser"]), rnd.choice(["s3cret", "p:w", "", "S3cret", "Pa%3Ass", "TOPSECRET"])
        pport = 3128
    elif pshape == "cred_nopw":
        user = rnd.choice(["bob", "Bob", "BOB_1"])
    elif pshape == "https_proxy":
        pscheme = "https"
    purl = "%s://%s%s%s" % (pscheme, ("%s%s@" % (user, ":" + pw if pw is not None else "")) if user else "", phost, "" if pport is None else ":%d" % pport)
    if pshape == "capitals":
        # the same proxy, scheme and host spelled in capitals, a path behind the authority: host names compare in lower case
        pscheme = rnd.choice(["http", "https"])
        pport = rnd.choice([None, 3128])
        purl = "%s://%s%s%s" % (pscheme.upper(), phost.upper().replace("PROXY", "Proxy"), "" if pport is None else ":%d" % pport, rnd.choice(["", "/", "/x?y#z"]))
    elif pshape == "no_user":
        # a password without a user name: there are no credentials to send
        purl = "http://:%s@%s:3128" % (rnd.choice(["pw", ""]), phost)
        pport = 3128
    key = "https" if secure else "http"
    other = "http" if secure else "https"
    if pshape == "none":
        proxies = {}
    elif pshape == "empty":
        proxies = {key: rnd.choice(["", None])}
    elif pshape == "other_scheme_only":
        proxies = {other: purl}
    else:
        proxies = {key: purl}
        if rnd.random() < 0.3:
            proxies[other] = "http://wrong.proxy.test:1"
    env = {}
    if pshape == "from_env":
        # no proxies argument at all: the environment decides
        env = {("HTTPS_PROXY" if secure else "HTTP_PROXY"): purl}
        proxies = None
    elif rnd.random() < 0.5:
        # an explicit proxies argument -- also an empty one -- overrides whatever the environment says
        env = {"HTTP_PROXY": "http://env.proxy.test:3128", "HTTPS_PROXY": "http://env.proxy.test:3128"}
    if rnd.random() < 0.3:
        # the process environment also carries an exclusion list (for other software): the proxy configured for this WebSocket
        # is used all the same, whether the list names the target or not
        env[rnd.choice(["no_proxy", "NO_PROXY"])] = rnd.choice(["*", host, "." + host.split(".", 1)[1], "localhost,127.0.0.1," + host, "unrelated.example"])
    direct = pshape in ("none", "empty", "other_scheme_only")
    # the proxy's reply
    rk = rnd.choice(["200", "200", "200", "status", "status_odd", "unterminated_eof", "oversize", "oversize_lines", "empty", "oserr", "exc", "garbage", "connect_refused", "send_fault",
                     "interim_then_200", "limit", "slow", "slow"])
    status = b"200"
    reply = b""
    script = []
    sc = dict(url=url, proxies=proxies, env=env)
    expect = "tunnel"
    if rk in ("200", "status"):
        if rk == "status":
            status = str(rnd.choice([100, 201, 301, 403, 407, 500, 502, 503, 199, 299, 20, 2000])).encode()
            expect = "fail"
        reply = b"HTTP/1.1 " + status + b" " + rnd.choice([b"Connection established", b"OK", b"Nope"]) + b"\r\n" + rnd.choice([b"", b"Proxy-Agent: t\r\n", b"Via: 1.1 x\r\nX-A: b\r\n"]) + b"\r\n"
        chunks = scen.chunkings(rnd, reply, rnd.choice(["one", "bytes", "random", "small"]), maxchunk=1024)
        script = [("data", c) for c in chunks]
    elif rk == "slow":
        # the answer trickles in over half a minute to several minutes, every single recv returning in time: what it says
        # decides, not how long it took
        status = rnd.choice([b"200", b"200", b"407", b"503", b"302"])
        reply = b"HTTP/1.1 " + status + b" " + rnd.choice([b"Connection established", b"Proxy Authentication Required", b"Busy"]) + b"\r\nVia: 1.1 slow\r\nX-Pad: " + b"p" * rnd.choice([10, 200]) + b"\r\n\r\n"
        k = rnd.choice([3, 5, 9])
        cuts = sorted(rnd.sample(range(1, len(reply)), k - 1))
        pieces = [reply[a:b] for a, b in zip([0] + cuts, cuts + [len(reply)])]
        gap = rnd.choice([8, 12, 20, 45]) * 1024
        script = [("data", c, gap) for c in pieces]
        if status != b"200":
            script.append(("eof",))
        expect = "tunnel" if status == b"200" else "fail"
    elif rk == "interim_then_200":
        # the first header block is the proxy's answer: a 1xx block is not a 200, whatever follows it
        reply = b"HTTP/1.1 " + rnd.choice([b"100 Continue", b"102 Processing", b"103 Early Hints", b"101 Switching Protocols", b"199 X"]) + b"\r\n" + rnd.choice([b"", b"X-A: b\r\n"]) + b"\r\n" + \
            b"HTTP/1.1 200 Connection established\r\n\r\n"
        script = [("data", c) for c in scen.chunkings(rnd, reply, rnd.choice(["one", "bytes", "random"]), maxchunk=1024)]
        expect = "fail"
    elif rk == "limit":
        # a terminated 200 block whose total length sits on the 16 KiB limit (the limit counts the terminator)
        total = rnd.choice([16380, 16383, 16384, 16385, 16386, 16387, 16388, 16389, 16392])
        head = b"HTTP/1.1 200 OK\r\nX-Pad: "
        reply = head + b"p" * (total - len(head) - 4) + b"\r\n\r\n"
        how = rnd.choice(["1024", "1024", "tail", "bytes-at-end"])
        if how == "1024":
            script = [("data", reply[i:i + 1024]) for i in range(0, len(reply), 1024)]
        elif how == "tail":
            k = len(reply) - rnd.choice([1, 2, 3, 4, 5])
            script = [("data", reply[i:i + 1024]) for i in range(0, k, 1024)]
            script[-1] = ("data", reply[(len(script) - 1) * 1024:k])
            script.append(("data", reply[k:]))
        else:
            k = len(reply) - 8
            script = [("data", reply[i:min(i + 1024, k)]) for i in range(0, k, 1024)] + [("data", reply[j:j + 1]) for j in range(k, len(reply))]
        script.append(("eof",))
        expect = "tunnel" if total <= 16384 else "fail"
    elif rk == "status_odd":
        # a status that only LOOKS like 200: digits outside ASCII, other separators, signs, padding
        st = rnd.choice(["\uff12\uff10\uff10".encode("utf-8"), "\u0662\u0660\u0660".encode("utf-8"), b"2\xef\xbc\x900", b"200.0", b"2 00", b"200\xc2\xa0OK", b"200\xef\xbc\x90"])
        sep = rnd.choice([b" ", b" ", b"\xc2\xa0"])
        reply = b"HTTP/1.1" + sep + st + sep + b"OK\r\n\r\n"
        script = [("data", c) for c in scen.chunkings(rnd, reply, rnd.choice(["one", "random"]), maxchunk=1024)]
        expect = "fail"
    elif rk == "oversize_lines":
        # more than 16 KiB of perfectly ordinary header lines
        reply = b"HTTP/1.1 200 OK\r\n" + b"".join(b"X-Header-%03d: %s\r\n" % (i, b"v" * 40) for i in range(rnd.choice([330, 400, 600]))) + b"\r\n"
        script = [("data", reply[i:i + 1024]) for i in range(0, len(reply), 1024)] + [("eof",)]
        expect = "fail"
    elif rk == "unterminated_eof":
        reply = b"HTTP/1.1 200 Connection established\r\nX: y\r\n"
        script = [("data", c) for c in scen.chunkings(rnd, reply, "random", maxchunk=1024)] + [("eof",)]
        expect = "fail"
    elif rk == "oversize":
        reply = b"HTTP/1.1 200 OK\r\nX-Pad: " + b"p" * rnd.choice([16384, 20000]) + (b"\r\n\r\n" if rnd.random() < 0.5 else b"")
        script = [("data", reply[i:i + 1024]) for i in range(0, len(reply), 1024)] + [("eof",)]
        expect = "fail"
    elif rk == "empty":
        script = [("eof",)]
        expect = "fail"
    elif rk in ("oserr", "exc"):
        if rnd.random() < 0.5:
            pre = b"HTTP/1.1 200 OK\r\n"[:rnd.randrange(0, 17)]
            script = ([("data", pre)] if pre else []) + [(rk,)]
        else:
            # the read fails inside an answer that was fine so far -- after a whole line, after a piece that is just the line
            # terminator -- and whatever the proxy would have sent next is there for an implementation that reads on
            head = b"HTTP/1.1 200 Connection established" + rnd.choice([b"", b"\r\nVia: 1.1 proxy.test", b"\r\nProxy-Agent: p/1\r\nX-A: b"])
            pieces = [("data", c) for c in scen.chunkings(rnd, head, "random", maxchunk=1024)] + [("data", b"\r\n")]
            fault = ("oserr", rnd.randrange(0, 7)) if rk == "oserr" else (rk,)
            script = pieces + [fault] + rnd.choice([[("eof",)], [("data", b"\r\n"), ("eof",)], [("data", b"X-B: c\r\n\r\n"), ("eof",)]])
        expect = "fail"
    elif rk == "garbage":
        reply = rnd.choice([b"\r\n\r\n", b"SSH-2.0-OpenSSH\r\n\r\n", b"HTTP/1.1 OK 200\r\n\r\n", b"\x16\x03\x01\x02\x00\r\n\r\n"])
        script = [("data", reply)]
        expect = "fail"
    elif rk == "connect_refused":
        sc["connect_ok"] = False
        expect = "fail"
    elif rk == "send_fault":
        sc["send_fault"] = 0
        script = [("data", b"HTTP/1.1 200 OK\r\n\r\n")]
        expect = "fail"
    sc["proxy_script"] = script
    if rnd.random() < 0.4:
        sc["poke"] = True
    sc["_direct"] = direct
    if direct:
        expect = "direct"
        sc["connect_ok"] = True
        sc["send_fault"] = None
    sc["_expect"] = expect
    sc["_target"] = (host, tport)
    sc["_proxy"] = None if direct else (phost, pport if pport is not None else (443 if pscheme == "https" else 80), purl, user, pw, pscheme)
    sc["_secure"] = secure
    sc["_rk"] = rk
    sc["_pshape"] = pshape
    return sc


def oracle(sc, events, ops, escaped):
    out = []
    if escaped:
        return ["exception %s escaped the iterator" % escaped]
    names = [e[0] for e in events]
    sends = [o[1] for o in ops if o[0] == "send"]
    connects = [o for o in ops if o[0] == "connect"]
    host, port = sc["_target"]
    if sc["_expect"] == "direct":
        if not connects or connects[0][1:] != (host, port):
            out.append("no proxy applies to this URL (%s, proxies %r) but the client connected to %r" % (sc["url"], sc["proxies"], connects[:1]))
        if sends and sends[0].startswith(b"CONNECT"):
            out.append("a CONNECT request was sent although no proxy applies")
        if "connected" in names and events[names.index("connected")][1] is not None:
            out.append("Connected reports proxy %r on a direct connection" % (events[names.index("connected")][1],))
        return out
    phost, pport, purl, user, pw, pscheme = sc["_proxy"]
    if not connects or connects[0][1:] != (phost, pport):
        out.append("the client connected to %r, the configured proxy is %s:%d" % (connects[:1], phost, pport))
        return out
    if sc.get("connect_ok", True):
        if not sends:
            out.append("nothing was sent to the proxy")
            return out
        first = sends[0]
        line = first.split(b"\r\n")[0]
        if line != ("CONNECT %s:%d HTTP/1.1" % (host, port)).encode():
            out.append("first write is %r, expected a CONNECT naming exactly %s:%d" % (line, host, port))
        if not first.endswith(b"\r\n\r\n"):
            out.append("the CONNECT request is not terminated by an empty line")
        if b"Upgrade: websocket" in first or b"Sec-WebSocket-Key" in first:
            out.append("WebSocket handshake bytes inside the CONNECT request")
        auth = [l for l in first.split(b"\r\n")[1:] if l.lower().startswith(b"proxy-authorization:")]
        if user:
            cred = (user if pw is None else "%s:%s" % (user, pw)).encode()
            if base64.standard_b64encode(cred) not in first:
                out.append("proxy credentials missing from the CONNECT request")
            elif len(auth) != 1:
                out.append("the CONNECT request carries %d Proxy-Authorization headers (this proxy's credentials are to be sent once)" % len(auth))
        elif auth:
            out.append("the CONNECT request carries credentials (%r) although the configured proxy URL %s has none: they belong to some other connection" % (auth[0][:60], purl))
    for o in ops:
        if o[0] == "poke" and o[2] is None:
            out.append("%s() called by another thread while the proxy negotiation was in progress was accepted (it must raise: there is no websocket connection yet)" % o[1])
    if sc["_expect"] == "tunnel":
        if "connected" not in names:
            out.append("the proxy answered 200 but Connected was not yielded (events %s)" % names)
        else:
            if events[names.index("connected")][1] != purl:
                out.append("Connected reports proxy %r, configured %r" % (events[names.index("connected")][1], purl))
            if len(sends) < 2 or not sends[1].startswith(b"GET "):
                out.append("the upgrade request was not the next write after the proxy's 200")
            # nothing between CONNECT and the reply
            idx_send = [i for i, o in enumerate(ops) if o[0] == "send"]
            first_recv = min([i for i, o in enumerate(ops) if o[0] == "recv"] or [len(ops)])
            if len(idx_send) > 1 and idx_send[1] < first_recv:
                out.append("a second write happened before the proxy had answered")
            if sc["_secure"] and not any(o[0] == "tls-wrap" and o[1] == host for o in ops):
                out.append("wss through a proxy: the tunnel was not wrapped in TLS for %s" % host)
    else:
        if "connected" in names or "ready" in names:
            out.append("Connected/Ready although the proxy negotiation failed (%s)" % sc["_rk"])
        if names[-1:] != ["connect_fail"]:
            out.append("a failed proxy negotiation (%s) did not end with ConnectFail (events %s)" % (sc["_rk"], names))
        for s in sends[1:]:
            out.append("%d bytes were written after the CONNECT although the tunnel never came up (%r...)" % (len(s), s[:20]))
        for s in sends:
            if b"Sec-WebSocket-Key" in s:
                out.append("the WebSocket handshake was written although the tunnel never came up")
    return out


def run(rep, info, model, tier, seed):
    rnd = random.Random(seed)
    proof_ok = rep.proof_obligations(info, "props/C19.v")
    n = 1500 if tier == "quick" else 20000
    scs = [gen(rnd) for _ in range(n)]
    mreq = []
    for sc in scs:
        rep.count("reply", sc["_rk"] if not sc["_direct"] else "direct")
        rep.count("proxy_shape", sc["_pshape"])
        rep.count("scheme", "wss" if sc["_secure"] else "ws")
        steps = [[1, 0, s[1]] if s[0] == "data" else [{"eof": 2, "oserr": 3, "exc": 4}[s[0]], 0] for s in sc["proxy_script"]]
        mreq.append([32, steps])
        if sc["_proxy"]:
            phost, pport, purl, user, pw, pscheme = sc["_proxy"]
            # the model reads the proxy URL itself (Url.parse_url: host, port, TLS flag, user name and password) and computes
            # the Basic credentials token (Digest.proxy_credentials)
            mreq.append([41, purl.encode(), sc["_target"][0].encode(), sc["_target"][1]])
        else:
            mreq.append([31, b"", 0, []])
    mres = model.run(mreq) if model is not None else None
    # the whole attempt in the model (run_via_proxy, the subject of C19_request_only_over_tunnel): its events and whether the
    # upgrade request is written
    mruns = model.run([[33, r[1]] for r in mreq[0::2]]) if model is not None else None
    rep.watch_extraction(model, mreq)
    dis = 0
    localised = 0
    for i, sc in enumerate(scs):
        events, ops, escaped, run_ = run_case(sc)
        rep.add_case(repr((sc["url"], sorted((sc["proxies"] or {}).items(), key=str), sorted(sc["env"].items()), sc["proxy_script"], sc.get("connect_ok"), sc.get("send_fault"))))
        rep.traces_vs_impl += 1
        res = oracle(sc, events, ops, escaped)
        if res:
            store, note = sc, ""
            if localised < 2:
                # this process has been through i other connections: does the scenario fail alone in a fresh interpreter, or
                # only after one of them?
                localised += 1
                alone = fam.fresh_run([sc], runner="harness.c19:_fresh_worker")[0]
                if alone is not None and alone[0] is not None and not oracle(sc, *alone):
                    note = " (seen in a process that had made other connections before; alone in a fresh interpreter the scenario behaves)"
                    seen = set()
                    for q in scs[:i]:
                        k = (q["_pshape"], q["_rk"] in ("200",), q["_secure"])
                        if k in seen or len(seen) > 40:
                            continue
                        seen.add(k)
                        r2 = fam.fresh_run([q, sc], runner="harness.c19:_fresh_worker")[1]
                        if r2 is not None and r2[0] is not None and oracle(sc, *r2):
                            store = dict(sc, previously=[q])
                            note = " (only after an earlier connection of the same process, stored with the scenario)"
                            break
            rep.violation(res[0] + note, scenario=fam.jsonable_sc(store),
                          expected=sc["_expect"], actual=dict(events=events, ops=[(o[0],) + tuple(x if not isinstance(x, bytes) else x[:60] for x in o[1:]) for o in ops][:30]), family="C19:proxy-replies")
        if mres is not None and not sc["_direct"] and sc.get("connect_ok", True) and sc.get("send_fault") is None:
            m_out = mres[2 * i]
            names = [e[0] for e in events]
            impl_out = 0 if "connected" in names else (2 if "blocked" in names else 1)
            sends = [o[1] for o in ops if o[0] == "send"]
            # run_via_proxy: Connecting, then Connected (and the request written) / ConnectFail / still waiting
            mtr = mruns[i]
            m_events = [it[1][0] for it in mtr if it[0] == 0]
            m_request = any(it[0] == 3 for it in mtr)
            code = {"connecting": 0, "connect_fail": 1, "connected": 2}
            i_events = [code[n] for n in names if n in code]
            i_request = len(sends) > 1 and sends[1].startswith(b"GET ")
            mp = mres[2 * i + 1]          # (proxy host, proxy port, TLS to the proxy, CONNECT request) as the model reads the proxy URL
            resolved = [o for o in ops if o[0] == "resolve"][:1]
            m_where = [mp[0], mp[1]] if mp else None
            i_where = [resolved[0][1].encode() if not isinstance(resolved[0][1], bytes) else resolved[0][1], resolved[0][2]] if resolved else m_where
            if m_out != impl_out or (sends and (not mp or sends[0] != mp[3])) or m_events != i_events or m_request != i_request or m_where != i_where:
                dis += 1
                if dis == 1:
                    first = (sc["url"], sc["proxies"], sc["proxy_script"][:5], m_out, impl_out, sends[:1], mp, i_where)
        if len(rep.samples) < 3:
            rep.sample(dict(url=sc["url"], proxies=sc["proxies"], reply=sc["_rk"], events=events))
    if dis and not rep.violations:
        rep.broken("correspondence C19: model and implementation disagree on %d cases; first %r" % (dis, first))
    rep.families.append(dict(name="C19:proxy-replies", cases=n, disagreements=dis,
                             rule="real WebsocketSession._connect/_connect_proxy against a fake socket module: proxy URL shapes (default/explicit port, credentials with/without password, https proxy, empty/None/absent entry, entry for the other scheme only, no proxies argument with HTTP_PROXY/HTTPS_PROXY in the environment, an explicit -- also empty -- argument against a populated environment, a no_proxy list in the environment that names the target or not) x ws/wss targets x replies (200, other statuses, a 1xx block followed by a 200 block, terminated blocks of 16380..16392 bytes, unterminated+EOF, oversize, empty, socket error / exception at any recv, garbage, refused connect, failing CONNECT write) in every segmentation; all socket operations are logged and judged"))
    if not proof_ok and not rep.violations:
        rep.broken("proof obligation props/C19.v no longer checks: %s" % (rep.coq_failure,))


def _fresh_worker(args):
    sc, _opts = args
    try:
        for prev in sc.get("previously", ()):
            run_case(prev)
        events, ops, escaped, _run = run_case(sc)
        return events, ops, escaped
    except BaseException:
        return None, None, None


def replay(body):
    sc = fam.unjson_sc(body["scenario"])
    if "_expect" not in sc:
        print("this replay file predates the stored oracle metadata: re-run /venv/bin/python /verif/check.py C19 quick")
        return 2

    def fix(s):
        s = dict(s)
        s["proxy_script"] = [tuple(x) for x in s["proxy_script"]]
        return s
    for prev in sc.get("previously", ()):
        run_case(fix(prev))
    events, ops, escaped, _run = run_case(fix(sc))
    print("events:", events)
    print("socket operations:", [(o[0],) + tuple(x if not isinstance(x, bytes) else x[:70] for x in o[1:]) for o in ops][:20])
    res = oracle(sc, events, ops, escaped)
    print("REPLAY:", ("VIOLATION reproduced: %s" % res[0]) if res else "property holds on this input")
    return 1 if res else 0
