"""C03 -- every frame the client writes is a valid client frame that round-trips."""
from __future__ import print_function
import json
import random

from . import core, fam, scen, simnet, ref6455

E = ref6455.encode_frame


def expected_frame(action, deflate_on=False, ctape=None):
    """(opcode, payload, rsv) the RFC says must go out for an accepted call; None = the call must be refused"""
    k = action[0]
    if k == "text":
        return (1, action[1], 0)
    if k == "binary":
        return (2, action[1], 0)
    if k == "ping":
        return (9, action[1], 0) if len(action[1]) <= 125 else None
    if k == "pong":
        return (10, action[1], 0) if len(action[1]) <= 125 else None
    if k == "close":
        p = ref6455.close_payload(action[1], action[2])
        return (8, p, 0) if len(p) <= 125 else None
    return None


def lengths(tier):
    ls = list(range(0, 301)) + list(range(65500, 65601))
    if tier == "thorough":
        ls += list(range(301, 1200, 7)) + list(range(65000, 66100, 3)) + [70000, 100000, 1 << 17, (1 << 20) + 3]
    return ls


def make_scenarios(rnd, tier):
    scs = []
    ls = lengths(tier)
    rnd.shuffle(ls)
    keys_special = [b"\x00\x00\x00\x00", b"\xff\xff\xff\xff", b"\xff\x00\x00\x00", b"\x00\xff\x00\x00", b"\x00\x00\xff\x00", b"\x00\x00\x00\xff"]
    # data frames of every length, grouped 10 calls per connection
    for i in range(0, len(ls), 10):
        acts = []
        for n in ls[i:i + 10]:
            if rnd.random() < 0.5:
                acts.append(("binary", scen.rand_bytes(rnd, n), rnd.random() < 0.5))
            else:
                acts.append(("text", scen.rand_text(rnd, n), rnd.random() < 0.5))
        ks = [rnd.choice(keys_special) if rnd.random() < 0.3 else bytes(bytearray(rnd.getrandbits(8) for _ in range(4))) for _ in acts]
        scs.append(_sc(acts, ks))
    # control frames: every length 0..130
    for i in range(0, 131, 10):
        acts = []
        for n in range(i, min(i + 10, 131)):
            acts.append((rnd.choice(["ping", "pong"]), scen.rand_bytes(rnd, n)))
        scs.append(_sc(acts, scen.keys(rnd, len(acts))))
    # close: codes x reason lengths (bytes; the str variant is exercised by the type family)
    # (every code of the 1000..1015 block -- also the ones that are reserved for local use, 1004/1005/1006/1015: what the application
    #  asks for is what goes out, or the call is refused -- and the edges of the other blocks)
    for code in [None, 0, 999, 2999, 3000, 3999, 4000, 4999, 5000, 65535] + list(range(1000, 1017)):
        for rl in [0, 1, 122, 123, 124, 200]:
            reason = scen.rand_text(rnd, rl)
            # after an accepted close everything else is refused: one close per connection, plus a probe send
            scs.append(_sc([("close", code, reason), ("text", b"after", True), ("ping", b"")], scen.keys(rnd, 3)))
    # all byte values / all planes
    scs.append(_sc([("binary", bytes(range(256)) * 3, True), ("text", "".join(chr(c) for c in [0, 0x7F, 0x80, 0x7FF, 0x800, 0xFFFF, 0x10000, 0x10FFFF, 0xD7FF, 0xE000]).encode("utf-8"), True)], scen.keys(rnd, 2)))
    for plane in range(17):
        chars = [chr(plane * 0x10000 + off) for off in (0x100, 0x2000, 0xFFFD) if not (0xD800 <= plane * 0x10000 + off < 0xE000)]
        scs.append(_sc([("text", "".join(chars).encode("utf-8"), True)], scen.keys(rnd, 1)))
    return scs


def _sc(acts, ks):
    # event index 2 is Ready
    sc = dict(cfg=simnet.default_cfg(), steps=[("data", 0, scen.HANDSHAKE), ("eof", 0)], app={2: list(acts)}, keys=list(ks), key16=scen.KEY16)
    sc["_acts"] = list(acts)
    sc["_keys"] = list(ks)
    return sc


def oracle(sc, tr, extra):
    out = []
    if extra.get("escaped"):
        return ["exception %s escaped the iterator" % extra["escaped"]]
    tl = fam.timeline(sc, tr)
    calls = []
    cur_writes = []
    seen_ready = False
    for x in tl:
        if x["kind"] == "ev" and x["code"] == 4:
            seen_ready = True
            cur_writes = []
        elif x["kind"] == "write" and seen_ready:
            cur_writes.append(x)
        elif x["kind"] == "call":
            calls.append((x, cur_writes))
            cur_writes = []
        elif x["kind"] == "ev" and seen_ready and x["code"] != 5:
            break
    acts = sc["_acts"]
    keys = list(sc["_keys"])
    closed = False
    if len(calls) != len(acts):
        return ["harness: %d call results for %d calls" % (len(calls), len(acts))]
    for act, (call, ws) in zip(acts, calls):
        exp = expected_frame(act)
        key = keys.pop(0) if keys else b"\x00" * 4     # a key is drawn for every frame that gets built
        if exp is None:
            keys.insert(0, key)                         # refused before any frame is built
            if call["result"] not in (1, 2):
                out.append("%s with an oversize control payload (%d bytes) did not raise TypeError/ValueError (result %s)" % (act[0], len(act[-1]), call["result"]))
            if ws:
                out.append("a refused %s call wrote %d frame(s)" % (act[0], len(ws)))
            continue
        if closed:
            if call["result"] == 0 and act[0] != "close":
                out.append("%s after close() was accepted" % act[0])
            if [w for w in ws if w["ok"]]:
                out.append("%s after close() wrote a frame" % act[0])
            continue
        if call["result"] != 0:
            out.append("%s(%d bytes) was refused (result %s)" % (act[0], len(exp[1]), call["result"]))
            continue
        if len(ws) != 1:
            out.append("%s(%d bytes) wrote %d frames (expected exactly one)" % (act[0], len(exp[1]), len(ws)))
            continue
        fr = ws[0]["frame"]
        if fr is None:
            out.append("%s(%d bytes) wrote bytes that are not exactly one complete frame: %s" % (act[0], len(exp[1]), bytes(ws[0]["raw"])[:16].hex()))
            continue
        op, payload, rsv = exp
        if fr["fin"] != 1:
            out.append("FIN not set on a %s frame" % act[0])
        if not fr["masked"]:
            out.append("%s frame is not masked" % act[0])
        elif fr["key"] != key:
            out.append("%s frame is masked with %s, the key drawn for it is %s" % (act[0], fr["key"].hex(), key.hex()))
        if not fr["minimal"]:
            out.append("%s frame of %d bytes does not use the shortest length encoding" % (act[0], fr["length"]))
        if fr["rsv"] != rsv:
            out.append("reserved bits %d set on a %s frame without negotiated compression" % (fr["rsv"], act[0]))
        if fr["op"] != op:
            out.append("%s was written with opcode %d" % (act[0], fr["op"]))
        if fr["payload"] != payload:
            out.append("unmasking the %s frame does not give back the caller's payload (%d bytes expected, %d found; first difference at %s)" % (
                act[0], len(payload), len(fr["payload"]), next((i for i, (a, b) in enumerate(zip(payload, fr["payload"])) if a != b), "length")))
        if op >= 8 and len(fr["payload"]) > 125:
            out.append("a control frame with %d payload bytes was written" % len(fr["payload"]))
        if act[0] == "close":
            closed = True
    return out


# ---------------------------------------------------------------- failing writes
def fault_scenarios(rnd, n):
    """a few sends, one of which hits a failing sendall (reset, interrupted call, broken pipe, full buffer, ... in turn)"""
    scs = []
    for i in range(n):
        k = rnd.choice([2, 3, 4, 5])
        acts = []
        for _ in range(k):
            r = rnd.random()
            if r < 0.4:
                acts.append(("text", scen.rand_text(rnd, rnd.choice([0, 5, 130, 70000])), True))
            elif r < 0.7:
                acts.append(("binary", scen.rand_bytes(rnd, rnd.choice([0, 1, 126, 300])), True))
            elif r < 0.85:
                acts.append(("ping", scen.rand_bytes(rnd, rnd.choice([0, 4, 125]))))
            else:
                acts.append(("pong", scen.rand_bytes(rnd, rnd.choice([0, 4, 125]))))
        j = rnd.randrange(0, k)
        sc = _sc(acts, scen.keys(rnd, k + 1))
        sc["wfaults"] = ["ok"] * (1 + j) + [rnd.choice(["oserr", "oserr", "exc"])] + (["oserr"] if rnd.random() < 0.3 else [])
        sc["_fault_at"] = j
        scs.append(sc)
    return scs


def fault_oracle(sc, tr, extra):
    if extra.get("escaped"):
        return ["exception %s escaped the iterator" % extra["escaped"]]
    out = []
    tl = fam.timeline(sc, tr)
    attempts = 0
    seen_ready = False
    for x in tl:
        if x["kind"] == "ev" and x["code"] == 4:
            seen_ready = True
        elif x["kind"] == "write" and seen_ready:
            attempts += 1
        elif x["kind"] == "call":
            if attempts > 1:
                out.append("one %s call made %d sendall attempts: after a failed (possibly partial) write the same bytes were written again" % (x["action"][0] if x["action"] else "api", attempts))
            attempts = 0
    return out[:2]


# ---------------------------------------------------------------- argument types (implementation side only)
def type_family(rep):
    from . import simnet as S
    cases = []
    # (text that has no UTF-8 encoding -- unpaired surrogates, as os.fsdecode produces them -- cannot be sent as a text message)
    text_args = ["plain", "ünï €", "\U0001F600" * 3, "", b"bytes", bytearray(b"ba"), memoryview(b"mv"), 7, None, ["l"], 1.5,
                 "caf\udce9", "\ud800", "ok \udfff end", "\ud83d", "a" * 200 + "\udc80", "\ufeffbom first", "\ufffd\uffff"]
    bin_args = [b"", b"bytes", bytes(range(256)), "str", bytearray(b"ba"), memoryview(b"mv"), 7, None, [1]]
    results = []

    def run_calls(calls):
        """connect a real websocket over the sim net, perform calls at Ready, return [(exc class name or None, frames written)]"""
        res = []
        sc = dict(cfg=S.default_cfg(), steps=[("data", 0, scen.HANDSHAKE), ("eof", 0)], keys=[b"\x12\x34\x56\x78"] * (len(calls) + 2), key16=scen.KEY16)
        import lomond.session as LS
        import lomond.frame as LF
        import lomond.websocket as LW
        run = S.Run(sc)

        class Sess(LS.WebsocketSession):
            def _connect(self):
                run.sock = S.SimSocket(run)
                return run.sock, None

            def _selector_cls(self, sock):
                run.selector = S.SimSelector(sock, run)
                return run.selector
        old = (LS.time, LF.make_masking_key, LW.os)
        LS.time = run.clock
        LF.make_masking_key = run.next_key
        LW.os = S._OsProxy(LW.os, scen.KEY16)
        try:
            ws = LW.WebSocket("ws://example.test/")
            for ev in ws.connect(session_class=Sess):
                if ev.name == "ready":
                    for meth, args, kwargs in calls:
                        n0 = len(run.trace)
                        snap = [bytes(a) if isinstance(a, (bytes, bytearray, memoryview)) else a for a in args]
                        try:
                            getattr(ws, meth)(*args, **kwargs)
                            exc = None
                        except Exception as e:
                            # (UnicodeEncodeError and the like are ValueErrors)
                            exc = "ValueError" if isinstance(e, ValueError) else "TypeError" if isinstance(e, TypeError) else type(e).__name__
                        after = [bytes(a) if isinstance(a, (bytes, bytearray, memoryview)) else a for a in args]
                        res.append((exc, [it for it in run.trace[n0:] if it[0] in (1, 2)], snap == after))
        finally:
            LS.time, LF.make_masking_key, LW.os = old
        return res

    calls = []
    for a in text_args:
        calls.append(("send_text", (a,), {}))
    for a in bin_args:
        calls.append(("send_binary", (a,), {}))
        calls.append(("send_ping", (a,), {}))
        calls.append(("send_pong", (a,), {}))
    calls.append(("send_json", ({"a": [1, 2, "x"], "é": None},), {}))
    calls.append(("send_json", (), {"foo": "bar"}))
    calls.append(("send_json", (object(),), {}))
    calls.append(("send_json", ({"a": 1},), {"b": 2}))
    # values that are false in Python are JSON all the same
    for v in (None, [], "", 0, 0.0, False, {}, (), [0], " "):
        calls.append(("send_json", (v,), {}))
    calls.append(("send_json", (None,), {"foo": "bar"}))
    calls.append(("send_json", ([],), {"foo": "bar"}))
    calls.append(("send_json", (), {}))
    calls.append(("send_ping", (b"x" * 126,), {}))
    calls.append(("send_pong", (b"x" * 200,), {}))
    res = run_calls(calls)
    n = 0
    for (meth, args, kwargs), (exc, writes, unchanged) in zip(calls, res):
        n += 1
        a = args[0] if args else None
        rep.add_case(("types", meth, type(a).__name__, repr(a)[:30]))
        if meth == "send_text":
            ok_type = isinstance(a, str)
            if ok_type:
                try:
                    exp_payload = a.encode("utf-8")
                except UnicodeEncodeError:
                    ok_type, exp_payload = False, None
            else:
                exp_payload = None
            op = 1
        elif meth == "send_json":
            try:
                ok_type = not (kwargs and args)
                exp_payload = json.dumps(a if args else kwargs).encode("utf-8") if ok_type else None
            except TypeError:
                ok_type, exp_payload = False, None
            op = 1
        else:
            ok_type = isinstance(a, bytes) and not (meth in ("send_ping", "send_pong") and len(a) > 125)
            exp_payload = a if ok_type else None
            op = {"send_binary": 2, "send_ping": 9, "send_pong": 10}[meth]
        complaint = None
        if not unchanged:
            complaint = "%s modified the caller's argument" % meth
        elif ok_type:
            if exc is not None:
                complaint = "%s(%s) raised %s" % (meth, type(a).__name__, exc)
            elif len(writes) != 1:
                complaint = "%s wrote %d frames" % (meth, len(writes))
            else:
                fr = ref6455.decode_client_frame(writes[0][1])
                if fr is None or fr["op"] != op or fr["payload"] != exp_payload or not fr["masked"] or fr["fin"] != 1 or fr["rsv"] != 0 or not fr["minimal"]:
                    complaint = "%s(%r) wrote a wrong frame" % (meth, a if not isinstance(a, (bytes, str)) else a[:20])
        else:
            if exc not in ("TypeError", "ValueError"):
                complaint = "%s(%s%s) should raise TypeError/ValueError, got %s" % (meth, type(a).__name__, " + kwargs" if kwargs else "", exc)
            elif writes:
                complaint = "%s(%s) raised %s but wrote %d frame(s)" % (meth, type(a).__name__, exc, len(writes))
        if complaint:
            rep.violation(complaint, scenario=dict(kind="types", method=meth, arg=repr(a)[:80], kwargs=repr(kwargs)), family="C03:argument-types")
    # close with str reasons (text is encoded as UTF-8; the limit is on bytes)
    for reason in ["", "bye", "é" * 61, "é" * 62, "€" * 41, "€" * 42, "\U0001F600" * 30, "\U0001F600" * 31, "x" * 123, "x" * 124]:
        res = run_calls([("close", (1000, reason), {}), ("send_text", ("after",), {})])
        rep.add_case(("close-str", reason))
        n += 1
        (exc, writes, _), (exc2, writes2, _) = res
        payload = b"\x03\xe8" + reason.encode("utf-8")
        if len(payload) <= 125:
            fr = ref6455.decode_client_frame(writes[0][1]) if len(writes) == 1 else None
            if exc is not None or fr is None or fr["op"] != 8 or fr["payload"] != payload or not fr["minimal"]:
                rep.violation("close(1000, %r) did not write exactly one Close frame with code+reason (exc=%s, %d writes)" % (reason[:10], exc, len(writes)),
                              scenario=dict(kind="close-str", reason=reason), family="C03:argument-types")
        else:
            if exc not in ("ValueError", "TypeError") or writes:
                rep.violation("close(1000, <%d-byte reason as str of %d chars>) must raise ValueError and write nothing (exc=%s, %d writes, payload %d bytes)" % (
                    len(payload) - 2, len(reason), exc, len(writes), len(payload)), scenario=dict(kind="close-str", reason=reason), family="C03:argument-types")
            elif exc2 is not None:
                rep.violation("after a refused close() the websocket no longer accepts sends (%s)" % exc2, scenario=dict(kind="close-str", reason=reason), family="C03:argument-types")
    rep.families.append(dict(name="C03:argument-types", cases=n, rule="every send method x argument type in {str (all planes), bytes, bytearray, memoryview, int, None, list, float}, send_json positional/keyword/unserialisable/both, oversize ping/pong, close with str reasons around the 123-byte limit measured in UTF-8 bytes; caller's argument compared before/after"))


def xor_table(rep):
    from lomond import mask
    bad = 0
    for b in range(256):
        row = mask._XOR_TABLE[b]
        for a in range(256):
            if row[a] != (a ^ b):
                bad += 1
    rep.add_case("xor-table")
    # and the function itself on all lanes
    data = bytearray(range(256)) * 2
    mask.mask_payload(b"\x01\x80\xff\x10", data)
    exp = bytearray(v ^ b"\x01\x80\xff\x10"[i % 4] for i, v in enumerate(bytearray(range(256)) * 2))
    if bad or data != exp:
        rep.violation("mask_payload / _XOR_TABLE is not byte-wise xor with key[i mod 4] (%d wrong table entries)" % bad, scenario=dict(kind="xor"), family="C03:xor-table")
    rep.families.append(dict(name="C03:xor-table", cases=65536, rule="all 65536 entries of mask._XOR_TABLE against a xor b; mask_payload on all byte values x 4 lanes", exhaustive=True))
    rep.exhaustive["mask._XOR_TABLE"] = True


def run(rep, info, model, tier, seed):
    rnd = random.Random(seed)
    proof_ok = rep.proof_obligations(info, "props/C03.v")
    scs = make_scenarios(rnd, tier)
    for sc in scs:
        for a in sc["_acts"]:
            rep.count("call", a[0])
            n = len(a[1]) if a[0] != "close" else len(a[2])
            rep.count("len_class", "<126" if n < 126 else ("<65536" if n < 65536 else ">=65536"))
    fam.run_family(rep, model, "C03:api-calls", scs, oracle, project=fam.no_waits,
                   rule="accepted and refused calls of send_text/send_binary/send_ping/send_pong/close on a ready websocket: every payload length 0..300 and 65500..65600 (thorough: more, up to 2^20), control payloads 0..130, close codes x reason lengths {0,1,122,123,124,200}, all byte values, all 17 Unicode planes, random and special masking keys; every sendall is decoded by the harness' own RFC 6455 decoder (FIN, MASK, key, minimal length, RSV, opcode, unmasked payload) and compared byte-for-byte with the model's Frame.build")
    fscs = fault_scenarios(rnd, 150 if tier == "quick" else 3000)
    fam.run_family(rep, model, "C03:failing-writes", fscs, fault_oracle, project=fam.no_waits,
                   rule="2-5 sends with one or two failing sendall calls (connection reset, EINTR, EPIPE, EAGAIN, arbitrary exceptions, error texts with format characters): the failing call raises and writes nothing more, the other calls write exactly their frame; results and bytes compared with the model")
    # connections with permessage-deflate: what the client writes must inflate, in wire order, to what was sent; a send with
    # compress=False must go out raw.  Several connections per process, so that anything shared between compressors shows.
    from . import c06
    zscs = [c06.gen(rnd, rnd.choice([9, 12, 15]), rnd.choice([8, 10, 15]), rnd.random() < 0.3, rnd.random() < 0.4) for _ in range(60 if tier == "quick" else 1500)]
    fam.run_family(rep, model, "C03:frames-on-compressed-connections", zscs, c06.oracle, project=lambda t: [it for it in t if it[0] != 10],
                   rule="message histories on connections that negotiated permessage-deflate (several per worker process): every data frame the client writes is decoded, RSV1 set exactly for sends with compress=True, and an independent RFC 7692 peer inflates the payloads in wire order to the messages sent")
    type_family(rep)
    xor_table(rep)
    if not proof_ok and not rep.violations:
        rep.broken("proof obligation props/C03.v no longer checks: %s" % (rep.coq_failure,))


def replay(body):
    from . import c06
    if (body["scenario"] or {}).get("kind"):
        # the argument-type family runs in this process on objects that have no literal form (memoryview, object(), ...): the
        # whole (small) family is run again and the stored case looked up among its complaints
        class R(object):
            def __init__(self):
                self.v, self.families, self.exhaustive = [], [], {}

            def add_case(self, *a, **k):
                pass

            def count(self, *a, **k):
                pass

            def violation(self, what, scenario=None, **k):
                self.v.append((what, scenario))

            def broken(self, what):
                self.v.append((what, None))
        r = R()
        type_family(r)
        want = body["scenario"]
        hit = [w for w, sc in r.v if sc == want]
        print("REPLAY:", ("VIOLATION reproduced: %s" % hit[0]) if hit else "property holds on this input")
        return 1 if hit else 0

    def fix(sc):
        if "_acts" in sc:
            sc["_acts"] = [tuple(a) for a in sc["_acts"]]
        if "_params" in sc:
            sc["_params"] = tuple(sc["_params"])
        return sc
    return fam.replay_generic(body, {"C03:api-calls": oracle, "C03:failing-writes": fault_oracle, "C03:frames-on-compressed-connections": c06.oracle}, fix)
