"""C09 -- transport failures become events, never exceptions or hangs."""
from __future__ import print_function
import random
import socket as _socket
import sys

from . import core, fam, scen, simnet, ref6455

E = ref6455.encode_frame


def base_scenarios(rnd, n):
    out = []
    for _ in range(n):
        msgs = [scen.gen_message(rnd, big_ok=False) for _ in range(rnd.choice([1, 2, 3, 5]))]
        frames, completed = scen.wire_plan(rnd, msgs)
        body = scen.render(frames)
        tail = b""
        k = rnd.random()
        if k < 0.25:
            tail = E(8, ref6455.close_payload(1000, b"bye"))
        app = {}
        for _ in range(rnd.choice([0, 1, 2])):
            i = rnd.randrange(1, 8)
            app[i] = app.get(i, []) + [rnd.choice([("text", b"hello", True), ("ping", b"x"), ("binary", b"\x00\x01", True), ("close", 1000, b"c")])]
        out.append((scen.HANDSHAKE + body + tail, app))
    return out


def faulted(rnd, stream, app, tier):
    """one fault of each kind at every socket operation of the scenario"""
    scs = []
    cfg = simnet.default_cfg(ping_rate=rnd.choice([0, 3 * 1024]), close_timeout=rnd.choice([None, 10 * 1024]))
    ks = scen.keys(rnd, 16)

    def mk(steps, **kw):
        sc = dict(cfg=cfg, steps=steps, app=app, keys=list(ks), key16=scen.KEY16)
        sc.update(kw)
        return sc
    whole = scen.chunkings(rnd, stream, "random")
    # connect failures
    for how in ("sockfail", "exc", "exc", "exc", "exc", "exc"):
        sc = mk(scen.steps_from_chunks(whole), connect=how, salt=len(scs))
        sc["_fault"] = "connect-" + how
        scs.append(sc)
    # k-th sendall fails (0 = upgrade request)
    for k in range(0, 6):
        for wf in ("oserr", "exc"):
            sc = mk(scen.steps_from_chunks(whole, dt=1024), wfaults=["ok"] * k + [wf], salt=rnd.randrange(0, 7))
            sc["_fault"] = "sendall-%d-%s" % (k, wf)
            scs.append(sc)
            # the same write fault, followed by a silent peer (no EOF): only a timeout can end the connection
            sc = mk(scen.steps_from_chunks(whole, dt=1024, end=None) + [("timeout", 5120)] * 8, wfaults=["ok"] * k + [wf])
            sc["cfg"] = dict(cfg, close_timeout=10 * 1024)
            sc["_fault"] = "sendall-%d-%s-silent" % (k, wf)
            sc["_silent"] = True
            scs.append(sc)
    # recv fault at (nearly) every byte offset
    n = len(stream)
    offsets = range(0, n + 1) if (tier == "thorough" or n < 120) else sorted(set(list(range(0, 12)) + [rnd.randrange(0, n + 1) for _ in range(40)] + [n - 1, n]))
    for o in offsets:
        for fk in ("eof", "oserr", "exc"):
            pre = stream[:o]
            chunks = scen.chunkings(rnd, pre, rnd.choice(["one", "random"])) if pre else []
            sc = mk(scen.steps_from_chunks(chunks, dt=300, end=fk))
            sc["_fault"] = "recv-%s" % fk
            scs.append(sc)
    # selector wait raises at step k
    for k in range(0, min(len(whole), 4) + 1):
        st = scen.steps_from_chunks(whole[:k], dt=300, end="selexc")
        sc = mk(st)
        sc["_fault"] = "selector"
        scs.append(sc)
    return scs


def oracle(sc, tr, extra):
    out = []
    if extra.get("escaped"):
        return ["exception %s escaped the event iterator (fault: %s)" % (extra["escaped"], sc.get("_fault"))]
    tl = fam.timeline(sc, tr)
    evs = [x for x in tl if x["kind"] == "ev"]
    if any(x["kind"] == "blocked" for x in tl):
        if sc.get("_silent"):
            from . import c07
            due = c07.timeout_due(sc, tr)
            return [due + " (fault: %s)" % sc.get("_fault")] if due else []
        return ["the iterator is left waiting forever after the fault %s" % sc.get("_fault")]
    if not evs:
        return ["no events at all"]
    last = evs[-1]
    connected = any(x["code"] == 2 for x in evs)
    if not connected:
        if last["code"] != 1:
            out.append("a failure before the connection was up did not end with ConnectFail (last event code %d)" % last["code"])
    else:
        if last["code"] != 14:
            out.append("a failure after Connected did not end with Disconnected (last event code %d)" % last["code"])
        else:
            client_close = any(x["kind"] == "write" and x["frame"] and x["frame"]["op"] == 8 for x in tl) or \
                any(x["kind"] == "call" and x["action"] and x["action"][0] == "close" for x in tl)
            server_close = any(x["code"] in (10, 11) for x in evs)
            rejected = any(x["code"] == 3 for x in evs)
            if not client_close and not server_close and not rejected and last["fields"] != [0]:
                out.append("Disconnected(graceful=True) although neither side had started the closing handshake (fault: %s)" % sc.get("_fault"))
        if extra.get("sock_closed") is False:
            out.append("the socket was not closed after the failure (fault: %s)" % sc.get("_fault"))
    for x in tl:
        if x["kind"] == "call" and x["result"] in (97, 98):
            out.append("an application call raised something that is not a WebSocketError/TypeError/ValueError")
    return out


# ---------------------------------------------------------------- _connect_sock against a fake socket module
class FakeSockMod(object):
    AF_UNSPEC = 0
    SOCK_STREAM = 1
    IPPROTO_TCP = 6
    TCP_NODELAY = 1
    SHUT_RDWR = 2
    error = _socket.error

    def __init__(self, resolve_ok, create_ok, connect_ok, v6=False):
        self.v6 = v6
        self.resolve_ok = resolve_ok
        self.create_ok = list(create_ok)
        self.connect_ok = list(connect_ok)
        self.log = []
        self.socks = []

    def getaddrinfo(self, host, port, *a):
        self.log.append(("resolve", host, port))
        if not self.resolve_ok:
            raise _socket.gaierror(-2, "Name or service not known")
        return [self.addrinfo(i, port) for i in range(len(self.connect_ok))]

    def name(self, i):
        return ("fd00::%d" % i) if (self.v6 and i % 2 == 0) else ("10.0.0.%d" % i)

    def addrinfo(self, i, port):
        # dual-stack hosts: IPv6 entries carry a 4-tuple sockaddr (host, port, flowinfo, scope id)
        if self.v6 and i % 2 == 0:
            return (10, 1, 6, "", (self.name(i), port, 0, 0))
        return (2, 1, 6, "", (self.name(i), port))

    def socket(self, af, st, proto):
        i = len(self.socks)
        if not self.create_ok[i]:
            self.socks.append(None)
            self.log.append(("create-fail", i))
            raise _socket.error(24, "Too many open files")
        mod = self

        class S(object):
            closed = False

            def setsockopt(self, *a):
                pass

            def settimeout(self, t):
                pass

            def connect(self, sa):
                mod.log.append(("connect", sa[0]))
                if not mod.connect_ok[i]:
                    raise _socket.error(111, "Connection refused")

            def close(self):
                self.closed = True
        s = S()
        self.socks.append(s)
        return s


# ---------------------------------------------------------------- the real selector on a real descriptor
def real_selector_family(rep, only=None):
    """the platform selector (poll/select) on a real socketpair: when the descriptor is closed under the running loop --
    session.close() from another thread, as `with ws:` does, or the socket object closed directly -- the iterator must
    still end with Disconnected"""
    import base64
    import hashlib
    import socket as rsock
    import threading
    import time as rtime
    import lomond.session as S
    import lomond.websocket as W
    n = 0
    for how in (only or ("session.close", "socket.close")):
        a, b = rsock.socketpair()
        b.settimeout(5)

        class Sess(S.WebsocketSession):
            def _connect(self):
                return a, None
        ws = W.WebSocket("ws://example.test/")
        events = []
        done = threading.Event()

        def run():
            try:
                for ev in ws.connect(session_class=Sess, poll=0.2, ping_rate=0, close_timeout=None):
                    events.append(ev.name)
            except BaseException as e:
                events.append("escaped:" + type(e).__name__)
            done.set()
        th = threading.Thread(target=run)
        th.daemon = True
        th.start()
        try:
            req = b""
            while b"\r\n\r\n" not in req:
                req += b.recv(4096)
            key = [l.split(b":", 1)[1].strip() for l in req.split(b"\r\n") if l.lower().startswith(b"sec-websocket-key")][0]
            acc = base64.b64encode(hashlib.sha1(key + b"258EAFA5-E914-47DA-95CA-C5AB0DC85B11").digest())
            b.sendall(b"HTTP/1.1 101 Switching Protocols\r\nUpgrade: websocket\r\nConnection: Upgrade\r\nSec-WebSocket-Accept: " + acc + b"\r\n\r\n")
            t0 = rtime.time()
            while "ready" not in events and rtime.time() - t0 < 5:
                rtime.sleep(0.02)
            if how == "session.close":
                ws.session.close()
            else:
                a.close()
            finished = done.wait(6)
        finally:
            try:
                b.close()
            except Exception:
                pass
        n += 1
        rep.add_case(("real-selector", how))
        bad = None
        if "ready" not in events:
            bad = "harness: the real-socket connection never became ready (events %s)" % events
            rep.broken(bad)
            continue
        if not finished:
            bad = "the socket's descriptor was closed under the running loop (%s) but the iterator is still waiting after 6 s: events %s" % (how, events[-4:])
        elif any(e.startswith("escaped:") for e in events):
            bad = "an exception escaped the iterator after the descriptor was closed (%s): %s" % (how, events[-2:])
        elif events[-1] != "disconnected":
            bad = "the iteration ended without Disconnected after the descriptor was closed (%s): %s" % (how, events[-3:])
        if bad:
            rep.violation(bad, scenario=dict(kind="real-selector", how=how), family="C09:real-selector")
    rep.families.append(dict(name="C09:real-selector", cases=n, rule="real socketpair + lomond's platform selector: the descriptor is closed under the running loop by session.close() from another thread or by closing the socket object; Disconnected must follow within seconds"))


def judge_connect(resolve_ok, create_ok, connect_ok, v6, secure=False):
    """one outcome pattern of the real _connect_sock against the fake socket module; (complaint or None, expected, result, log)"""
    import lomond.session as S
    import lomond.websocket as W
    naddr = len(connect_ok)
    fake = FakeSockMod(resolve_ok, create_ok, connect_ok, v6)
    old = S.socket
    S.socket = fake
    try:
        ws = W.WebSocket("ws://example.test:8080/x")
        sess = S.WebsocketSession(ws)
        try:
            if secure:
                # wss:// (or an https proxy): the socket is wrapped before connect(); the wrapping itself is not under test here
                sess._wrap_socket = lambda sock, host: sock
                sock = sess._connect_sock("example.test", 8080, ssl=True)
            else:
                sock = sess._connect_sock("example.test", 8080)
            res = "ok"
        except S._SocketFail:
            sock = None
            res = "fail"
        except Exception as e:
            sock = None
            res = "exc:" + type(e).__name__
    finally:
        S.socket = old
    usable = [i for i in range(naddr) if create_ok[i] and connect_ok[i]] if resolve_ok else []
    exp = "ok" if usable else "fail"
    complaint = None
    if res != exp:
        complaint = "connect outcome %s, expected %s" % (res, exp)
    else:
        tried = [e[1] for e in fake.log if e[0] == "connect"]
        upto = (usable[0] + 1) if usable else naddr
        exp_tried = [fake.name(i) for i in range(upto) if create_ok[i]] if resolve_ok else []
        if tried != exp_tried:
            complaint = "addresses tried %s, expected %s (every address in order until the first success)" % (tried, exp_tried)
        else:
            for i, sk in enumerate(fake.socks):
                if sk is not None and not connect_ok[i] and not sk.closed:
                    complaint = "the socket of a failed connect attempt (address %d) was not closed" % i
            if usable and sock is not fake.socks[usable[0]]:
                complaint = "returned socket is not the first one that connected"
    # what happened, in the model's terms: index of the socket in use, operations in order (socket() failures, connects), closed sockets
    used = [i for i, sk in enumerate(fake.socks) if sk is not None and sk is sock]
    ops = []
    names = {fake.name(i): i for i in range(naddr)}
    for e in fake.log:
        if e[0] == "create-fail":
            ops.append([0, e[1]])
        elif e[0] == "connect":
            ops.append([1, names.get(e[1], -1)])
    closed = sorted(i for i, sk in enumerate(fake.socks) if sk is not None and sk.closed)
    judge_connect.last = (res, used[:1], ops, closed)
    return complaint, exp, res, fake.log


def connect_each(rep, tier, model=None):
    import itertools
    n_cases = 0
    seen = []
    for naddr in range(0, 5 if tier == "quick" else 6):
        for resolve_ok in (True, False):
            for create_ok in itertools.product((True, False), repeat=naddr):
                for v6 in ((False, True) if naddr else (False,)):
                    for connect_ok in itertools.product((True, False), repeat=naddr):
                      for secure in (False, True):
                        complaint, exp, res, log = judge_connect(resolve_ok, create_ok, connect_ok, v6, secure)
                        seen.append(((resolve_ok, create_ok, connect_ok, v6, secure), judge_connect.last))
                        n_cases += 1
                        rep.add_case(("connect_each", naddr, resolve_ok, create_ok, connect_ok, v6, secure))
                        if complaint:
                            rep.violation("_connect_sock%s: " % (" (TLS)" if secure else "") + complaint, scenario=dict(kind="connect_each", resolve_ok=resolve_ok, create_ok=list(create_ok), connect_ok=list(connect_ok), v6=v6, secure=secure),
                                          expected=exp, actual=dict(result=res, log=log), family="C09:connect-each-address")
    dis = 0
    first = None
    if model is not None:
        reqs = [[43, 1 if k[0] else 0, [[1 if a else 0, 1 if b else 0] for a, b in zip(k[1], k[2])]] for k, _ in seen]
        mres = model.run(reqs)
        rep.watch_extraction(model, reqs[:40])
        for (k, (res, used, ops, closed)), m in zip(seen, mres):
            if res.startswith("exc"):
                continue                  # judged by the oracle above
            m_used = [x for x in m[0]]
            m_ops = [[o[0], o[1]] for o in m[1] if o[0] in (0, 1)]
            m_closed = sorted(o[1] for o in m[1] if o[0] == 2)
            if m_used != used or m_ops != ops or m_closed != closed:
                dis += 1
                first = first or (k, (used, ops, closed), (m_used, m_ops, m_closed))
        if dis and not rep.violations:
            rep.broken("correspondence C09:connect-each-address: the real _connect_sock and Model.Connect.connect_sock differ on %d outcome patterns; first (pattern, implementation, model): %r" % (dis, first))
    rep.families.append(dict(name="C09:connect-each-address", cases=n_cases, disagreements=dis, rule="real WebsocketSession._connect_sock against a fake socket module: all outcome patterns (resolver ok/fail, per-address socket()/connect() ok/fail, IPv4-only or alternating IPv6/IPv4 answers, plain and with ssl=True) for up to %d addresses" % (4 if tier == "quick" else 5), exhaustive=True))
    rep.exhaustive["connect outcome patterns"] = True


def outage_attempts(seed, n):
    """n consecutive connection attempts, none of which reaches Ready (transport failures of every kind)"""
    from . import c16
    r = random.Random(seed)
    out = []
    while len(out) < n:
        a = c16.real_attempt(r)
        if not a["_kind"].startswith("ready"):
            out.append(a)
    return out


def judge_outage(seed, n):
    from . import c16
    return c16.judge_real(outage_attempts(seed, n))


def long_outage(rep, rnd, tier):
    """the reconnecting iterator (persist) is an event iterator too: a long outage -- more than a thousand consecutive
    failed attempts -- must go on producing ConnectFail/Disconnected and BackOff, never an exception"""
    lens = [1100] if tier == "quick" else [1100, 2200, 4400]
    for n in lens:
        seed = rnd.randrange(1 << 30)
        bad = judge_outage(seed, n)
        rep.add_case(("long-outage", n, seed))
        if bad:
            rep.violation(bad, scenario=dict(kind="long-outage", seed=seed, attempts=n), family="C09:long-outage")
    rep.families.append(dict(name="C09:long-outage", cases=len(lens), rule="persist() driving the REAL WebSocket/WebsocketSession over the simulated network through %s consecutive attempts that all fail before Ready (resolver/connect failure, request write failing, rejection, EOF, garbage, recv failure): nothing may escape the iterator, every attempt ends in ConnectFail/Disconnected and a BackOff, no socket stays open" % "/".join(map(str, lens))))


def run(rep, info, model, tier, seed):
    rnd = random.Random(seed)
    proof_ok = rep.proof_obligations(info, "props/C09.v")
    nb = 12 if tier == "quick" else 60
    scs = []
    for stream, app in base_scenarios(rnd, nb):
        scs += faulted(rnd, stream, app, tier)
    for sc in scs:
        rep.count("fault", sc["_fault"].split("-")[0] + ("-" + sc["_fault"].split("-")[-1] if "-" in sc["_fault"] else ""))
    fam.run_family(rep, model, "C09:fault-at-every-operation", scs, oracle, project=lambda t: t,
                   rule="for each base scenario: connect failure; sendall k=0..5 failing with OSError / arbitrary exception; the stream cut at (nearly) every byte offset followed by EOF / ECONNRESET / RuntimeError; selector wait raising at each step; oracle: nothing escapes next(), no hang, ConnectFail/Disconnected last, graceful=False unless a closing handshake had started, socket closed, application calls raise only WebSocketError subclasses")
    connect_each(rep, tier, model)
    real_selector_family(rep)
    long_outage(rep, rnd, tier)
    if not proof_ok and not rep.violations:
        rep.broken("proof obligation props/C09.v no longer checks: %s" % (rep.coq_failure,))


def replay(body):
    sc = fam.unjson_sc(body["scenario"])
    if sc.get("kind") == "real-selector":
        class R(object):
            def __init__(self):
                self.v, self.b, self.families = [], [], []

            def add_case(self, *a, **k):
                pass

            def violation(self, what, **k):
                self.v.append(what)

            def broken(self, what):
                self.b.append(what)
        r = R()
        real_selector_family(r, only=(sc["how"],))
        if r.b:
            print(r.b[0])
            return 2
        print("REPLAY:", ("VIOLATION reproduced: %s" % r.v[0]) if r.v else "property holds on this input")
        return 1 if r.v else 0
    if sc.get("kind") == "long-outage":
        bad = judge_outage(sc["seed"], sc["attempts"])
        print("REPLAY:", ("VIOLATION reproduced: %s" % bad) if bad else "property holds on this input")
        return 1 if bad else 0
    if sc.get("kind") == "connect_each":
        complaint, exp, res, log = judge_connect(sc["resolve_ok"], sc["create_ok"], sc["connect_ok"], bool(sc.get("v6")), bool(sc.get("secure")))
        print("socket module calls:", log)
        print("REPLAY:", ("VIOLATION reproduced: %s" % complaint) if complaint else "property holds on this input")
        return 1 if complaint else 0
    return fam.replay_generic(body, {"C09:fault-at-every-operation": oracle}, show=60)
