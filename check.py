#!/venv/bin/python
"""Single entry point.

  check.py setup                       build everything from files on disk (regen, coqc, extraction, driver)
  check.py <Cnn> quick|thorough        decide one property on /repo's current working tree
  check.py <Cnn> --replay <file>       re-run the scenario stored in a replay file
Environment: VERIF_SEED (default 0), VERIF_TIER (overrides the tier argument).
"""
from __future__ import print_function
import importlib
import json
import os
import sys
import traceback

HERE = os.path.dirname(os.path.abspath(__file__))
sys.path.insert(0, HERE)
sys.dont_write_bytecode = True
from harness import core  # noqa: E402


def main(argv):
    if len(argv) < 2:
        print(__doc__)
        return 2
    if argv[1] == "setup":
        info = core.build()
        print(info.regen_log.strip())
        tail = "\n".join(l for l in info.make_log.splitlines() if not l.startswith("COQ"))[-4000:]
        print(tail)
        ok = info.regen_ok and info.make_rc == 0 and info.model_ok
        print("setup:", "ok" if ok else "FAILED", "(%.0fs)" % info.wall)
        return 0 if ok else 1
    pid = argv[1].upper()
    replay = None
    tier = "quick"
    if len(argv) > 2:
        if argv[2] == "--replay":
            replay = argv[3]
        else:
            tier = argv[2]
    tier = os.environ.get("VERIF_TIER", tier)
    if tier not in ("quick", "thorough"):
        print("bad tier", tier)
        return 2
    seed = int(os.environ.get("VERIF_SEED", "0"))
    mod = importlib.import_module("harness.%s" % pid.lower())
    if replay:
        return mod.replay(json.load(open(replay)))
    rep = core.Report(pid, tier, seed)
    # a run of the real code that never returns (a thread waiting for itself, a loop that does not end) must not hang the check:
    # after the time limit the check reports that it could not decide -- with what it found so far -- instead of staying silent
    import threading

    def _gave_up():
        try:
            rep.broken("the check did not come to an end within %d minutes: some execution of the code under /repo in the simulation "
                       "never returned (families finished so far: %s)" % (LIMIT // 60, ", ".join(f.get("name", "?") for f in rep.families) or "none"))
            rc = rep.finish()
        except BaseException:
            traceback.print_exc()
            rc = 1
        sys.stdout.flush()
        os._exit(rc or 1)
    LIMIT = int(os.environ.get("VERIF_TIME_LIMIT", "2400" if tier == "quick" else "28800"))
    watchdog = threading.Timer(LIMIT, _gave_up)
    watchdog.daemon = True
    watchdog.start()
    try:
        info = core.build()
        if not info.model_ok:
            rep.broken("the extracted model could not be built (model/ or extract/ does not compile): " + info.make_log[-1500:])
            model = None
        else:
            model = core.Model()
        # fork the worker processes now, while this process is still small (scenario lists can be hundreds of MB)
        from harness import fam
        fam.pool()
        mod.run(rep, info, model, tier, seed)
        # the code under /repo is not the code the checks were calibrated on: search more (other random scenarios)
        try:
            sys.path.insert(0, os.path.join(os.path.dirname(os.path.abspath(__file__)), "tools"))
            import fingerprint
            diff = fingerprint.changed(core.REPO)
        except Exception:
            diff = []
        if diff:
            rep.notes.append("functions whose structure differs from the recorded fingerprints: %s" % ", ".join(diff[:12]))
            if tier == "quick" and not [v for v in rep.violations if not v.get("kf")]:
                for extra in (1000, 2000):
                    if [v for v in rep.violations if not v.get("kf")]:
                        break
                    mod.run(rep, info, model, tier, seed + extra)
    except Exception:
        tb = traceback.format_exc()
        print(tb)
        rep.broken("the check itself crashed: " + tb[-1500:])
    watchdog.cancel()
    return rep.finish()


if __name__ == "__main__":
    sys.exit(main(sys.argv))
