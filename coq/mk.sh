#!/bin/sh
# Full .vo build of the development (never -vos).  Usage: coq/mk.sh [make args]
cd "$(dirname "$0")" || exit 2
{ cat _CoqProject; find gen model proofs props extract -name '*.v' | sort; } > _CoqProject.all
coq_makefile -f _CoqProject.all -o Makefile.coq >/dev/null 2>&1 || exit 2
exec timeout "${COQ_TIMEOUT:-1500}" make -f Makefile.coq "$@"
