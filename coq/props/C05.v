(* C05 -- Text is delivered iff strictly valid UTF-8; fail-fast.  Statements only. *)
From Coq Require Import List NArith ZArith Bool.
From Coq.Strings Require Import Byte.
From Model Require Import Bytes Utf8.
From Model Require Import Frame Conn.
From Model Require Import FrameParser.
From Proofs Require Import Utf8Facts Utf8Tie ViolationFacts DeliveryFacts StreamViolation StreamViolation2 DeliveryZ StreamViolationZ.
From Gen Require Import GenUtf8.
Import ListNotations.
Open Scope N_scope.

(* (regenerated obligation) the state graph obtained by running lomond's Utf8Validator.validate on every
   (reachable state, byte) pair is the model automaton ustep, including the "valid?" flag it returns *)
Theorem C05_dfa_tie : forall u b,
  exists r1 r2,
    lookup impl_step_tbl (N_of_ustate u) = Some r1 /\
    lookup impl_valid_tbl (N_of_ustate u) = Some r2 /\
    nth_error r1 (N.to_nat (b2n b)) = Some (N_of_ustate (ustep u b)) /\
    nth_error r2 (N.to_nat (b2n b)) = Some (if ustate_eqb (ustep u b) URej then 0 else 1).
Proof. exact impl_dfa_is_ustep. Qed.
Print Assumptions C05_dfa_tie.

(* the automaton accepts exactly the RFC 3629 grammar: no overlongs, no surrogates, nothing above
   U+10FFFF, no truncated sequence at the end -- for every byte string *)
Theorem C05_accept_iff_wellformed : forall bs, urun UAcc bs = UAcc <-> utf8_wf bs.
Proof. exact accepts_iff_wf. Qed.
Print Assumptions C05_accept_iff_wellformed.

(* fail-fast: the incremental validator reports invalid on a prefix exactly when no continuation of
   that prefix is well-formed, i.e. as soon as the first offending byte has been fed *)
Theorem C05_failfast_validator : forall p, uvalidate UAcc p = None <-> ~ viable p.
Proof. exact validate_rejects_iff_not_viable. Qed.
Print Assumptions C05_failfast_validator.

(* the verdict does not depend on how the bytes are split into slices *)
Theorem C05_split_independent : forall s a b,
  uvalidate s (a ++ b) = match uvalidate s a with Some s' => uvalidate s' b | None => None end.
Proof. exact uvalidate_app. Qed.
Print Assumptions C05_split_independent.

(* delivery: the fragments of one (uncompressed) text message, however the payload was cut into frames, are delivered as
   Text exactly when the concatenated payload is well-formed; otherwise the message builder raises the critical
   protocol error and no Text is produced *)
Theorem C05_text_delivered_iff_wellformed : forall c frames first rest,
  frames = first :: rest -> f_op first = OP_TEXT -> f_rsv1 first = false ->
  let p := concat (map f_payload frames) in
  (utf8_wf p -> snd (build_message c frames) = inl (MText p)) /\
  (~ utf8_wf p -> snd (build_message c frames) = inr MCritical).
Proof. exact text_delivered_iff_wellformed. Qed.
Print Assumptions C05_text_delivered_iff_wellformed.

Theorem C05_close_reason_must_be_wellformed : forall c a b reason, ~ utf8_wf reason ->
  snd (build_message c [mk_close (a :: b :: reason)]) = inr MCritical.
Proof. exact close_bad_reason_is_error. Qed.

(* Fail-fast for the whole stream: a conforming frame list (any fragmentation, control frames anywhere -- also between the
   fragments of the text message concerned --, any length forms), then the header of a text frame (a new TEXT frame, or a
   continuation of the open text message) and payload bytes q -- the frame need NOT be complete -- such that no continuation
   of the message bytes received so far is well-formed UTF-8: the feed fails at once, exactly one critical ProtocolError,
   nothing of the message is delivered -- whatever follows *)
Theorem C05_failfast_after_conforming_prefix : forall cf app, benign app -> zpos (c_ping_timeout cf) = None ->
  forall fs lfs c open ms open' h lf len q rest,
  idle c open -> data_head open -> Forall plain fs -> forms_ok fs lfs ->
  ref_messages open fs = Some (ms, open') ->
  h_mask h = false -> form_ok lf len = true -> validate_err false h len = false ->
  ((h_op h = OP_TEXT /\ open' = []) \/ (h_op h = OP_CONT /\ is_text_msg open' = true)) ->
  q <> [] -> blen q <= len -> ~ viable (payload_of open' ++ q) ->
  let r := feedf cf app c (encode_all fs lfs ++ hdr_bytes h lf len ++ q ++ rest) in
  snd r <> SOk /\
  msg_events (k_tr (fst r)) = rev (map ev_of ms) ++ msg_events (k_tr c) /\
  perrors (k_tr (fst r)) = true :: perrors (k_tr c).
Proof. exact text_failfast_after_prefix. Qed.
Print Assumptions C05_failfast_after_conforming_prefix.

(* ... and a complete unfragmented TEXT frame whose payload is not well-formed -- including one that ends inside a multi-byte
   character, which the streaming check cannot refuse -- is never delivered: one critical ProtocolError *)
Theorem C05_invalid_text_after_conforming_prefix : forall cf app, benign app -> zpos (c_ping_timeout cf) = None ->
  forall fs lfs c ms f lf rest,
  idle c [] -> Forall plain fs -> forms_ok fs lfs ->
  ref_messages [] fs = Some (ms, []) ->
  plain f -> f_op f = OP_TEXT -> f_fin f = true -> form_ok lf (blen (f_payload f)) = true ->
  ~ utf8_wf (f_payload f) ->
  let r := feedf cf app c (encode_all fs lfs ++ enc_frame f lf ++ rest) in
  snd r <> SOk /\
  msg_events (k_tr (fst r)) = rev (map ev_of ms) ++ msg_events (k_tr c) /\
  perrors (k_tr (fst r)) = true :: perrors (k_tr c).
Proof. exact invalid_text_after_prefix. Qed.
Print Assumptions C05_invalid_text_after_conforming_prefix.

Example C05_nonvacuous :
  utf8_wf [x68; xe2; x82; xac; xf0; x9f; x98; x80] /\ ~ viable [xed; xa0] /\ ~ utf8_wf [xc0; xaf] /\ viable [xf0; x9f].
Proof.
  rewrite <- accepts_iff_wf, <- !validate_rejects_iff_not_viable, <- accepts_iff_wf.
  rewrite viable_iff_not_rejected. vm_compute. repeat split; try reflexivity; discriminate.
Qed.

(* ... and on a connection that negotiated permessage-deflate (StreamViolationZ.v), where no incremental validation takes
   place: after any conforming prefix, a compressed text message (one frame, RSV1) that INFLATES to something that is not
   well-formed UTF-8 -- or that the inflater refuses -- is never delivered: exactly one critical ProtocolError, the feed
   fails, the messages of the prefix are all that was delivered *)
Theorem C05_ill_formed_inflated_text_after_conforming_prefix : forall cf app, benign app -> zpos (c_ping_timeout cf) = None ->
  forall d fs lfs c tape ms tape' f lf rest,
  Proofs.DeliveryZ.idle_z d c [] tape -> Forall Proofs.DeliveryZ.zframe fs -> forms_ok fs lfs ->
  Proofs.DeliveryZ.ref_messages_z [] tape fs = Some (ms, [], tape') ->
  Proofs.DeliveryZ.zframe f -> f_rsv1 f = true -> f_fin f = true -> form_ok lf (blen (f_payload f)) = true ->
  (f_op f = OP_TEXT \/ f_op f = OP_BINARY) ->
  (match tape' with
   | Some (out, _) :: _ => f_op f = OP_TEXT /\ ~ utf8_wf out
   | None :: _ => True
   | [] => True
   end) ->
  let r := feedf cf app c (encode_all fs lfs ++ enc_frame f lf ++ rest) in
  snd r <> SOk /\
  msg_events (k_tr (fst r)) = rev (map ev_of ms) ++ msg_events (k_tr c) /\
  perrors (k_tr (fst r)) = true :: perrors (k_tr c).
Proof. exact Proofs.StreamViolationZ.bad_compressed_message_after_prefix. Qed.
Print Assumptions C05_ill_formed_inflated_text_after_conforming_prefix.
