(* C05 -- Text is delivered iff strictly valid UTF-8; fail-fast.  Statements only. *)
From Coq Require Import List NArith Bool.
From Coq.Strings Require Import Byte.
From Model Require Import Bytes Utf8.
From Model Require Import Frame Conn.
From Proofs Require Import Utf8Facts Utf8Tie ViolationFacts.
From Gen Require Import GenUtf8.
Import ListNotations.
Open Scope N_scope.

(* (regenerated obligation) the state graph obtained by running lomond's Utf8Validator.validate on every
   (reachable state, byte) pair is the model automaton ustep, including the "valid?" flag it returns *)
Theorem C05_dfa_tie : forall u b,
  exists r1 r2,
    lookup impl_step_tbl (N_of_ustate u) = Some r1 /\
    lookup impl_valid_tbl (N_of_ustate u) = Some r2 /\
    nth_error r1 (N.to_nat (b2n b)) = Some (N_of_ustate (ustep u b)) /\
    nth_error r2 (N.to_nat (b2n b)) = Some (if ustate_eqb (ustep u b) URej then 0 else 1).
Proof. exact impl_dfa_is_ustep. Qed.
Print Assumptions C05_dfa_tie.

(* the automaton accepts exactly the RFC 3629 grammar: no overlongs, no surrogates, nothing above
   U+10FFFF, no truncated sequence at the end -- for every byte string *)
Theorem C05_accept_iff_wellformed : forall bs, urun UAcc bs = UAcc <-> utf8_wf bs.
Proof. exact accepts_iff_wf. Qed.
Print Assumptions C05_accept_iff_wellformed.

(* fail-fast: the incremental validator reports invalid on a prefix exactly when no continuation of
   that prefix is well-formed, i.e. as soon as the first offending byte has been fed *)
Theorem C05_failfast_validator : forall p, uvalidate UAcc p = None <-> ~ viable p.
Proof. exact validate_rejects_iff_not_viable. Qed.
Print Assumptions C05_failfast_validator.

(* the verdict does not depend on how the bytes are split into slices *)
Theorem C05_split_independent : forall s a b,
  uvalidate s (a ++ b) = match uvalidate s a with Some s' => uvalidate s' b | None => None end.
Proof. exact uvalidate_app. Qed.
Print Assumptions C05_split_independent.

(* delivery: the fragments of one (uncompressed) text message, however the payload was cut into frames, are delivered as
   Text exactly when the concatenated payload is well-formed; otherwise the message builder raises the critical
   protocol error and no Text is produced *)
Theorem C05_text_delivered_iff_wellformed : forall c frames first rest,
  frames = first :: rest -> f_op first = OP_TEXT -> f_rsv1 first = false ->
  let p := concat (map f_payload frames) in
  (utf8_wf p -> snd (build_message c frames) = inl (MText p)) /\
  (~ utf8_wf p -> snd (build_message c frames) = inr MCritical).
Proof. exact text_delivered_iff_wellformed. Qed.
Print Assumptions C05_text_delivered_iff_wellformed.

Theorem C05_close_reason_must_be_wellformed : forall c a b reason, ~ utf8_wf reason ->
  snd (build_message c [mk_close (a :: b :: reason)]) = inr MCritical.
Proof. exact close_bad_reason_is_error. Qed.

Example C05_nonvacuous :
  utf8_wf [x68; xe2; x82; xac; xf0; x9f; x98; x80] /\ ~ viable [xed; xa0] /\ ~ utf8_wf [xc0; xaf] /\ viable [xf0; x9f].
Proof.
  rewrite <- accepts_iff_wf, <- !validate_rejects_iff_not_viable, <- accepts_iff_wf.
  rewrite viable_iff_not_rejected. vm_compute. repeat split; try reflexivity; discriminate.
Qed.
