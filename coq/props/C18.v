(* C18 -- available data is always drained without waiting for more traffic.  Statements only.
   The kernel queue and the TLS layer are MODELLED (Model.Transport): plain TCP; TLS handing out one record per read;
   TLS with read-ahead (everything that has arrived is decrypted and buffered).  SelectorBase.wait and _recv are the
   model's wait and recv. *)
From Coq Require Import List NArith.
From Coq.Strings Require Import Byte.
From Model Require Import Bytes Transport.
From Proofs Require Import TransportFacts GenTie.
Import ListNotations.
Open Scope N_scope.

(* the loop blocks in the selector only when nothing is available: no decrypted bytes buffered inside the TLS layer and
   nothing in the kernel queue *)
Theorem C18_blocks_only_when_empty : forall t, records_nonempty t -> (wait t = None <-> available t = []).
Proof. exact wait_blocks_iff_nothing_available. Qed.
Print Assumptions C18_blocks_only_when_empty.

(* before it blocks, the read side has handed every available byte to WebSocket.feed, in order, in non-empty pieces
   of at most 64 KiB: for every burst size and every record alignment, for all three transports *)
Theorem C18_everything_is_drained : forall t, well_formed t ->
  let '(chunks, t') := drain_all t in
  concat chunks = available t /\ available t' = [] /\ Forall (fun c => c <> [] /\ blen c <= BUFFER_SIZE) chunks.
Proof. exact drain_all_delivers_everything. Qed.
Print Assumptions C18_everything_is_drained.

(* (regenerated) the buffer size of the running code is the model's *)
Theorem C18_buffer_size : Gen.GenConst.impl_buffer_size = BUFFER_SIZE.
Proof. destruct impl_constants as (_ & _ & B & _). exact B. Qed.
