(* C18 -- available data is always drained without waiting for more traffic.  Statements only.
   The kernel queue and the TLS layer are MODELLED (Model.Transport): plain TCP; TLS handing out one record per read;
   TLS with read-ahead (everything that has arrived is decrypted and buffered).  SelectorBase.wait and _recv are the
   model's wait and recv. *)
From Coq Require Import List NArith.
From Coq.Strings Require Import Byte.
From Model Require Import Bytes Transport.
From Proofs Require Import TransportFacts GenTie DrainDelivery.
Import ListNotations.
Open Scope N_scope.

(* the loop blocks in the selector only when nothing is available: no decrypted bytes buffered inside the TLS layer and
   nothing in the kernel queue *)
Theorem C18_blocks_only_when_empty : forall t, records_nonempty t -> (wait t = None <-> available t = []).
Proof. exact wait_blocks_iff_nothing_available. Qed.
Print Assumptions C18_blocks_only_when_empty.

(* before it blocks, the read side has handed every available byte to WebSocket.feed, in order, in non-empty pieces
   of at most 64 KiB: for every burst size and every record alignment, for all three transports *)
Theorem C18_everything_is_drained : forall t, well_formed t ->
  let '(chunks, t') := drain_all t in
  concat chunks = available t /\ available t' = [] /\ Forall (fun c => c <> [] /\ blen c <= BUFFER_SIZE) chunks.
Proof. exact drain_all_delivers_everything. Qed.
Print Assumptions C18_everything_is_drained.

(* (regenerated) the buffer size of the running code is the model's *)
Theorem C18_buffer_size : Gen.GenConst.impl_buffer_size = BUFFER_SIZE.
Proof. destruct impl_constants as (_ & _ & B & _). exact B. Qed.

(* ---------- joined with C02 and C01 (DrainDelivery.v) ---------- *)
(* what the read side hands to WebSocket.feed before the loop waits in the selector again is, for the client, the same as
   everything that was available fed in one piece (C02 on the chunks the transport model produces) -- and then it would block *)
Theorem C18_drained_chunks_feed_like_everything_available : forall cf app t c, well_formed t -> Proofs.FrameParserFacts.fp_ok (Model.Conn.k_ps c) ->
  Proofs.ConnFacts.feed_chunks cf app c (fst (drain_all t)) = Model.Conn.feedf cf app c (available t) /\ wait (snd (drain_all t)) = None.
Proof. exact Proofs.DrainDelivery.drained_chunks_feed_like_everything_available. Qed.
Print Assumptions C18_drained_chunks_feed_like_everything_available.

(* "every message is delivered, and every automatic reply written, in the same loop cycle in which its last byte becomes
   available": when what is available is a conforming frame sequence -- however it is spread over TCP segments or TLS
   records, on plain TCP, TLS, or TLS with read-ahead -- all its messages have been yielded and all the Pongs it calls for
   written when the loop next waits in the selector *)
Theorem C18_available_messages_delivered_before_blocking : forall cf app,
  Proofs.DeliveryFacts.benign app -> Model.Conn.zpos (Model.Conn.c_ping_timeout cf) = None ->
  forall t c open fs lfs ms open', well_formed t ->
  Proofs.DeliveryFacts.idle c open -> Proofs.DeliveryFacts.data_head open -> Forall Proofs.DeliveryFacts.plain fs ->
  Proofs.DeliveryFacts.forms_ok fs lfs ->
  Proofs.DeliveryFacts.ref_messages open fs = Some (ms, open') -> available t = Proofs.DeliveryFacts.encode_all fs lfs ->
  exists c', Proofs.ConnFacts.feed_chunks cf app c (fst (drain_all t)) = (c', Model.Conn.SOk) /\ wait (snd (drain_all t)) = None /\
             Proofs.DeliveryFacts.msg_events (Model.Conn.k_tr c') =
               rev (map Proofs.DeliveryFacts.ev_of ms) ++ Proofs.DeliveryFacts.msg_events (Model.Conn.k_tr c) /\
             Proofs.DeliveryFacts.wfacts cf c c' ms.
Proof. exact Proofs.DrainDelivery.available_messages_delivered_before_blocking. Qed.
Print Assumptions C18_available_messages_delivered_before_blocking.
