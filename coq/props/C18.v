(* C18 -- placeholder *)
Theorem C18_placeholder : True. Proof. exact I. Qed.
