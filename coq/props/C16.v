(* C16 -- persist() reconnects forever with bounded, growing, resettable back-off.  Statements only. *)
From Coq Require Import List ZArith QArith Qminmax.
From Model Require Import Persist.
From Proofs Require Import PersistFacts.
Import ListNotations.
Open Scope Q_scope.

(* for every sequence of connection outcomes, every sequence of random draws and every exit script: persist() calls
   connect once per attempt, passes that attempt's events through unchanged and in order, then yields exactly one BackOff
   whose delay is min_wait + u * min(max_wait - min_wait, 2^k), k being the number of consecutive attempts that did not
   reach Ready (0 right after one that did), and goes on unless the exit event was set *)
Theorem C16_structure : forall mn mx attempts draws exits no prev,
  fst (persist mn mx attempts draws exits no prev) = spec_items mn mx attempts draws exits no prev.
Proof. exact persist_structure. Qed.
Print Assumptions C16_structure.

(* it never ends by itself *)
Theorem C16_stops_only_on_exit : forall mn mx attempts draws exits no prev,
  snd (persist mn mx attempts draws exits no prev) = false -> In true exits.
Proof. exact persist_stops_only_on_exit. Qed.
Print Assumptions C16_stops_only_on_exit.

Theorem C16_delay_bounds : forall mn mx u k, 0 <= mn -> mn <= mx -> 0 <= u -> u < 1 ->
  mn <= backoff mn mx u k /\ backoff mn mx u k <= mx.
Proof. exact backoff_bounds. Qed.
Print Assumptions C16_delay_bounds.

Theorem C16_limit : forall mn mx u k, 0 <= u -> u < 1 -> mn <= mx ->
  backoff mn mx u k <= mn + Qmin (mx - mn) (pow2 k).
Proof. exact backoff_limit. Qed.
Print Assumptions C16_limit.

Theorem C16_reset_and_growth : forall prev a,
  (In true a -> retries_after prev a = O) /\ (~ In true a -> retries_after prev a = S prev) /\ pow2 (S prev) == 2 * pow2 prev.
Proof. intros. split; [apply retries_reset|split; [apply retries_grow|apply pow2_double]]. Qed.
Print Assumptions C16_reset_and_growth.

Example C16_nonvacuous :
  fst (persist 5 30 [[false; false]; [false; true; false]; [false]] [1#2; 1#4; 3#4] [false; false; true] 0 0)
  = [PConnect 0; PEvent 0 0 false; PEvent 0 1 false; PBackOff (backoff 5 30 (1#2) 1);
     PConnect 1; PEvent 1 0 false; PEvent 1 1 true; PEvent 1 2 false; PBackOff (backoff 5 30 (1#4) 0);
     PConnect 2; PEvent 2 0 false; PBackOff (backoff 5 30 (3#4) 1)].
Proof. reflexivity. Qed.
