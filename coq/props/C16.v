(* C16 -- placeholder *)
Theorem C16_placeholder : True. Proof. exact I. Qed.
