(* C04 -- placeholder *)
Theorem C04_placeholder : True. Proof. exact I. Qed.
