(* C04 -- protocol violations are detected, reported once, and fail the connection.  Statements only. *)
From Coq Require Import List NArith ZArith Bool.
From Coq.Strings Require Import Byte.
From Model Require Import Bytes Utf8 Frame Parser FrameParser Conn.
From Proofs Require Import ParserTie ConnFacts TraceFacts ViolationFacts GenTie DeliveryFacts StreamViolation StreamViolation2.
From Gen Require Import GenFrame GenStatus.
From Props Require C01.
Import ListNotations.
Open Scope N_scope.

(* (regenerated obligations) the verdicts of the running Frame.validate / CompressedFrame.validate over all
   2 x 16 x 2 x 2 x 2 x 2 x 3 combinations, and Status.invalid_codes, equal the model's predicates *)
Theorem C04_validate_table : forall cls op fin r1 r2 r3 lc,
  cls < 2 -> op < 16 -> fin < 2 -> r1 < 2 -> r2 < 2 -> r3 < 2 -> lc < 3 ->
  nth_error impl_validate_tbl (vidx cls op fin r1 r2 r3 lc) = Some (model_verdict cls op fin r1 r2 r3 lc).
Proof. exact impl_validate_is_model. Qed.
Print Assumptions C04_validate_table.
Theorem C04_opcode_table : opcode_tbl_ok = true.
Proof. exact opcode_tbl_ok_true. Qed.
Theorem C04_close_codes : forall c, in_ranges impl_invalid_ranges c = invalid_close_code c.
Proof. exact impl_invalid_codes_is_model. Qed.
Print Assumptions C04_close_codes.
Theorem C04_reserved_codes_rejected : forall c, reserved_close c -> invalid_close_code c = true.
Proof. exact reserved_codes_rejected. Qed.
Theorem C04_valid_codes_accepted : forall c, definitely_valid c -> invalid_close_code c = false.
Proof. exact valid_codes_accepted. Qed.

(* the model's header check is exactly the RFC's list of per-header violations *)
Theorem C04_header_rules : forall compression h len,
  validate_err compression h len = true <-> header_violation compression h len.
Proof. exact validate_err_iff. Qed.
Print Assumptions C04_header_rules.

(* each class of violation is an error at the point where the parser / stream / message builder meets it *)
Theorem C04_header_violation_raises : forall g h len key, validate_err (fp_compression g) h len = true ->
  after_mask g h len key = RErr PE_Protocol.
Proof. exact header_violation_raises. Qed.
Theorem C04_length_2_63_raises : forall g h len, 9223372036854775807 < len -> after_len g h len = RErr PE_Protocol.
Proof. exact huge_length_raises. Qed.
Theorem C04_masked_frame_raises : forall g h key payload, h_mask h = true -> finish_frame g h key payload = RErr PE_Protocol.
Proof. exact masked_frame_raises. Qed.
Theorem C04_continuation_discipline : forall c f, is_control (f_op f) = false ->
  (stream_frame c f = SErr <-> (f_op f = OP_CONT /\ k_frames c = []) \/ (f_op f <> OP_CONT /\ k_frames c <> [])).
Proof. exact stream_discipline. Qed.
Print Assumptions C04_continuation_discipline.
Theorem C04_close_one_byte : forall c b, snd (build_message c [mk_close [b]]) = inr MProtocol.
Proof. exact close_one_byte_is_error. Qed.
Theorem C04_close_reason_not_utf8 : forall c a b reason, ~ utf8_wf reason ->
  snd (build_message c [mk_close (a :: b :: reason)]) = inr MCritical.
Proof. exact close_bad_reason_is_error. Qed.
Theorem C04_reserved_close_code : forall cf app c code reason, invalid_close_code code = true ->
  on_message cf app c (MClose (Some code) reason) = (let '(c1, st) := raise_in_feed cf app c MProtocol in (c1, st, FBreak)).
Proof. exact reserved_close_code_raises. Qed.

(* the error path: exactly one ProtocolError event is appended; after it only housekeeping events (Poll, Unresponsive),
   the application's own calls and the library's single Close(1002); never a message event.  And the loop over the
   stream stops: the status is never SOk, so nothing of the violating frame or after it is ever parsed *)
Theorem C04_one_protocol_error : forall cf app c e,
  exists l, k_tr (fst (raise_in_feed cf app c e)) =
            l ++ TEv (EvProtocolError (match e with MCritical => true | MProtocol => false end)) :: k_tr c
            /\ Forall housekeeping l.
Proof. exact raise_in_feed_trace. Qed.
Print Assumptions C04_one_protocol_error.
Theorem C04_error_stops_the_stream : forall cf app c e, snd (raise_in_feed cf app c e) <> SOk.
Proof. exact raise_in_feed_not_ok. Qed.
Print Assumptions C04_error_stops_the_stream.

(* no false alarm: a feed that returns normally has reported no ProtocolError -- for ANY application strategy, any input
   bytes and any state (the only source of ProtocolError events is the error path, which never returns normally) *)
Theorem C04_normal_feed_reports_no_error : forall cf app c d c',
  feedf cf app c d = (c', SOk) -> perrors (k_tr c') = perrors (k_tr c).
Proof. exact feed_ok_no_protocol_error. Qed.
Print Assumptions C04_normal_feed_reports_no_error.

(* the whole stream: a conforming frame list (any fragmentation, control frames anywhere, any length forms) followed by a
   well-formed data frame in the wrong place -- a continuation frame with nothing to continue, or a new data frame while a
   fragmented message is open -- followed by ANY bytes: the messages completed before the violation are delivered, exactly
   one ProtocolError (critical = False) is reported, the feed fails (the session then disconnects), and neither the
   violating frame nor anything after it produces a message event *)
Theorem C04_violation_after_conforming_prefix : forall cf app, benign app -> zpos (c_ping_timeout cf) = None ->
  forall fs lfs c open ms open' f lf rest,
  idle c open -> data_head open -> Forall plain fs -> forms_ok fs lfs ->
  ref_messages open fs = Some (ms, open') ->
  plain f -> form_ok lf (blen (f_payload f)) = true ->
  validate_err false (hdr_of f) (blen (f_payload f)) = false -> out_of_place open' f ->
  let r := feedf cf app c (encode_all fs lfs ++ enc_frame f lf ++ rest) in
  snd r <> SOk /\
  msg_events (k_tr (fst r)) = rev (map ev_of ms) ++ msg_events (k_tr c) /\
  perrors (k_tr (fst r)) = false :: perrors (k_tr c).
Proof. exact violation_after_prefix. Qed.
Print Assumptions C04_violation_after_conforming_prefix.

(* ... and the same for every header-level violation (by C04_header_rules: a reserved bit, a reserved opcode, a fragmented
   control frame, a control frame announcing more than 125 bytes), the header encoded with any of the three length forms
   and followed by ANY bytes: the parser judges the header as soon as its length field is complete *)
Theorem C04_header_violation_after_conforming_prefix : forall cf app, benign app -> zpos (c_ping_timeout cf) = None ->
  forall fs lfs c open ms open' h lf len rest,
  idle c open -> data_head open -> Forall plain fs -> forms_ok fs lfs ->
  ref_messages open fs = Some (ms, open') ->
  h_mask h = false -> h_op h < 16 -> form_ok lf len = true -> validate_err false h len = true ->
  let r := feedf cf app c (encode_all fs lfs ++ hdr_bytes h lf len ++ rest) in
  snd r <> SOk /\
  msg_events (k_tr (fst r)) = rev (map ev_of ms) ++ msg_events (k_tr c) /\
  perrors (k_tr (fst r)) = false :: perrors (k_tr c).
Proof. exact header_violation_after_prefix. Qed.
Print Assumptions C04_header_violation_after_conforming_prefix.

(* ... for a frame that announces 2^63 bytes or more in the 64-bit length form (any other header bits, masked or not,
   followed by ANY bytes): refused as soon as the length field is complete *)
Theorem C04_length_violation_after_conforming_prefix : forall cf app, benign app -> zpos (c_ping_timeout cf) = None ->
  forall fs lfs c open ms open' h len rest,
  idle c open -> data_head open -> Forall plain fs -> forms_ok fs lfs ->
  ref_messages open fs = Some (ms, open') ->
  h_op h < 16 -> 9223372036854775808 <= len < 18446744073709551616 ->
  let r := feedf cf app c (encode_all fs lfs ++ hdr_bytes_m h L64 len ++ rest) in
  snd r <> SOk /\
  msg_events (k_tr (fst r)) = rev (map ev_of ms) ++ msg_events (k_tr c) /\
  perrors (k_tr (fst r)) = false :: perrors (k_tr c).
Proof. exact length_violation_after_prefix. Qed.
Print Assumptions C04_length_violation_after_conforming_prefix.

(* ... for a masked frame from the server whose header is otherwise well-formed (any opcode, FIN, length form, key and
   payload bytes): exactly one ProtocolError, the frame is never delivered.  The error is the critical kind only when the
   frame is textual and its (still masked) payload bytes fail the streaming UTF-8 check before the frame is complete *)
Theorem C04_masked_frame_after_conforming_prefix : forall cf app, benign app -> zpos (c_ping_timeout cf) = None ->
  forall fs lfs c open ms open' h lf key p rest,
  idle c open -> data_head open -> Forall plain fs -> forms_ok fs lfs ->
  ref_messages open fs = Some (ms, open') ->
  h_mask h = true -> h_op h < 16 -> form_ok lf (blen p) = true -> validate_err false h (blen p) = false ->
  length key = 4%nat ->
  let r := feedf cf app c (encode_all fs lfs ++ hdr_bytes_m h lf (blen p) ++ key ++ p ++ rest) in
  snd r <> SOk /\
  msg_events (k_tr (fst r)) = rev (map ev_of ms) ++ msg_events (k_tr c) /\
  exists crit, perrors (k_tr (fst r)) = crit :: perrors (k_tr c) /\
               (crit = true -> h_op h = OP_TEXT \/ h_op h = OP_CONT).
Proof. exact masked_frame_after_prefix. Qed.
Print Assumptions C04_masked_frame_after_conforming_prefix.

(* ... and for the message-level violations of a Close frame (one-byte payload; reason not UTF-8: critical; reserved or
   out-of-range status code), in any length form, followed by ANY bytes: no Closing/Closed event, one ProtocolError *)
Theorem C04_bad_close_after_conforming_prefix : forall cf app, benign app -> zpos (c_ping_timeout cf) = None ->
  forall fs lfs c open ms open' f lf rest e,
  idle c open -> data_head open -> Forall plain fs -> forms_ok fs lfs ->
  ref_messages open fs = Some (ms, open') ->
  plain f -> f_op f = OP_CLOSE -> f_fin f = true -> blen (f_payload f) <= 125 -> form_ok lf (blen (f_payload f)) = true ->
  bad_close (f_payload f) e ->
  let r := feedf cf app c (encode_all fs lfs ++ enc_frame f lf ++ rest) in
  snd r <> SOk /\
  msg_events (k_tr (fst r)) = rev (map ev_of ms) ++ msg_events (k_tr c) /\
  perrors (k_tr (fst r)) = (match e with MCritical => true | MProtocol => false end) :: perrors (k_tr c).
Proof. exact bad_close_after_prefix. Qed.
Print Assumptions C04_bad_close_after_conforming_prefix.

Example C04_bad_close_nonvacuous :
  bad_close [x03; xed] MProtocol /\ bad_close [x03] MProtocol /\ bad_close [x03; xe8; xff] MCritical /\
  form_wire L64 9223372036854775808 = true.
Proof.
  split; [right; right; exists x03, xed, []; repeat split; reflexivity|].
  split; [left; exists x03; split; reflexivity|].
  split; [right; left; exists x03, xe8, [xff]; repeat split; reflexivity|reflexivity].
Qed.

(* the whole-stream statements evaluated on a concrete case: after the six frames of C01.fs0 (4 messages) on the connection
   C01.c0 -- which meets the hypotheses, see C01_nonvacuous -- a frame announcing 2^63 bytes, a masked binary frame and a Close
   with the reserved code 1005 each give exactly one non-critical ProtocolError, with the four messages delivered before it *)
Example C04_stream_examples :
  let hbin := {| h_fin := true; h_r1 := false; h_r2 := false; h_r3 := false; h_op := 2; h_mask := true |} in
  let pre := encode_all C01.fs0 C01.lfs0 in
  let r1 := feedf C01.cf0 C01.app0 C01.c0 (pre ++ hdr_bytes_m hbin L64 9223372036854775808 ++ [x00]) in
  let r2 := feedf C01.cf0 C01.app0 C01.c0 (pre ++ hdr_bytes_m hbin L7 3 ++ [x01; x02; x03; x04] ++ [x61; x62; x63] ++ [x00]) in
  let r3 := feedf C01.cf0 C01.app0 C01.c0 (pre ++ enc_frame (mk_close [x03; xed]) L16 ++ [x00]) in
  perrors (k_tr C01.c0) = [] /\
  perrors (k_tr (fst r1)) = [false] /\ perrors (k_tr (fst r2)) = [false] /\ perrors (k_tr (fst r3)) = [false] /\
  length (msg_events (k_tr (fst r1))) = 4%nat /\ length (msg_events (k_tr (fst r2))) = 4%nat /\ length (msg_events (k_tr (fst r3))) = 4%nat.
Proof. vm_compute. repeat split; reflexivity. Qed.

Example C04_nonvacuous :
  header_violation false {| h_fin := true; h_r1 := false; h_r2 := false; h_r3 := false; h_op := 9; h_mask := false |} 126 /\
  validate_err true {| h_fin := true; h_r1 := true; h_r2 := false; h_r3 := false; h_op := 1; h_mask := false |} 10 = false /\
  invalid_close_code 1005 = true /\ invalid_close_code 1000 = false.
Proof. repeat split; try reflexivity. right. right. right. right. right. split; [reflexivity|reflexivity]. Qed.

(* (regenerated, ParserTie.v) the RUNNING ClientFrameParser, executed between two frames on every first header byte
   (FIN, RSV1-3, opcode) x the 7-, 16- and 64-bit length forms at their boundaries (minimal and not minimal), lengths of
   2^63-1, 2^63 and 2^64-1, a masked frame -- with compression on and off, with and without an open text message
   (13 312 rows) -- and on 64 KiB frames of the data opcodes: more bytes needed / the frame yielded (FIN, RSV bits, opcode,
   payload length) / ProtocolError, exactly as the model's frame parser decides *)
Theorem C04_running_parser_is_the_model : forallb Proofs.ParserTie.row_ok Gen.GenParser.impl_parser_rows = true.
Proof. exact Proofs.ParserTie.impl_parser_is_model. Qed.
Print Assumptions C04_running_parser_is_the_model.
Theorem C04_parser_table_covers_every_first_byte :
  forallb (fun st => forallb (fun b0 =>
     existsb (fun row => let '(comp, is_text, hdr, _, _) := row in
                         (comp =? fst st) && (is_text =? snd st) && (hd 999 hdr =? b0)) Gen.GenParser.impl_parser_rows)
     (map N.of_nat (seq 0 256))) [(0, 0); (0, 1); (1, 0); (1, 1)] = true.
Proof. exact Proofs.ParserTie.impl_parser_covers_all_first_bytes. Qed.
