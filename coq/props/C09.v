(* C09 -- transport failures become events, never exceptions or hangs.  Statements only.
   The exception plumbing of run() (try/except/else/finally, which class each clause catches, GeneratorExit not being an
   Exception) is transcribed by hand into the model: it is MODELLED, the correspondence runs tie it to the code.  In
   the model run is a total function: "an exception escapes the iterator" is not a possible value; the statements below
   say what comes out instead. *)
From Coq Require Import List NArith Bool.
From Model Require Import Conn Connect.
From Proofs Require Import ShapeFacts RunFacts TraceFacts ConnectFacts.
Import ListNotations.

(* whatever fails -- connect (any class of exception), the request write, any recv (EOF, OSError, arbitrary exception),
   any library or application write, the selector -- the event sequence ends with ConnectFail before Connected and with
   Disconnected afterwards, or the attempt is still running / was abandoned by the consumer *)
Theorem C09_failures_become_events : forall cf app c0 cn steps, k_tr c0 = [] ->
  run_shape (rev (evs (k_tr (run cf app c0 cn steps)))).
Proof. exact run_event_shape. Qed.
Print Assumptions C09_failures_become_events.

(* no hang: a failing read or selector always ends the loop *)
Theorem C09_no_hang : forall cf app steps c, existsb terminating steps = true ->
  exists c' st, loop cf app steps c = finish app c' st.
Proof. exact loop_terminates. Qed.

(* graceful only when the websocket is no longer active: the loop reports Disconnected(graceful=True) only from a state
   in which closing or closed is set (the closing handshake had started, or the websocket was closed) *)
Theorem C09_graceful_only_when_inactive : forall cf app steps c, loop_end app c (loop cf app steps c).
Proof. exact loop_ends. Qed.
Print Assumptions C09_graceful_only_when_inactive.

(* and the socket is closed on every exit *)
Theorem C09_socket_closed : forall app c st, released (finish app c st).
Proof. exact finish_released. Qed.

(* application calls report trouble only as WebSocketError subclasses (or the documented ValueError): by the type of
   the model's exn and the definition of write -- see C03/C08 for what each refusal leaves unchanged *)
Theorem C09_app_errors : forall x, is_websocket_error x = true \/ x = XTypeError \/ x = XValueError.
Proof. destruct x; cbn; auto. Qed.

(* ---------- "a refused connect on every resolved address (each address is tried before giving up)" ---------- *)
(* _connect_sock in the model (Connect.v; compared with the real method on every outcome pattern by the check): the address
   in use is the FIRST one whose socket can be created and connected ... *)
Theorem C09_first_usable_address : forall addrs i, fst (connect_from i addrs) = first_usable i addrs.
Proof. exact connect_uses_first_usable. Qed.
Print Assumptions C09_first_usable_address.
(* ... connect() is called on the creatable addresses in order, up to and including that one, and on all of them when
   none connects ... *)
Theorem C09_addresses_tried_in_order : forall addrs i, connects (snd (connect_from i addrs)) = expected_connects i addrs.
Proof. exact connects_in_order. Qed.
(* ... the sockets closed are exactly those whose connect() failed (so none stays open behind a failed attempt, and the
   one in use is not closed) ... *)
Theorem C09_failed_attempts_closed : forall addrs i,
  closes (snd (connect_from i addrs)) =
  match fst (connect_from i addrs) with
  | Some k => filter (fun j => negb (Nat.eqb j k)) (connects (snd (connect_from i addrs)))
  | None => connects (snd (connect_from i addrs))
  end.
Proof. intros addrs i. apply (failed_attempts_are_closed addrs i). Qed.
Print Assumptions C09_failed_attempts_closed.
(* ... and the attempt fails only when no address is usable *)
Theorem C09_gives_up_only_after_every_address : forall addrs,
  fst (connect_sock true addrs) = None <-> Forall (fun a => usable a = false) addrs.
Proof. exact gives_up_only_after_all. Qed.
