(* C09 -- transport failures become events, never exceptions or hangs.  Statements only.
   The exception plumbing of run() (try/except/else/finally, which class each clause catches, GeneratorExit not being an
   Exception) is transcribed by hand into the model: it is MODELLED, the correspondence runs tie it to the code.  In
   the model run is a total function: "an exception escapes the iterator" is not a possible value; the statements below
   say what comes out instead. *)
From Coq Require Import List NArith Bool.
From Model Require Import Conn.
From Proofs Require Import ShapeFacts RunFacts TraceFacts.
Import ListNotations.

(* whatever fails -- connect (any class of exception), the request write, any recv (EOF, OSError, arbitrary exception),
   any library or application write, the selector -- the event sequence ends with ConnectFail before Connected and with
   Disconnected afterwards, or the attempt is still running / was abandoned by the consumer *)
Theorem C09_failures_become_events : forall cf app c0 cn steps, k_tr c0 = [] ->
  run_shape (rev (evs (k_tr (run cf app c0 cn steps)))).
Proof. exact run_event_shape. Qed.
Print Assumptions C09_failures_become_events.

(* no hang: a failing read or selector always ends the loop *)
Theorem C09_no_hang : forall cf app steps c, existsb terminating steps = true ->
  exists c' st, loop cf app steps c = finish app c' st.
Proof. exact loop_terminates. Qed.

(* graceful only when the websocket is no longer active: the loop reports Disconnected(graceful=True) only from a state
   in which closing or closed is set (the closing handshake had started, or the websocket was closed) *)
Theorem C09_graceful_only_when_inactive : forall cf app steps c, loop_end app c (loop cf app steps c).
Proof. exact loop_ends. Qed.
Print Assumptions C09_graceful_only_when_inactive.

(* and the socket is closed on every exit *)
Theorem C09_socket_closed : forall app c st, released (finish app c st).
Proof. exact finish_released. Qed.

(* application calls report trouble only as WebSocketError subclasses (or the documented ValueError): by the type of
   the model's exn and the definition of write -- see C03/C08 for what each refusal leaves unchanged *)
Theorem C09_app_errors : forall x, is_websocket_error x = true \/ x = XTypeError \/ x = XValueError.
Proof. destruct x; cbn; auto. Qed.
