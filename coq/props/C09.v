(* C09 -- placeholder *)
Theorem C09_placeholder : True. Proof. exact I. Qed.
