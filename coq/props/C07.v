(* C07 -- every connection attempt yields a well-formed, finite event sequence.  Statements only. *)
From Coq Require Import List NArith ZArith Bool.
From Model Require Import Conn.
From Proofs Require Import ReadyFacts ShapeFacts RunFacts TimeoutEnds.
Import ListNotations.

(* for every configuration, every application strategy (reacting to everything it has observed with sends, closes or by
   abandoning the loop), every connect outcome and every environment script (handshake variants, frames, silence, EOF,
   socket errors, arbitrary exceptions, selector failures, failing writes), the chronological event sequence is one of
     [Connecting]                                         (the consumer left at Connecting)
     [Connecting; ConnectFail]
     Connecting :: Connected :: body                      (still running when the script ran out, or abandoned)
     Connecting :: Connected :: body ++ [Disconnected g]
   where body contains no Connecting / ConnectFail / Connected / Disconnected: the terminal event is unique and last *)
Theorem C07_event_shape : forall cf app c0 cn steps, k_tr c0 = [] ->
  run_shape (rev (evs (k_tr (run cf app c0 cn steps)))).
Proof. exact run_event_shape. Qed.
Print Assumptions C07_event_shape.

(* termination: once the script contains an end of stream, a socket error, an exception on recv or a raising selector,
   the loop is left through one of its exits (never "still waiting") *)
Theorem C07_terminates : forall cf app steps c, existsb terminating steps = true ->
  exists c' st, loop cf app steps c = finish app c' st.
Proof. exact loop_terminates. Qed.
Print Assumptions C07_terminates.

(* Poll and Unresponsive are produced by _regular only, and _regular does nothing before Ready *)
Theorem C07_no_housekeeping_before_ready : forall cf app c, k_ready c = false -> regular cf app c = (c, SOk).
Proof. intros. unfold regular. rewrite H. reflexivity. Qed.

Example C07_nonvacuous : run_shape [EvConnecting; EvConnected; EvReady None false; EvPoll; EvText []; EvDisconnected false].
Proof. apply (ShEnded [EvReady None false; EvPoll; EvText []] false). repeat constructor. Qed.

(* Ready occurs at most once, and Text, Binary, Ping, Pong, Poll, Closing, Closed (and Unresponsive) occur only after
   it: the chronological event list of every run -- any configuration, any application strategy, any masking keys,
   write faults and zlib results, any connect outcome, any script of selector/recv steps -- is either free of Ready and
   of all those events, or  pre ++ Ready :: post  with pre free of them and post free of a second Ready. *)
Theorem C07_ready_once_and_first : forall cf app keys wf zt ct cn steps,
  ready_shape (rev (evs (k_tr (run cf app (init keys wf zt ct) cn steps)))).
Proof. exact run_ready_shape. Qed.
Print Assumptions C07_ready_once_and_first.

(* the shape does exclude something: a message before Ready, and a second Ready *)
Example C07_ready_shape_discriminates :
  ~ ready_shape [EvConnecting; EvConnected; EvText []; EvReady None false] /\
  ~ ready_shape [EvConnecting; EvConnected; EvReady None false; EvReady None false] /\
  ready_shape [EvConnecting; EvConnected; EvReady None false; EvPoll; EvText []; EvDisconnected true].
Proof.
  split; [|split].
  - intros H. inversion H as [l F|pre p d post Fq Fp E].
    + inversion F as [|? ? _ F1]; subst. inversion F1 as [|? ? _ F2]; subst. inversion F2 as [|? ? [_ Q] _]; subst. discriminate.
    + destruct pre as [|a [|b [|c0 [|d0 pre]]]]; cbn in E; inversion E; subst; try (destruct pre; discriminate).
      inversion Fq as [|? ? _ F1]; subst. inversion F1 as [|? ? _ F2]; subst. inversion F2 as [|? ? [_ Q] _]; subst. discriminate.
  - intros H. inversion H as [l F|pre p d post Fq Fp E].
    + inversion F as [|? ? _ F1]; subst. inversion F1 as [|? ? _ F2]; subst. inversion F2 as [|? ? [Q _] _]; subst. discriminate.
    + destruct pre as [|a [|b [|c0 [|d0 pre]]]]; cbn in E; inversion E; subst; try (destruct pre; discriminate).
      * inversion Fp as [|? ? Q _]; subst. discriminate.
      * inversion Fq as [|? ? _ F1]; subst. inversion F1 as [|? ? _ F2]; subst. inversion F2 as [|? ? [Q _] _]; subst. discriminate.
  - apply (RsOnce [EvConnecting; EvConnected] None false [EvPoll; EvText []; EvDisconnected true]); repeat constructor.
Qed.

(* "iteration always terminates once ... a timeout has fired": the check instant (any wake-up of the selector, with or
   without data) at which an armed deadline has passed is the last iteration of the loop -- it is left through finish
   (C13_finally: Disconnected unless the application abandons, socket and selector closed), whatever the application does.
   The close timeout counts from the moment the client's Close went out (the state after housekeeping still says when; a
   close() at session time 0 included), the ping timeout from the last Pong. *)
Theorem C07_close_timeout_ends_the_iteration : forall cf app dt rest c v s, k_closed c = false -> k_ready c = true ->
  c_close_timeout cf = Some v -> v <> 0%Z ->
  k_sent_close_time (fst (regular cf app (advance c dt))) = Some s -> (s + v <= session_time (advance c dt))%Z ->
  exists c' st, st <> SOk /\ loop cf app (StTimeout dt :: rest) c = finish app c' st /\
                forall r, loop cf app (StRead dt r :: rest) c = finish app c' st.
Proof. exact Proofs.TimeoutEnds.close_timeout_ends_the_loop. Qed.
Print Assumptions C07_close_timeout_ends_the_iteration.

Theorem C07_ping_timeout_ends_the_iteration : forall cf app dt rest c v, k_closed c = false -> k_ready c = true ->
  c_ping_timeout cf = Some v -> v <> 0%Z ->
  (session_time (advance c dt) - k_last_pong c > v)%Z ->
  exists c' st, st <> SOk /\ loop cf app (StTimeout dt :: rest) c = finish app c' st /\
                forall r, loop cf app (StRead dt r :: rest) c = finish app c' st.
Proof. exact Proofs.TimeoutEnds.ping_timeout_ends_the_loop. Qed.
Print Assumptions C07_ping_timeout_ends_the_iteration.
