(* C07 -- placeholder *)
Theorem C07_placeholder : True. Proof. exact I. Qed.
