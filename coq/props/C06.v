(* C06 -- permessage-deflate is lossless both ways for every negotiated configuration.  Statements only.  PARTIAL:
   DEFLATE (zlib) is not modelled.  It enters as an oracle (Section variables) with two laws, which are hypotheses of the
   theorem and are checked against real zlib only by the correspondence runs (an independent RFC 7692 peer, all 256
   parameter combinations): a fresh deflater and a fresh inflater are in sync; if they are in sync, inflating what the
   deflater produced for m returns m and leaves them in sync.  The negotiated window sizes are parameters of the oracle. *)
From Coq Require Import String.
From Coq Require Import List NArith Bool.
From Coq.Strings Require Import Byte.
From Model Require Import Bytes Frame Response Conn Compression.
From Proofs Require Import ApiFacts CompressionFacts NegotiationFacts NegotiationTie DeliveryFacts DeliveryZ StreamViolation StreamViolationZ.
Import ListNotations.

(* for every message history with per-message compress flags, both no_context_takeover settings, and every way of
   cutting each message's wire payload into fragments: the receiving side -- which inflates compressed messages in wire
   order with ONE context that it replaces after a message iff no_context_takeover was negotiated -- recovers exactly
   the messages sent.  Instantiated with (sender = lomond, receiver = peer) this is the send half of C06, with
   (sender = peer, receiver = lomond's Deflate.decompress) the receive half. *)
Theorem C06_lossless : forall (zctx : Type) (fresh : zctx)
    (deflate : zctx -> bytes -> bytes * zctx) (inflate : zctx -> bytes -> option (bytes * zctx))
    (in_sync : zctx -> zctx -> Prop),
  in_sync fresh fresh ->
  (forall c d m z c', in_sync c d -> deflate c m = (z, c') -> exists d', inflate d z = Some (m, d') /\ in_sync c' d') ->
  forall negotiated nct msgs c d fs,
    in_sync c d ->
    fragmented (send_all zctx fresh deflate negotiated nct c msgs) fs ->
    recv_all zctx fresh inflate nct d fs = Some (map fst msgs).
Proof. intros zctx fresh deflate inflate in_sync H1 H2. exact (transfer_lossless zctx fresh deflate inflate in_sync H1 H2). Qed.
Print Assumptions C06_lossless.

(* RSV1 is never set without negotiation, nor with compress=False *)
Theorem C06_no_rsv1_without_negotiation : forall zctx fresh deflate nct c m z,
  fst (fst (send1 zctx fresh deflate false nct c m z)) = false.
Proof. intros. apply no_rsv1_without_negotiation. Qed.
Theorem C06_no_rsv1_when_not_requested : forall zctx fresh deflate negotiated nct c m,
  fst (send1 zctx fresh deflate negotiated nct c m false) = (false, m).
Proof. intros. apply no_rsv1_when_not_requested. Qed.

(* the connection model drives the oracle exactly like send1: one deflate result per compressed send, a new context
   epoch iff client_no_context_takeover *)
Theorem C06_model_uses_oracle_in_order : forall c op p d, k_deflate c = Some d ->
  let c' := fst (send_data c op p true) in
  k_zout c' = (if c_reset d then N.succ (k_zout c) else k_zout c) /\ k_ctape c' = tl (k_ctape c).
Proof. exact send_data_epoch. Qed.
Print Assumptions C06_model_uses_oracle_in_order.

(* window-size parameters outside 8..15 (or not a number) never yield a configuration *)
Theorem C06_params_in_range : forall opts k n, get_wbits opts k = Some n -> (8 <= n <= 15)%N.
Proof. exact wbits_in_range. Qed.

(* the receiving side of the connection model drives the inflate oracle like recv1: for a message whose first frame has
   RSV1, on a connection that negotiated the extension, Message.build makes exactly one Deflate.decompress call with the
   payloads of all fragments in arrival order in the current context epoch, consumes exactly one oracle result, moves to
   a new epoch when the peer ended its DEFLATE stream inside this message (RFC 7692 7.2.3.4, KF-H) and when
   server_no_context_takeover was negotiated; a zlib error is a critical protocol error; a binary message is delivered
   as what was inflated, a text message iff what was INFLATED is well-formed UTF-8 *)
Theorem C06_receive_uses_oracle_in_order : forall c d f0 rest,
  k_deflate c = Some d -> f_rsv1 f0 = true ->
  let frames := f0 :: rest in
  let c' := fst (build_message c frames) in
  k_tr c' = TInflate (k_zin c) (map f_payload frames) :: k_tr c /\
  k_ztape c' = tl (k_ztape c) /\
  match k_ztape c with
  | Some (out, ended) :: _ =>
      k_zin c' = bump (d_reset d) (bump ended (k_zin c)) /\
      (f_op f0 = Frame.OP_BINARY -> snd (build_message c frames) = inl (MBinary out)) /\
      (f_op f0 = Frame.OP_TEXT -> snd (build_message c frames) = if Utf8.utf8_validb out then inl (MText out) else inr MCritical)
  | None :: _ | [] => k_zin c' = k_zin c /\ snd (build_message c frames) = inr MCritical
  end.
Proof. exact build_message_compressed. Qed.
Print Assumptions C06_receive_uses_oracle_in_order.

(* a message without RSV1 never reaches the inflater, negotiated or not: state and oracle tape are untouched *)
Theorem C06_plain_message_bypasses_inflater : forall c f0 rest,
  f_rsv1 f0 = false -> fst (build_message c (f0 :: rest)) = c.
Proof. exact build_message_plain_untouched. Qed.

(* ---------- "for every negotiated configuration" ---------- *)
(* the extension value a server renders for ANY permessage-deflate configuration -- each window size absent or 8..15,
   each no_context_takeover flag absent or present (324 configurations), the parameters in any order -- is read back by
   parse_extension / Deflate.from_options as exactly that configuration (an absent window size is 15); finite domain,
   decided by evaluation inside Coq and lifted *)
Theorem C06_every_configuration_is_read_back : forall ps, in_domain ps ->
  process_extensions [render_ext false false ps] None = Some (Some (cfg_of ps)).
Proof. exact negotiation_roundtrip. Qed.
Print Assumptions C06_every_configuration_is_read_back.

(* quoted window sizes and blanks around ';' and '=' do not change the reading *)
Theorem C06_configuration_spellings : forall quoted spaced ps, In ps all_param_sets ->
  process_extensions [render_ext quoted spaced ps] None = Some (Some (cfg_of ps)).
Proof. exact negotiation_roundtrip_spelling. Qed.

(* through the reply parser and the handshake decision: Ready with exactly this configuration *)
Theorem C06_configuration_through_the_handshake : forall ps, In ps all_param_sets ->
  on_response (str "s3pPLMBiTxaQ9kYGzzhZRbK+xOo="%string) (parse_response (reply_for (render_ext false false ps)))
  = HReady None (Some (cfg_of ps)).
Proof. exact negotiation_ready. Qed.
Print Assumptions C06_configuration_through_the_handshake.

(* the enumerated domain is the one stated *)
Theorem C06_configuration_domain : forall swb cwb (snct cnct : bool),
  (match swb with Some n => 8 <= n <= 15 | None => True end)%N ->
  (match cwb with Some n => 8 <= n <= 15 | None => True end)%N ->
  In ((match swb with Some n => [PSwb n] | None => [] end) ++ (match cwb with Some n => [PCwb n] | None => [] end) ++
      (if snct then [PSnct] else []) ++ (if cnct then [PCnct] else [])) all_param_sets.
Proof. exact all_param_sets_spec. Qed.

(* ... and the RUNNING code: the table obtained by executing WebSocket.process_extensions -> parse_extension ->
   Deflate.from_options of /repo on every rendering above (regenerated on every run, coq/gen/GenNegotiation.v) holds, for
   each configuration of the domain, in every parameter order and in the quoted / spaced spellings, exactly that
   configuration; the same table agrees with the model on window sizes that must be refused (NegotiationTie.v) *)
Theorem C06_running_code_reads_every_configuration : forall quoted spaced ps, In (quoted, spaced, ps) all_renderings ->
  exists s, In (s, Some (Some (NegotiationTie.tuple_of (cfg_of ps)))) Gen.GenNegotiation.impl_negotiation /\
            str s = render_ext quoted spaced ps.
Proof. exact NegotiationTie.impl_reads_every_configuration. Qed.
Print Assumptions C06_running_code_reads_every_configuration.

Theorem C06_negotiation_table_is_model :
  forallb (fun row => NegotiationTie.reading_eqb (NegotiationTie.model_reading (fst row)) (snd row))
          Gen.GenNegotiation.impl_negotiation = true.
Proof. exact NegotiationTie.table_agrees. Qed.

(* control frames are never compressed: send_ping, send_pong and close() -- with or without a negotiated
   permessage-deflate, whatever its parameters -- leave the deflate context and its oracle tape untouched, and what they
   write (if anything) is the frame built with RSV1 clear from the payload as given (RFC 7692 section 5: the extension
   operates on data messages only) *)
Theorem C06_control_frames_never_compressed : forall c a op p,
  control_call a = Some (op, p) ->
  let c' := fst (api_call c a) in
  k_zout c' = k_zout c /\ k_ctape c' = k_ctape c /\
  (k_tr c' = k_tr c \/ k_tr c' = TWrite (build op false (next_key c) p) :: k_tr c \/
   k_tr c' = TWriteFail (build op false (next_key c) p) :: k_tr c).
Proof. exact control_frames_never_compressed. Qed.
Print Assumptions C06_control_frames_never_compressed.

(* ---------- the whole stream (DeliveryZ.v, with C01) ---------- *)
(* On a connection that negotiated permessage-deflate, for every conforming frame list (RSV1 on the first fragment of a
   compressed message only, never on a control frame; any fragmentation; Pings and Pongs anywhere; any length form) cut into
   reads in any way, and any application that only sends: the inflater is called once per compressed message, in arrival
   order -- the oracle tape is consumed by exactly the compressed messages (tape' is what the reference reading leaves) --
   a message without RSV1 never reaches it, the delivered messages are the reference reading's, and the negotiated
   configuration is untouched *)
Theorem C06_inflater_results_in_order : forall cf app, Proofs.DeliveryFacts.benign app -> zpos (c_ping_timeout cf) = None ->
  forall d fs lfs ds c open tape ms open' tape',
  Proofs.DeliveryZ.idle_z d c open tape -> Proofs.DeliveryFacts.data_head open -> Forall Proofs.DeliveryZ.zframe fs ->
  Proofs.DeliveryFacts.forms_ok fs lfs ->
  Proofs.DeliveryZ.ref_messages_z open tape fs = Some (ms, open', tape') -> concat ds = Proofs.DeliveryFacts.encode_all fs lfs ->
  exists c', Proofs.ConnFacts.feed_chunks cf app c ds = (c', SOk) /\ k_ztape c' = tape' /\ k_deflate c' = Some d /\
             Proofs.DeliveryFacts.msg_events (k_tr c') = rev (map Proofs.DeliveryFacts.ev_of ms) ++ Proofs.DeliveryFacts.msg_events (k_tr c).
Proof. exact Proofs.DeliveryZ.inflater_results_in_order. Qed.
Print Assumptions C06_inflater_results_in_order.

(* how such a connection comes about: from a fresh connection, the accepted reply block that negotiates the extension (any
   configuration d that Response/Deflate.from_options reads from it: C06_configuration_through_the_handshake) leaves the
   client between two frames with compression enabled in the frame parser, that configuration installed, the inflate tape
   untouched, and no message event so far -- the state the whole-stream theorem starts from *)
Theorem C06_accepted_extension_starts_a_compressed_connection : forall cf app, Proofs.DeliveryFacts.benign app ->
  zpos (c_ping_timeout cf) = None -> forall c reply proto d,
  k_ps c = Model.FrameParser.fp_init -> k_closed c = false -> k_closing c = false -> k_sent_close_time c = None ->
  k_frames c = [] -> Proofs.DeliveryFacts.reply_block reply ->
  on_response (c_accept cf) (parse_response reply) = HReady proto (Some d) ->
  exists c', feedf cf app c reply = (c', SOk) /\ Proofs.DeliveryZ.idle_z d c' [] (k_ztape c) /\
             Proofs.DeliveryFacts.msg_events (k_tr c') = Proofs.DeliveryFacts.msg_events (k_tr c) /\ k_sock c' = k_sock c.
Proof. exact Proofs.DeliveryZ.handshake_idle_z. Qed.
Print Assumptions C06_accepted_extension_starts_a_compressed_connection.

(* a compressed message the inflater refuses (zlib error), after any conforming prefix: one critical ProtocolError, nothing
   of it delivered, the feed fails (stated with the ill-formed-text case in C05_ill_formed_inflated_text_after_conforming_prefix) *)
Theorem C06_inflate_failure_is_a_critical_error : forall cf app, Proofs.DeliveryFacts.benign app -> zpos (c_ping_timeout cf) = None ->
  forall d fs lfs c tape ms zs f lf rest,
  Proofs.DeliveryZ.idle_z d c [] tape -> Forall Proofs.DeliveryZ.zframe fs -> Proofs.DeliveryFacts.forms_ok fs lfs ->
  Proofs.DeliveryZ.ref_messages_z [] tape fs = Some (ms, [], None :: zs) ->
  Proofs.DeliveryZ.zframe f -> f_rsv1 f = true -> f_fin f = true -> form_ok lf (blen (f_payload f)) = true ->
  (f_op f = Frame.OP_TEXT \/ f_op f = Frame.OP_BINARY) ->
  let r := feedf cf app c (Proofs.DeliveryFacts.encode_all fs lfs ++ enc_frame f lf ++ rest) in
  snd r <> SOk /\
  Proofs.DeliveryFacts.msg_events (k_tr (fst r)) = rev (map Proofs.DeliveryFacts.ev_of ms) ++ Proofs.DeliveryFacts.msg_events (k_tr c) /\
  Proofs.StreamViolation.perrors (k_tr (fst r)) = true :: Proofs.StreamViolation.perrors (k_tr c).
Proof.
  intros cf app Hb Hz d fs lfs c tape ms zs f lf rest Hi Hp Hf Href Hpf Hr Hfin Hform Hop.
  exact (Proofs.StreamViolationZ.bad_compressed_message_after_prefix cf app Hb Hz d fs lfs c tape ms (None :: zs) f lf rest Hi Hp Hf Href Hpf Hr Hfin Hform Hop I).
Qed.
Print Assumptions C06_inflate_failure_is_a_critical_error.
