(* C06 -- placeholder *)
Theorem C06_placeholder : True. Proof. exact I. Qed.
