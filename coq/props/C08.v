(* C08 -- placeholder *)
Theorem C08_placeholder : True. Proof. exact I. Qed.
