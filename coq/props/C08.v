(* C08 -- the closing handshake completes correctly in both directions.  Statements only. *)
From Coq Require Import List NArith ZArith Bool.
From Coq.Strings Require Import Byte.
From RecordUpdate Require Import RecordSet.
From Model Require Import Bytes Utf8 Frame Conn.
From Proofs Require Import ApiFacts CloseFacts DeliveryFacts StreamViolation CloseStream DeliveryZ CloseStreamZ.
From Props Require C01.
Import ListNotations RecordSetNotations.
Open Scope N_scope.

(* in EVERY single-threaded history -- any configuration, any application strategy (sends and closes at any event,
   also before Ready), any environment script (data, server Close, faults) -- the trace satisfies: every successful
   write has no Close frame before it.  Hence at most one Close frame per connection and nothing after it. *)
Theorem C08_single_close_invariant : forall cf app keys wf zt ct cn steps,
  cinv (run cf app (init keys wf zt ct) cn steps).
Proof. intros. apply run_keeps. apply cinv_init. Qed.
Print Assumptions C08_single_close_invariant.

Theorem C08_at_most_one_close : forall cf app keys wf zt ct cn steps,
  (close_count (k_tr (run cf app (init keys wf zt ct) cn steps)) <= 1)%nat.
Proof. intros. apply tr_ok_one_close. apply (C08_single_close_invariant cf app keys wf zt ct cn steps). Qed.
Print Assumptions C08_at_most_one_close.

Theorem C08_nothing_written_after_close : forall cf app keys wf zt ct cn steps a x b,
  k_tr (run cf app (init keys wf zt ct) cn steps) = a ++ x :: b -> is_write x = true -> close_count b = 0%nat.
Proof. intros cf app keys wf zt ct cn steps. apply tr_ok_nothing_after_close. apply (C08_single_close_invariant cf app keys wf zt ct cn steps). Qed.
Print Assumptions C08_nothing_written_after_close.

(* client side: close(code, reason) writes exactly one Close frame carrying that code and reason *)
Theorem C08_close_writes_the_close_frame : forall c code reason,
  k_sock c = true -> k_closed c = false -> k_closing c = false -> blen (close_payload code reason) <= 125 ->
  (match k_wfaults c with [] => True | w :: _ => w = WOk end) ->
  let c' := fst (ws_close c code reason) in
  k_tr c' = TWrite (build OP_CLOSE false (next_key c) (close_payload code reason)) :: k_tr c /\
  k_closing c' = true /\ snd (ws_close c code reason) = None.
Proof. exact close_writes_the_close_frame. Qed.
Print Assumptions C08_close_writes_the_close_frame.

(* ... after which every send raises a WebSocketError and writes nothing *)
Theorem C08_sends_refused_after_close : forall c op rsv p, k_closing c = true \/ k_closed c = true ->
  exists x, snd (send_frame c op rsv p) = Some x /\ is_websocket_error x = true /\
            k_tr (fst (send_frame c op rsv p)) = k_tr c.
Proof. exact send_refused_after_close. Qed.
Print Assumptions C08_sends_refused_after_close.

(* the server's Close: completes the handshake when the client is closing (Closed, then closed := true, and a closed
   websocket ends the loop with a graceful Disconnected); otherwise Closing is yielded first -- sends are still accepted
   during that event -- and then the echo with the same code and reason *)
Theorem C08_server_close_completes : forall cf app c code reason,
  k_closed c = false -> k_closing c = true ->
  (match code with Some n => invalid_close_code n | None => false end) = false ->
  on_message cf app c (MClose code reason) =
    (let '(c1, st) := feed_yield cf app c (EvClosed code reason) (fun c1 => (c1 <| k_closed := true |> <| k_closing := false |>, SOk)) in
     (c1, st, FContinue)).
Proof. exact server_close_completes_handshake. Qed.
Theorem C08_server_close_echoed : forall cf app c code reason,
  k_closed c = false -> k_closing c = false ->
  (match code with Some n => invalid_close_code n | None => false end) = false ->
  on_message cf app c (MClose code reason) =
    (let '(c1, st) := feed_yield cf app c (EvClosing code reason)
                        (fun c1 => ((fst (ws_close c1 code reason)) <| k_closing := true |>, SOk)) in
     (c1, st, FContinue)).
Proof. exact server_close_is_echoed. Qed.
Theorem C08_closed_ends_gracefully : forall cf app steps c, k_closed c = true -> loop cf app steps c = finish app c SOk.
Proof. exact closed_ends_gracefully. Qed.

(* The whole stream, server-initiated direction: a conforming frame list (any fragmentation, control frames anywhere, any
   length forms), then the server's Close frame -- empty, or a valid status code with a UTF-8 reason -- in any length form.
   For any application that only sends: the prefix's messages are delivered, then exactly one Closing event carrying the
   server's code and reason, no ProtocolError, and the client is closing (not closed).  On a working transport the frames
   the LIBRARY writes (Proofs.DeliveryFacts.writes: every write except the ones the application's own send_* calls make
   from its handlers) are the Pongs owed for the prefix and then exactly one Close frame whose payload is byte-for-byte the
   server's (same code, same reason) -- whatever the application sends in between. *)
Theorem C08_server_close_after_conforming_prefix : forall cf app, benign app -> zpos (c_ping_timeout cf) = None ->
  forall fs lfs c open ms open' f lf code reason,
  idle c open -> data_head open -> Forall plain fs -> forms_ok fs lfs ->
  ref_messages open fs = Some (ms, open') ->
  plain f -> f_op f = OP_CLOSE -> f_fin f = true -> blen (f_payload f) <= 125 -> form_ok lf (blen (f_payload f)) = true ->
  good_close (f_payload f) code reason ->
  exists c', feedf cf app c (encode_all fs lfs ++ enc_frame f lf) = (c', SOk) /\
    msg_events (k_tr c') = EvClosing code reason :: rev (map ev_of ms) ++ msg_events (k_tr c) /\
    perrors (k_tr c') = perrors (k_tr c) /\
    k_closing c' = true /\ k_closed c' = false /\
    (c_ping_rate cf = 0%Z -> c_auto_pong cf = true -> wok c ->
     writes (k_tr c') = (OP_CLOSE, f_payload f) :: rev (pong_replies ms) ++ writes (k_tr c)).
Proof. exact server_close_after_prefix. Qed.
Print Assumptions C08_server_close_after_conforming_prefix.

Example C08_good_close_nonvacuous :
  good_close [] None [] /\ good_close [x03; xe8; x62; x79; x65] (Some 1000) [x62; x79; x65].
Proof. split; [left; repeat split; reflexivity|right; exists x03, xe8; repeat split; reflexivity]. Qed.

(* The whole stream, client-initiated direction: the client has sent its Close and is closing (parser between two frames, no
   message open); the server's Close frame -- empty, or a valid status code with a UTF-8 reason, any length form -- followed
   by ANY bytes.  For any application that only sends, with no ping/close timeout configured: exactly one Closed event with
   the server's code and reason, the websocket is then closed (so the loop ends with a graceful Disconnected and closes the
   socket: C08_closed_ends_gracefully, C13), not a single frame is written, and nothing after the Close frame is parsed. *)
Theorem C08_client_close_completed : forall cf app, benign app ->
  zpos (c_ping_timeout cf) = None -> zpos (c_close_timeout cf) = None ->
  forall c f lf code reason rest,
  closing_idle c ->
  plain f -> f_op f = OP_CLOSE -> f_fin f = true -> blen (f_payload f) <= 125 -> form_ok lf (blen (f_payload f)) = true ->
  good_close (f_payload f) code reason ->
  exists c', feedf cf app c (enc_frame f lf ++ rest) = (c', SOk) /\
    msg_events (k_tr c') = EvClosed code reason :: msg_events (k_tr c) /\
    k_closed c' = true /\ writes (k_tr c') = writes (k_tr c).
Proof. exact client_close_completed. Qed.
Print Assumptions C08_client_close_completed.

(* housekeeping while the client waits for the server's Close (no timeout configured): nothing is written, nothing changes *)
Theorem C08_quiet_while_closing : forall cf app, benign app ->
  zpos (c_ping_timeout cf) = None -> zpos (c_close_timeout cf) = None ->
  forall c, k_closing c = true ->
  snd (regular cf app c) = SOk /\ same_core c (fst (regular cf app c)) /\
  msg_events (k_tr (fst (regular cf app c))) = msg_events (k_tr c) /\
  writes (k_tr (fst (regular cf app c))) = writes (k_tr c).
Proof. exact regular_closing. Qed.
Print Assumptions C08_quiet_while_closing.

Example C08_closing_idle_nonvacuous : closing_idle (fst (ws_close C01.c0 (Some 1000) [])).
Proof. vm_compute. repeat split; reflexivity. Qed.

(* The same on a connection that negotiated permessage-deflate (CloseStreamZ.v): after any conforming prefix of compressed
   and uncompressed messages (any fragmentation, control frames between), the server's Close -- a control frame, never
   compressed -- yields exactly one Closing with its code and reason, and on a working transport the library writes the owed
   Pongs and then exactly one Close frame with byte-for-byte the server's payload *)
Theorem C08_server_close_after_conforming_prefix_compressed_connection : forall cf app, benign app -> zpos (c_ping_timeout cf) = None ->
  forall d fs lfs c open tape ms open' tape' f lf code reason,
  Proofs.DeliveryZ.idle_z d c open tape -> data_head open -> Forall Proofs.DeliveryZ.zframe fs -> forms_ok fs lfs ->
  Proofs.DeliveryZ.ref_messages_z open tape fs = Some (ms, open', tape') ->
  Proofs.DeliveryZ.zframe f -> f_rsv1 f = false -> f_op f = OP_CLOSE -> f_fin f = true -> blen (f_payload f) <= 125 ->
  form_ok lf (blen (f_payload f)) = true ->
  good_close (f_payload f) code reason ->
  exists c', feedf cf app c (encode_all fs lfs ++ enc_frame f lf) = (c', SOk) /\
    msg_events (k_tr c') = EvClosing code reason :: rev (map ev_of ms) ++ msg_events (k_tr c) /\
    perrors (k_tr c') = perrors (k_tr c) /\
    k_closing c' = true /\ k_closed c' = false /\
    (c_ping_rate cf = 0%Z -> c_auto_pong cf = true -> wok c ->
     writes (k_tr c') = (OP_CLOSE, f_payload f) :: rev (pong_replies ms) ++ writes (k_tr c)).
Proof. exact Proofs.CloseStreamZ.server_close_after_prefix_z. Qed.
Print Assumptions C08_server_close_after_conforming_prefix_compressed_connection.

(* ... and the client-initiated direction on such a connection: the client is closing, the server's Close followed by ANY
   bytes: exactly one Closed with the server's code and reason, the websocket closed, not a single frame written *)
Theorem C08_client_close_completed_compressed_connection : forall cf app, benign app ->
  zpos (c_ping_timeout cf) = None -> zpos (c_close_timeout cf) = None ->
  forall d c f lf code reason rest,
  Proofs.CloseStreamZ.closing_idle_z d c ->
  Proofs.DeliveryZ.zframe f -> f_rsv1 f = false -> f_op f = OP_CLOSE -> f_fin f = true -> blen (f_payload f) <= 125 ->
  form_ok lf (blen (f_payload f)) = true ->
  good_close (f_payload f) code reason ->
  exists c', feedf cf app c (enc_frame f lf ++ rest) = (c', SOk) /\
    msg_events (k_tr c') = EvClosed code reason :: msg_events (k_tr c) /\
    k_closed c' = true /\ writes (k_tr c') = writes (k_tr c).
Proof. exact Proofs.CloseStreamZ.client_close_completed_z. Qed.
Print Assumptions C08_client_close_completed_compressed_connection.
