(* C17 -- each connect() starts from a clean slate.  Statements only.  PARTIAL.
   In the model a connection is a value of type conn created by Conn.init; WebSocket.connect() -> reset() builds a new
   one from nothing but the configuration and the environment tapes, so the events of a connection are a function of
   (configuration, strategy, environment) alone: there is no argument through which a previous connection could reach.
   That the CODE has this shape -- nothing mutable survives connect() -- is tied by the regenerated object-graph
   inventory (obligation below) and by the differential runs (second connection vs fresh object). *)
From Coq Require Import String.
From Coq Require Import List NArith.
From Model Require Import Conn.
From Gen Require Import GenInventory.
Import ListNotations.

(* (regenerated obligation) after a connection that ended mid-message with compression negotiated, connect() was
   called again and the object graph was walked: every mutable object reachable from the WebSocket before that is
   unreachable from ws.state / ws.session afterwards, except through configuration attributes; no class-level container
   changed content during the connection *)
Definition allowed_carry : list string :=
  ["url"; "proxies"; "protocols"; "agent"; "compress"; "_headers"; "scheme"; "host"; "port"; "_host_port"; "resource"]%string.

Theorem C17_inventory :
  (forall p, In p carried_over -> In p allowed_carry) /\ class_mutated = [] /\ state_rebuilt = true.
Proof.
  split; [|split; reflexivity].
  intros p H. unfold carried_over in H. cbn in H. unfold allowed_carry. cbn.
  repeat match goal with H : _ \/ _ |- _ => destruct H as [<- | H] end; tauto.
Qed.
Print Assumptions C17_inventory.
