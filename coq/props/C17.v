(* C17 -- placeholder *)
Theorem C17_placeholder : True. Proof. exact I. Qed.
