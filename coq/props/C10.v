(* C10 -- Ready is granted only for a correct upgrade reply to a well-formed request.  Statements only.
   SHA-1 and base64 are outside the model: [accept] stands for base64(sha1(key ++ GUID)) of the key this connection sent
   and is computed by the harness from the request actually written. *)
From Coq Require Import String.
From Coq Require Import List NArith.
From Coq.Strings Require Import Byte.
From Model Require Import Bytes Parser FrameParser Response Handshake Conn.
From Proofs Require Import HandshakeFacts GenTie ShapeFacts ReadyFacts DeliveryFacts RejectFacts.
Import ListNotations.
Open Scope N_scope.

(* the decision of the model's on_response over the model's reply parser, which handles header order, letter case of
   names, optional whitespace, folding and duplicates: Ready iff status 101, Upgrade: websocket, and an accept value that
   equals the expected one UP TO LETTER CASE *)
Theorem C10_decision_partial : forall accept r proto d,
  on_response accept r = HReady proto d <->
  r_status r = Some 101 /\
  (exists u, resp_get r (str "upgrade"%string) = Some u /\ lower_s u = str "websocket"%string) /\
  (exists a, resp_get r (str "sec-websocket-accept"%string) = Some a /\ lower_s a = lower_s accept) /\
  process_extensions (resp_get_list r (str "sec-websocket-extensions"%string)) None = Some d /\
  proto = resp_get r (str "sec-websocket-protocol"%string).
Proof. exact on_response_ready_iff. Qed.
Print Assumptions C10_decision_partial.

(* the statement as given (accept EQUAL to the digest) is false of the faithful model -- and of the code: known finding
   KF-D; the witness below is replayed on the implementation by the check (family C10:replies, kind accept_case) *)
Theorem C10_decision_refuted : ~ full_statement.
Proof. exact full_statement_refuted. Qed.
Print Assumptions C10_decision_refuted.

Theorem C10_rejected_otherwise : forall accept r,
  (exists p d, on_response accept r = HReady p d) \/ on_response accept r = HRejected.
Proof. exact on_response_cases. Qed.

(* a rejected reply, seen at the level of the whole connection attempt: for ANY application strategy (sending, closing or
   abandoning at any event), any masking keys and write faults, any further reads or failures afterwards -- when the first
   read delivers a complete reply block that the decision above rejects, no event of the run is Ready, Text, Binary,
   Ping, Pong, Poll, Closing, Closed or Unresponsive (the socket is closed on every exit: C09/C13) *)
Theorem C10_rejected_no_ready_no_messages : forall cf app keys wf zt ct dt0 reply rest,
  reply_block reply -> on_response (c_accept cf) (parse_response reply) = HRejected ->
  Forall quiet (evs (k_tr (run cf app (init keys wf zt ct) CnOk (StRead dt0 (RData reply) :: rest)))).
Proof. exact rejected_run. Qed.
Print Assumptions C10_rejected_no_ready_no_messages.

(* ... and likewise when the first read holds a header block that exceeds 16 KiB, terminated or not: the run reports a
   ProtocolError and yields no Ready and no message event, whatever the application does *)
Theorem C10_oversize_block_no_ready_no_messages : forall cf app keys wf zt ct dt0 d rest,
  16384 < N.of_nat (length d) -> (forall i, find_sep CRLFCRLF d = Some i -> 16384 < N.of_nat (i + 4)) ->
  Forall quiet (evs (k_tr (run cf app (init keys wf zt ct) CnOk (StRead dt0 (RData d) :: rest)))).
Proof. exact too_long_run. Qed.
Print Assumptions C10_oversize_block_no_ready_no_messages.

Theorem C10_header_block_limit : forall d, 16384 < N.of_nat (length d) ->
  (forall i, find_sep CRLFCRLF d = Some i -> 16384 < N.of_nat (i + 4)) ->
  fp_pull fp_init d = Err PE_HeaderTooLong.
Proof. exact header_block_too_long. Qed.
Print Assumptions C10_header_block_limit.

Theorem C10_request_shape : forall q,
  build_request q = join CRLF ((str "GET "%string ++ q_resource q ++ str " HTTP/1.1"%string) :: map header_line (request_headers q) ++ [CRLF]) /\
  In (str "Host"%string, q_host q ++ str ":"%string ++ decimal (q_port q)) (request_headers q) /\
  In (str "Upgrade"%string, str "websocket"%string) (request_headers q) /\
  In (str "Connection"%string, str "Upgrade"%string) (request_headers q) /\
  In (str "Sec-WebSocket-Key"%string, q_key q) (request_headers q) /\
  In (str "Sec-WebSocket-Version"%string, decimal (q_version q)) (request_headers q) /\
  (forall h, In h (q_custom q) -> In h (request_headers q)).
Proof. exact request_shape. Qed.

(* (regenerated) the GUID and the protocol version used by the running code are the RFC's *)
Theorem C10_constants : map n2b Gen.GenConst.impl_ws_key = rfc_guid /\ Gen.GenConst.impl_ws_version = 13.
Proof. destruct impl_constants as (A & B & _). split; assumption. Qed.

Example C10_reply_spellings :
  let acc := str "s3pPLMBiTxaQ9kYGzzhZRbK+xOo="%string in
  (* permuted, names in other letter case, padded, folded *)
  on_response acc (parse_response (str "HTTP/1.1 101 OK"%string ++ CRLF ++ str "sec-websocket-ACCEPT:"%string ++ CRLF ++
                                   str "   s3pPLMBiTxaQ9kYGzzhZRbK+xOo=  "%string ++ CRLF ++ str "UPGRADE:   WebSocket"%string ++ CRLFCRLF))
    = HReady None None /\
  on_response acc (parse_response (str "HTTP/1.1 200 OK"%string ++ CRLF ++ str "Upgrade: websocket"%string ++ CRLF ++
                                   str "Sec-WebSocket-Accept: s3pPLMBiTxaQ9kYGzzhZRbK+xOo="%string ++ CRLFCRLF)) = HRejected /\
  on_response acc (parse_response (str "HTTP/1.1 101 OK"%string ++ CRLF ++ str "Upgrade: websocket"%string ++ CRLF ++
                                   str "Sec-WebSocket-Accept: AAAAAAAAAAAAAAAAAAAAAAAAAAA="%string ++ CRLFCRLF)) = HRejected.
Proof. vm_compute. repeat split; reflexivity. Qed.
