(* C10 -- placeholder *)
Theorem C10_placeholder : True. Proof. exact I. Qed.
