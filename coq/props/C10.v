(* C10 -- Ready is granted only for a correct upgrade reply to a well-formed request.  Statements only.
   The decision theorems are stated for any expected value [accept]; the theorems at the end instantiate it with what
   lomond computes, base64(sha1(base64(16 random bytes) ++ GUID)), using the model's own SHA-1 and base64 (Digest.v),
   which every run compares with hashlib/base64 and with the real WebSocket object (family C10:digest). *)
From Coq Require Import String.
From Coq Require Import List NArith Arith ZArith.
From Coq.Strings Require Import Byte.
From Model Require Import Bytes Parser FrameParser Response Handshake Conn Digest Url.
From Proofs Require Import HandshakeFacts GenTie ShapeFacts ReadyFacts DeliveryFacts RejectFacts DigestFacts DigestRun UrlFacts ResponseFacts ReplyBlock.
Import ListNotations.
Open Scope N_scope.

(* the decision of the model's on_response over the model's reply parser, which handles header order, letter case of
   names, optional whitespace, folding and duplicates: Ready iff status 101, Upgrade: websocket, and an accept value that
   equals the expected one UP TO LETTER CASE *)
Theorem C10_decision_partial : forall accept r proto d,
  on_response accept r = HReady proto d <->
  r_status r = Some 101 /\
  (exists u, resp_get r (str "upgrade"%string) = Some u /\ lower_s u = str "websocket"%string) /\
  (exists a, resp_get r (str "sec-websocket-accept"%string) = Some a /\ lower_s a = lower_s accept) /\
  process_extensions (resp_get_list r (str "sec-websocket-extensions"%string)) None = Some d /\
  proto = resp_get r (str "sec-websocket-protocol"%string).
Proof. exact on_response_ready_iff. Qed.
Print Assumptions C10_decision_partial.

(* the statement as given (accept EQUAL to the digest) is false of the faithful model -- and of the code: known finding
   KF-D; the witness below is replayed on the implementation by the check (family C10:replies, kind accept_case) *)
Theorem C10_decision_refuted : ~ full_statement.
Proof. exact full_statement_refuted. Qed.
Print Assumptions C10_decision_refuted.

Theorem C10_rejected_otherwise : forall accept r,
  (exists p d, on_response accept r = HReady p d) \/ on_response accept r = HRejected.
Proof. exact on_response_cases. Qed.

(* a rejected reply, seen at the level of the whole connection attempt: for ANY application strategy (sending, closing or
   abandoning at any event), any masking keys and write faults, any further reads or failures afterwards -- when the first
   read delivers a complete reply block that the decision above rejects, no event of the run is Ready, Text, Binary,
   Ping, Pong, Poll, Closing, Closed or Unresponsive (the socket is closed on every exit: C09/C13) *)
Theorem C10_rejected_no_ready_no_messages : forall cf app keys wf zt ct dt0 reply rest,
  reply_block reply -> on_response (c_accept cf) (parse_response reply) = HRejected ->
  Forall quiet (evs (k_tr (run cf app (init keys wf zt ct) CnOk (StRead dt0 (RData reply) :: rest)))).
Proof. exact rejected_run. Qed.
Print Assumptions C10_rejected_no_ready_no_messages.

(* ... and likewise when the first read holds a header block that exceeds 16 KiB, terminated or not: the run reports a
   ProtocolError and yields no Ready and no message event, whatever the application does *)
Theorem C10_oversize_block_no_ready_no_messages : forall cf app keys wf zt ct dt0 d rest,
  16384 < N.of_nat (length d) -> (forall i, find_sep CRLFCRLF d = Some i -> 16384 < N.of_nat (i + 4)) ->
  Forall quiet (evs (k_tr (run cf app (init keys wf zt ct) CnOk (StRead dt0 (RData d) :: rest)))).
Proof. exact too_long_run. Qed.
Print Assumptions C10_oversize_block_no_ready_no_messages.

Theorem C10_header_block_limit : forall d, 16384 < N.of_nat (length d) ->
  (forall i, find_sep CRLFCRLF d = Some i -> 16384 < N.of_nat (i + 4)) ->
  fp_pull fp_init d = Err PE_HeaderTooLong.
Proof. exact header_block_too_long. Qed.
Print Assumptions C10_header_block_limit.

Theorem C10_request_shape : forall q,
  build_request q = join CRLF ((str "GET "%string ++ q_resource q ++ str " HTTP/1.1"%string) :: map header_line (request_headers q) ++ [CRLF]) /\
  In (str "Host"%string, q_host q ++ str ":"%string ++ decimal (q_port q)) (request_headers q) /\
  In (str "Upgrade"%string, str "websocket"%string) (request_headers q) /\
  In (str "Connection"%string, str "Upgrade"%string) (request_headers q) /\
  In (str "Sec-WebSocket-Key"%string, q_key q) (request_headers q) /\
  In (str "Sec-WebSocket-Version"%string, decimal (q_version q)) (request_headers q) /\
  (forall h, In h (q_custom q) -> In h (request_headers q)).
Proof. exact request_shape. Qed.

(* (regenerated) the GUID and the protocol version used by the running code are the RFC's *)
Theorem C10_constants : map n2b Gen.GenConst.impl_ws_key = rfc_guid /\ Gen.GenConst.impl_ws_version = 13.
Proof. destruct impl_constants as (A & B & _). split; assumption. Qed.

Example C10_reply_spellings :
  let acc := str "s3pPLMBiTxaQ9kYGzzhZRbK+xOo="%string in
  (* permuted, names in other letter case, padded, folded *)
  on_response acc (parse_response (str "HTTP/1.1 101 OK"%string ++ CRLF ++ str "sec-websocket-ACCEPT:"%string ++ CRLF ++
                                   str "   s3pPLMBiTxaQ9kYGzzhZRbK+xOo=  "%string ++ CRLF ++ str "UPGRADE:   WebSocket"%string ++ CRLFCRLF))
    = HReady None None /\
  on_response acc (parse_response (str "HTTP/1.1 200 OK"%string ++ CRLF ++ str "Upgrade: websocket"%string ++ CRLF ++
                                   str "Sec-WebSocket-Accept: s3pPLMBiTxaQ9kYGzzhZRbK+xOo="%string ++ CRLFCRLF)) = HRejected /\
  on_response acc (parse_response (str "HTTP/1.1 101 OK"%string ++ CRLF ++ str "Upgrade: websocket"%string ++ CRLF ++
                                   str "Sec-WebSocket-Accept: AAAAAAAAAAAAAAAAAAAAAAAAAAA="%string ++ CRLFCRLF)) = HRejected.
Proof. vm_compute. repeat split; reflexivity. Qed.

(* ---------- the digest inside the model ---------- *)
(* base64 as the model (and, by the correspondence check, base64.b64encode) computes it can be decoded again: distinct
   random bytes give distinct keys; the text has the RFC 4648 length and alphabet, so neither a key nor an accept value
   can contain CR, LF, blank, colon or comma and break the header line it is written into *)
Theorem C10_base64_roundtrip : forall l, b64_decode (b64_encode l) = Some l.
Proof. exact b64_decode_encode. Qed.
Print Assumptions C10_base64_roundtrip.

Definition header_safe (c : byte) : Prop := c <> CR /\ c <> LF /\ c <> SP /\ c <> HT /\ c <> COLON /\ c <> x2c.

Theorem C10_key_shape : forall rand16, List.length rand16 = 16%nat ->
  List.length (make_key rand16) = 24%nat /\
  Forall header_safe (make_key rand16) /\
  (forall r', make_key rand16 = make_key r' -> rand16 = r').
Proof.
  intros r H. split; [apply make_key_length; exact H|]. split; [apply make_key_header_safe|apply make_key_inj].
Qed.
Print Assumptions C10_key_shape.

Theorem C10_accept_shape : forall key,
  List.length (accept_of key) = 28%nat /\ List.length (sha1 (key ++ WS_GUID)) = 20%nat /\
  Forall header_safe (accept_of key).
Proof. intros k. split; [apply accept_of_length|]. split; [apply sha1_length|apply accept_of_header_safe]. Qed.
Print Assumptions C10_accept_shape.

(* SHA-1's padding is to whole 64-byte blocks, at most one block more than needed, and keeps the message *)
Theorem C10_sha1_padding : forall m,
  (List.length (sha1_pad m) mod 64 = 0)%nat /\
  (List.length m + 9 <= List.length (sha1_pad m) < List.length m + 9 + 64)%nat /\
  firstn (List.length m) (sha1_pad m) = m.
Proof. intros m. destruct (sha1_pad_length m) as [A B]. split; [exact A|]. split; [exact B|apply sha1_pad_prefix]. Qed.

(* the GUID of the model is the constant of the running code (regenerated) *)
Theorem C10_guid : map n2b Gen.GenConst.impl_ws_key = WS_GUID.
Proof. exact ws_guid_is_impl. Qed.

(* whole attempt, any application strategy, any masking keys, write faults and continuation: when the first read
   delivers a complete reply block and the run shows a Ready event, the reply has status 101, Upgrade: websocket and an
   accept value equal -- up to letter case, KF-D -- to base64(sha1(base64(rand16) ++ GUID)) for the random bytes of THIS
   attempt, whose key the request carries *)
Theorem C10_ready_only_for_the_digest : forall cf app keys wf zt ct dt0 reply rest rand16,
  c_accept cf = accept_of (make_key rand16) ->
  reply_block reply ->
  has_ready (evs (k_tr (run cf app (init keys wf zt ct) CnOk (StRead dt0 (RData reply) :: rest)))) ->
  r_status (parse_response reply) = Some 101 /\
  (exists u, resp_get (parse_response reply) (str "upgrade"%string) = Some u /\ lower_s u = str "websocket"%string) /\
  (exists a, resp_get (parse_response reply) (str "sec-websocket-accept"%string) = Some a /\
             lower_s a = lower_s (b64_encode (sha1 (b64_encode rand16 ++ WS_GUID)))).
Proof. exact ready_needs_digest. Qed.
Print Assumptions C10_ready_only_for_the_digest.

Theorem C10_request_carries_the_key : forall q rand16, q_key q = make_key rand16 ->
  In (str "Sec-WebSocket-Key"%string, b64_encode rand16) (request_headers q).
Proof. exact request_carries_key. Qed.

(* RFC 6455 section 1.3's worked example, and a run that does become Ready for the digest of its key *)
Example C10_rfc_sample : accept_of (str "dGhlIHNhbXBsZSBub25jZQ=="%string) = str "s3pPLMBiTxaQ9kYGzzhZRbK+xOo="%string.
Proof. vm_compute. reflexivity. Qed.
Example C10_digest_nonvacuous :
  let r16 := str "the sample nonce"%string in
  let cf := {| c_poll := 5120; c_ping_rate := 0; c_ping_timeout := None; c_auto_pong := true; c_close_timeout := None;
               c_accept := accept_of (make_key r16) |} in
  let reply := str "HTTP/1.1 101 Switching Protocols"%string ++ CRLF ++ str "Upgrade: websocket"%string ++ CRLF ++
               str "Sec-WebSocket-Accept: s3pPLMBiTxaQ9kYGzzhZRbK+xOo="%string ++ CRLFCRLF in
  make_key r16 = str "dGhlIHNhbXBsZSBub25jZQ=="%string /\
  In (EvReady None false) (evs (k_tr (run cf (fun _ => []) (init [] [] [] []) CnOk [StRead 0%Z (RData reply)]))).
Proof. vm_compute. split; [reflexivity|]. tauto. Qed.

(* ---------- the URL inside the model ---------- *)
(* a URL rendered from components that are free of the delimiters of the positions after them (scheme, optional user
   name and password, host, optional port up to 65535, path, optional query, optional fragment) is read back as exactly
   those components, scheme and host in lower case, the fragment dropped *)
Theorem C10_url_components : forall p, wf p -> parse_url (render p) = Some (expected p).
Proof. exact parse_render. Qed.
Print Assumptions C10_url_components.

(* ... hence the request of a WebSocket constructed from that URL: the request line carries path-or-"/" plus "?query"
   (never the fragment, never the authority), the Host header the lower-cased host and the explicit port or the scheme's
   default, and the key is the one handed in *)
Theorem C10_request_of_url : forall p key agent custom protos compress version, wf p ->
  exists u, parse_url (render p) = Some u /\
    let q := req_of_url u key agent custom protos compress version in
    let resource := (match p_path p with [] => [SLASH] | x => x end) ++
                    (match p_query p with Some (q0 :: q) => QMARK :: q0 :: q | _ => [] end) in
    let port := effective_port (p_port p) (bytes_eqb (lower_s (p_scheme p)) (str "wss"%string)) in
    build_request q = join CRLF ((str "GET "%string ++ resource ++ str " HTTP/1.1"%string)
                                 :: map header_line (request_headers q) ++ [CRLF]) /\
    In (str "Host"%string, lower_s (p_host p) ++ str ":"%string ++ decimal port) (request_headers q) /\
    In (str "Sec-WebSocket-Key"%string, key) (request_headers q).
Proof. exact request_of_rendered_url. Qed.
Print Assumptions C10_request_of_url.

Theorem C10_fragment_never_sent : forall p f, wf p -> parse_url (render p) =
  parse_url (render {| p_scheme := p_scheme p; p_userinfo := p_userinfo p; p_host := p_host p; p_port := p_port p;
                       p_path := p_path p; p_query := p_query p; p_fragment := f |}).
Proof. exact fragment_irrelevant. Qed.

Example C10_url_nonvacuous :
  let p := {| p_scheme := str "WSS"%string; p_userinfo := Some (str "user"%string, Some (str "pw"%string));
              p_host := str "Example.Test"%string; p_port := Some 8443; p_path := str "/chat;v=1"%string;
              p_query := Some (str "room=1"%string); p_fragment := Some (str "top"%string) |} in
  render p = str "WSS://user:pw@Example.Test:8443/chat;v=1?room=1#top"%string /\
  (exists u, parse_url (render p) = Some u /\ u_host u = str "example.test"%string /\ ws_port u = 8443 /\
             ws_secure u = true /\ ws_resource u = str "/chat;v=1?room=1"%string).
Proof. vm_compute. split; [reflexivity|]. eexists. repeat split; reflexivity. Qed.
Example C10_url_wf_example :
  wf {| p_scheme := str "ws"%string; p_userinfo := None; p_host := str "example.test"%string; p_port := None;
        p_path := []; p_query := Some (str "x=1"%string); p_fragment := None |}.
Proof.
  constructor; cbn.
  - eexists _, _. repeat split; reflexivity.
  - exact I.
  - unfold free_of. repeat constructor; cbn; intros K; repeat (destruct K as [K|K]; [discriminate K|]); exact K.
  - exact I.
  - split; [left; reflexivity|constructor].
  - unfold free_of. repeat constructor; cbn; intros K; repeat (destruct K as [K|K]; [discriminate K|]); exact K.
Qed.

(* ---------- "however the reply's headers are ordered, cased, spaced" ---------- *)
(* the reply parser inverts the rendering of a reply from a status code and a list of headers (names in any letter case,
   blanks and tabs around each value, any number of obsolete-folding continuation lines, names pairwise distinct up to
   case): the status is the one rendered; resp_get returns, for every name asked in any letter case, the stripped value
   text -- the first line's value followed by a blank and the left-stripped text of every continuation line -- and
   nothing for names that are not there *)
Theorem C10_reply_parser_inverts_rendering : forall r, wf_reply r ->
  r_status (parse_response (render_reply r)) = Some (rp_code r) /\
  (forall h q, In h (rp_lines r) -> lower_s q = key_of h ->
     resp_get (parse_response (render_reply r)) q = Some (strip (value_text h))) /\
  (forall q, ~ In (lower_s q) (map key_of (rp_lines r)) -> resp_get (parse_response (render_reply r)) q = None).
Proof. exact parse_rendered_reply. Qed.
Print Assumptions C10_reply_parser_inverts_rendering.

(* hence the decision (Ready with which protocol and extensions / Rejected) is the same for any two renderings of the same
   header set: whatever the order of the lines ... *)
Theorem C10_decision_independent_of_header_order : forall accept r r', wf_reply r -> wf_reply r' ->
  rp_code r = rp_code r' -> (forall h, In h (rp_lines r) <-> In h (rp_lines r')) ->
  on_response accept (parse_response (render_reply r)) = on_response accept (parse_response (render_reply r')).
Proof. exact decision_rendering_independent. Qed.
Print Assumptions C10_decision_independent_of_header_order.

(* ... the letter case of the names, the blanks around the values and the places where a value is folded *)
Theorem C10_decision_independent_of_spelling : forall accept r r', wf_reply r -> wf_reply r' ->
  rp_code r = rp_code r' ->
  (forall h, In h (rp_lines r) -> exists h', In h' (rp_lines r') /\ same_header h h') ->
  (forall h', In h' (rp_lines r') -> exists h, In h (rp_lines r) /\ same_header h h') ->
  on_response accept (parse_response (render_reply r)) = on_response accept (parse_response (render_reply r')).
Proof. exact decision_spelling_independent. Qed.
Print Assumptions C10_decision_independent_of_spelling.

Example C10_rendering_nonvacuous :
  let r := {| rp_version := str "HTTP/1.1"%string; rp_code := 101; rp_reason := str "Switching Protocols"%string;
              rp_lines := [ {| hl_name := str "UPGRADE"%string; hl_lead := [SP; HT]; hl_value := str "WebSocket"%string; hl_trail := [SP]; hl_cont := [] |};
                            {| hl_name := str "sec-websocket-ACCEPT"%string; hl_lead := []; hl_value := str "s3pPLMBiTxaQ9kYGzzhZRbK+xOo="%string; hl_trail := [HT; HT]; hl_cont := [] |} ] |} in
  on_response (str "s3pPLMBiTxaQ9kYGzzhZRbK+xOo="%string) (parse_response (render_reply r)) = HReady None None.
Proof. vm_compute. reflexivity. Qed.

Ltac forall_list tac := repeat (apply Forall_cons; [tac|]); apply Forall_nil.
Example C10_rendering_hypotheses_satisfiable :
  wf_reply {| rp_version := str "HTTP/1.1"%string; rp_code := 101; rp_reason := str "Switching Protocols"%string;
              rp_lines := [ {| hl_name := str "UPGRADE"%string; hl_lead := [SP; HT]; hl_value := str "WebSocket"%string; hl_trail := [SP]; hl_cont := [] |};
                            {| hl_name := str "sec-websocket-ACCEPT"%string; hl_lead := []; hl_value := str "s3pPLMBiTxaQ9kYGzzhZRbK+xOo="%string; hl_trail := [HT; HT]; hl_cont := [] |} ] |}.
Proof.
  constructor; cbn [rp_version rp_code rp_reason rp_lines].
  - split; [discriminate|]. vm_compute. forall_list reflexivity.
  - vm_compute. discriminate.
  - unfold no_crlf. vm_compute. forall_list ltac:(split; discriminate).
  - forall_list ltac:(constructor; cbn [hl_name hl_lead hl_value hl_trail];
      [split; [discriminate|vm_compute; forall_list ltac:(repeat split; try reflexivity; discriminate)]
      | forall_list ltac:(first [left; reflexivity | right; reflexivity])
      | vm_compute; forall_list ltac:(repeat split; try reflexivity; discriminate)
      | forall_list ltac:(first [left; reflexivity | right; reflexivity])
      | constructor]).
  - vm_compute. repeat constructor; cbn; intros K; repeat (destruct K as [K|K]; [discriminate K|]); exact K.
Qed.

(* an unfolded header is read as the value written (blanks stripped); a value folded at a blank reads like the unfolded one *)
Theorem C10_unfolded_value : forall h, wf_line h -> hl_cont h = [] -> strip (value_text h) = strip (hl_value h).
Proof. exact value_text_unfolded. Qed.
Example C10_folding_example :
  same_header {| hl_name := str "Upgrade"%string; hl_lead := [SP]; hl_value := str "web socket"%string; hl_trail := []; hl_cont := [] |}
              {| hl_name := str "UPGRADE"%string; hl_lead := []; hl_value := str "web"%string; hl_trail := [];
                 hl_cont := [([SP; HT], str "socket"%string)] |}.
Proof. exact folding_example. Qed.

(* ... and repeated: for a reply whose headers may repeat, resp_get returns for every name the fragments of all headers of
   that name (up to letter case) in arrival order, later ones behind a comma -- `collect` -- stripped *)
Theorem C10_repeated_headers : forall r, wf_reply_dup r ->
  r_status (parse_response (render_reply r)) = Some (rp_code r) /\
  forall q, resp_get (parse_response (render_reply r)) q =
            match collect (lower_s q) (rp_lines r) None with Some fr => Some (strip (concat fr)) | None => None end.
Proof. exact parse_rendered_reply_dup. Qed.
Print Assumptions C10_repeated_headers.
Example C10_repeated_header_example :
  let a := {| hl_name := str "Sec-WebSocket-Extensions"%string; hl_lead := [SP]; hl_value := str "foo"%string; hl_trail := []; hl_cont := [] |} in
  let b := {| hl_name := str "sec-websocket-extensions"%string; hl_lead := []; hl_value := str "permessage-deflate"%string; hl_trail := [SP]; hl_cont := [] |} in
  match collect (str "sec-websocket-extensions"%string) [a; b] None with
  | Some fr => strip (concat fr) = str "foo,permessage-deflate"%string
  | None => False
  end.
Proof. exact repeated_header_example. Qed.

(* ---------- end to end ---------- *)
(* a rendered reply of at most 16 KiB is one header block in the sense of the run-level theorems: its first CRLF CRLF is
   its end *)
Theorem C10_rendered_reply_is_a_block : forall r, wf_reply_dup r -> N.of_nat (List.length (render_reply r)) <= 16384 ->
  reply_block (render_reply r).
Proof. exact rendered_reply_is_a_block. Qed.
Print Assumptions C10_rendered_reply_is_a_block.

(* whole attempt, any application strategy, any masking keys, write faults and continuation, ANY rendering (order of the
   headers, letter case of the names, blanks, folding) of a reply of at most 16 KiB: a Ready event implies that the reply
   has status 101 and, as a SET of headers, an Upgrade header reading websocket and a Sec-WebSocket-Accept header reading
   -- up to letter case, KF-D -- base64(sha1(base64(rand16) ++ GUID)) for the random bytes of THIS attempt *)
Theorem C10_ready_only_for_a_correct_header_set : forall cf app keys wf zt ct dt0 r rest rand16,
  c_accept cf = accept_of (make_key rand16) ->
  wf_reply r -> N.of_nat (List.length (render_reply r)) <= 16384 ->
  has_ready (evs (k_tr (run cf app (init keys wf zt ct) CnOk (StRead dt0 (RData (render_reply r)) :: rest)))) ->
  rp_code r = 101 /\
  (exists h, In h (rp_lines r) /\ key_of h = str "upgrade"%string /\ lower_s (strip (value_text h)) = str "websocket"%string) /\
  (exists h, In h (rp_lines r) /\ key_of h = str "sec-websocket-accept"%string /\
             lower_s (strip (value_text h)) = lower_s (b64_encode (sha1 (b64_encode rand16 ++ WS_GUID)))).
Proof. exact ready_needs_digest_headers. Qed.
Print Assumptions C10_ready_only_for_a_correct_header_set.

(* SHA-1's padding is a faithful encoding: messages shorter than 2^61 bytes with the same padded form are equal *)
Theorem C10_sha1_padding_injective : forall m m', blen m < 2305843009213693952 -> blen m' < 2305843009213693952 ->
  sha1_pad m = sha1_pad m' -> m = m'.
Proof. exact sha1_pad_inj. Qed.
