(* C12 -- close() is atomic with respect to other threads' sends and closes.  Statements only.
   The model (Model.Conc) runs any number of threads, each performing any list of calls -- sends, close(), the event
   loop processing a server Close, on_disconnect() -- one shared-state action at a time under an arbitrary schedule. *)
From Coq Require Import List.
From Model Require Import Conc.
From Proofs Require Import ConcFacts.
Import ListNotations.

(* for every set of programs and every schedule: at most one Close frame is ever started on the wire *)
Theorem C12_at_most_one_close : forall progs sched,
  closes (s_wire (fst (exec (init_shared, map mk_thread progs) sched))) <= 1.
Proof. exact at_most_one_close. Qed.
Print Assumptions C12_at_most_one_close.

(* ... and no frame of any kind (data or control) is started after it: s_wire is most recent first, so in
   a ++ x :: b the parts b were written before x; if x starts a frame there is no Close among them *)
Theorem C12_nothing_after_close : forall progs sched a x b,
  s_wire (fst (exec (init_shared, map mk_thread progs) sched)) = a ++ x :: b -> is_p1 x = true -> closes b = 0.
Proof. exact no_frame_after_close. Qed.
Print Assumptions C12_nothing_after_close.

(* the invariant behind both, preserved by every step of every thread *)
Theorem C12_invariant : forall st t, sys_inv st -> sys_inv (sched_step st t).
Proof. exact sched_step_inv. Qed.
Print Assumptions C12_invariant.

(* the schedule that broke the unrepaired code is a schedule of this model: close() on thread 0, then send_text on
   thread 1 racing with the event loop completing the handshake on thread 2 *)
Example C12_nonvacuous :
  let st := exec (init_shared, map mk_thread [[KClose 5]; [KSend true false 1]; [KServerClose]])
                 [0;0;0;0;0;0;0;0;0;0;0; 1;1; 2;2;2;2;2;2; 1;1;1;1] in
  closes (s_wire (fst st)) = 1 /\ length (s_wire (fst st)) = 2 /\
  map th_results (snd st) = [[(KClose 5, None)]; [(KSend true false 1, Some EClosing)]; [(KServerClose, None)]].
Proof. vm_compute. repeat split; reflexivity. Qed.
