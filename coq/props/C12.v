(* C12 -- placeholder *)
Theorem C12_placeholder : True. Proof. exact I. Qed.
