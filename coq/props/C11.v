(* C11 -- placeholder *)
Theorem C11_placeholder : True. Proof. exact I. Qed.
