(* C11 -- concurrent senders never corrupt the wire.  Statements only. *)
From Coq Require Import List.
From Model Require Import Conc.
From Proofs Require Import ConcFacts.
Import ListNotations.

(* for every set of programs (any number of threads, any calls, compressed or not) and every schedule, the bytes on
   the wire are a sequence of whole frames -- part 1 immediately followed by part 2 of the same frame of the same
   thread -- except that the thread inside the write's critical section may have written the first half of its own
   frame; frames are never interleaved or torn *)
Theorem C11_whole_frames : forall progs sched,
  let st := exec (init_shared, map mk_thread progs) sched in
  complete (s_wire (fst st)) \/
  exists t c r, s_lock (fst st) = Some t /\ s_wire (fst st) = mkp t c P1 :: r /\ complete r.
Proof. exact whole_frames. Qed.
Print Assumptions C11_whole_frames.

Theorem C11_invariant : forall sched st, sys_inv st -> sys_inv (exec st sched).
Proof. exact exec_inv. Qed.
Print Assumptions C11_invariant.

Example C11_nonvacuous :
  let st := exec (init_shared, map mk_thread [[KSend true true 1]; [KSend true true 2]])
                 [0;0;0; 1; 0;0;0; 1; 0;0;0;0; 1;1;1;1;1;1;1;1;1;1] in
  complete (s_wire (fst st)) /\ length (s_wire (fst st)) = 4 /\ rev (s_zorder (fst st)) = [(0, 1); (1, 2)] /\
  map (fun w => w_tid w) (rev (s_wire (fst st))) = [0; 0; 1; 1].
Proof. vm_compute. repeat split; try reflexivity. apply (CFrame 1 (KSend true true 2)). apply (CFrame 0 (KSend true true 1)). constructor. Qed.
