(* C11 -- concurrent senders never corrupt the wire.  Statements only. *)
From Coq Require Import List.
From Model Require Import Conc.
From Proofs Require Import ConcFacts ConcOrder ConcDeflate.
Import ListNotations.

(* for every set of programs (any number of threads, any calls, compressed or not) and every schedule, the bytes on
   the wire are a sequence of whole frames -- part 1 immediately followed by part 2 of the same frame of the same
   thread -- except that the thread inside the write's critical section may have written the first half of its own
   frame; frames are never interleaved or torn *)
Theorem C11_whole_frames : forall progs sched,
  let st := exec (init_shared, map mk_thread progs) sched in
  complete (s_wire (fst st)) \/
  exists t c r, s_lock (fst st) = Some t /\ s_wire (fst st) = mkp t c P1 :: r /\ complete r.
Proof. exact whole_frames. Qed.
Print Assumptions C11_whole_frames.

Theorem C11_invariant : forall sched st, sys_inv st -> sys_inv (exec st sched).
Proof. exact exec_inv. Qed.
Print Assumptions C11_invariant.

(* each thread's frames reach the wire in the order of the calls it made: the completed frames of thread t, oldest first,
   are a subsequence of the messages of its program, in program order (so none is duplicated or overtaken by a later one
   of the same thread) -- for every set of programs and every schedule *)
Theorem C11_thread_order : forall progs sched t calls,
  nth_error progs t = Some calls ->
  subseq (rev (wire_of t (fst (exec (init_shared, map mk_thread progs) sched)))) (map msg_of calls).
Proof. exact thread_order. Qed.
Print Assumptions C11_thread_order.

(* ... and contains every message whose send returned normally: nothing that was accepted is lost *)
Theorem C11_sent_is_on_wire : forall progs sched t th c,
  nth_error (snd (exec (init_shared, map mk_thread progs) sched)) t = Some th ->
  In (c, None) (th_results th) -> is_send c = true ->
  In (msg_of c) (wire_of t (fst (exec (init_shared, map mk_thread progs) sched))).
Proof. exact sent_is_on_wire. Qed.
Print Assumptions C11_sent_is_on_wire.

(* compression with context takeover: the compressed frames on the wire are, in wire order, exactly the first messages
   that went through the shared deflate context, in that order (lists are most recent first, so "first" is the tail);
   the context may be ahead of the wire only by the one message in flight under Deflate.lock or, once no frame can be
   written any more (socket gone, closing or closed), by sends that were refused.  So the peer, inflating frames in
   wire order, always feeds its inflater the stream the deflater produced. *)
Theorem C11_deflate_order : forall progs sched,
  let s := fst (exec (init_shared, map mk_thread progs) sched) in
  (exists pre, s_zorder s = pre ++ zwire s) /\
  (s_zlock s = None -> exists pre, s_zorder s = pre ++ zwire s /\ (pre <> [] -> dead s = true)).
Proof. exact deflate_order. Qed.
Print Assumptions C11_deflate_order.

Example C11_nonvacuous :
  let st := exec (init_shared, map mk_thread [[KSend true true 1]; [KSend true true 2]])
                 [0;0;0; 1; 0;0;0; 1; 0;0;0;0; 1;1;1;1;1;1;1;1;1;1] in
  complete (s_wire (fst st)) /\ length (s_wire (fst st)) = 4 /\ rev (s_zorder (fst st)) = [(0, 1); (1, 2)] /\
  map (fun w => w_tid w) (rev (s_wire (fst st))) = [0; 0; 1; 1].
Proof. vm_compute. repeat split; try reflexivity. apply (CFrame 1 (KSend true true 2)). apply (CFrame 0 (KSend true true 1)). constructor. Qed.
