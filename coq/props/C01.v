(* C01 -- every message of a conforming server is delivered once, in order, byte-exact.  Statements only. *)
From Coq.Strings Require Import Byte String.
From Coq Require Import List NArith ZArith Bool.
From Model Require Import Bytes Utf8 Frame Parser FrameParser Response Conn.
From Proofs Require Import FrameParserFacts ConnFacts DeliveryFacts DeliveryZ.
Import ListNotations.
Open Scope N_scope.

(* One frame.  The frame parser (lomond/frame_parser.py over lomond/parser.py), between two frames, given the bytes of a
   frame as a conforming server encodes it -- unmasked, reserved bits clear, the payload length in ANY of the three
   length forms that can hold it (7-bit, 16-bit, 64-bit; minimal or not) -- followed by any further bytes: it yields
   exactly that frame (same FIN, opcode and payload bytes), leaves exactly the further bytes, and is again between two
   frames with its text bookkeeping advanced.  For every payload, of every size below 2^63. *)
Theorem C01_one_frame_any_length_form : forall s t u f lf rest u',
  at_boundary s t u -> plain f -> form_ok lf (blen (f_payload f)) = true ->
  validate_err false (hdr_of f) (blen (f_payload f)) = false ->
  (textual f t = true -> uvalidate u (f_payload f) = Some u') ->
  exists s', fp_pull s (enc_frame f lf ++ rest) = Item (IFrame f) s' rest /\
             at_boundary s' (is_text_after f t) (u_after f t u u').
Proof. exact pull_one_frame. Qed.
Print Assumptions C01_one_frame_any_length_form.

(* The whole stream.  [ref_messages open fs] is the reference reading of RFC 6455 sections 5.4/5.5 (DeliveryFacts.v, 40
   lines, independent of the implementation's structure): it walks the frame list, lets Ping/Pong through at once even
   between the fragments of a data message, concatenates TEXT/BINARY + CONTINUATION* up to FIN, and answers with the
   messages in the order in which they COMPLETE, or None if the list is not a conforming stream.
   For EVERY frame list fs the reference accepts, each frame encoded in any legal length form (lfs), fed to the model of
   WebSocket.feed / WebsocketStream.feed / FrameParser / Message.build / the session's per-event work from a connection
   that is between two frames: the feed ends normally, the message events appended to the trace are exactly the
   reference's messages -- one event per message, in completion order, with the reference's payload bytes (Text: the
   UTF-8 bytes, validity established; Binary/Ping/Pong byte-exact) -- and the connection is again between two frames
   with the reference's open fragments, so the statement composes over successive reads.
   Hypotheses about the environment: the application is [benign] -- whatever it has observed, it reacts with sends only
   (text, binary, ping, pong; any number, at any event), it does not call close() and does not leave the loop; the
   session's own automatic Pong is in the model -- and no ping timeout is configured (otherwise Unresponsive may legally
   intervene: C07).  Close frames are not in this theorem: see C08/C09 and the correspondence check. *)
Theorem C01_delivery : forall cf app, benign app -> zpos (c_ping_timeout cf) = None ->
  forall fs lfs c open ms open',
  idle c open -> data_head open -> Forall plain fs -> forms_ok fs lfs ->
  ref_messages open fs = Some (ms, open') ->
  exists c', feedf cf app c (encode_all fs lfs) = (c', SOk) /\ idle c' open' /\ data_head open' /\
             msg_events (k_tr c') = rev (map ev_of ms) ++ msg_events (k_tr c) /\ k_sock c' = k_sock c /\
             (wfacts cf c c' ms).       (* what is written meanwhile: see C14 *)
Proof. exact deliver_frames. Qed.
Print Assumptions C01_delivery.

(* ... however the transport cuts the encoded stream into reads (with C02) *)
Theorem C01_delivery_any_chunking : forall cf app, benign app -> zpos (c_ping_timeout cf) = None ->
  forall fs lfs ds c open ms open',
  idle c open -> data_head open -> Forall plain fs -> forms_ok fs lfs ->
  ref_messages open fs = Some (ms, open') -> concat ds = encode_all fs lfs ->
  exists c', feed_chunks cf app c ds = (c', SOk) /\ idle c' open' /\ data_head open' /\
             msg_events (k_tr c') = rev (map ev_of ms) ++ msg_events (k_tr c) /\ k_sock c' = k_sock c /\
             (wfacts cf c c' ms).
Proof. exact deliver_frames_chunked. Qed.
Print Assumptions C01_delivery_any_chunking.

(* ... and at the level of the event loop (WebsocketSession.run): the reads may cut the encoded stream anywhere, also in
   the middle of a frame header, an extended length or a payload; between them any amount of time may pass and the
   selector may time out any number of times, with the session's Poll events and automatic Pings going on.  From a
   connection between two frames whose socket is open, the loop yields exactly the reference's messages and is left
   waiting for more (TBlocked), again between two frames. *)
Theorem C01_event_loop_delivery : forall cf app, benign app -> zpos (c_ping_timeout cf) = None ->
  forall steps c open fs lfs ms open',
  Forall quiet_step steps -> idle c open -> data_head open -> k_sock c = true ->
  Forall plain fs -> forms_ok fs lfs -> ref_messages open fs = Some (ms, open') ->
  encode_all fs lfs = concat (reads_of steps) ->
  exists c', loop cf app steps c = emit TBlocked c' /\ idle c' open' /\
             msg_events (k_tr c') = rev (map ev_of ms) ++ msg_events (k_tr c).
Proof. exact loop_delivers_all. Qed.
Print Assumptions C01_event_loop_delivery.

(* The whole connection attempt, from WebSocket.connect(): the request is written, the server's upgrade reply (any block
   the handshake decision accepts without compression) arrives in one read, then the conforming stream in any pieces.
   The message events among everything the iterator yields are exactly the messages of the reference reading: one
   event per message, in the order the messages complete, with their payloads -- for ANY application that only sends
   (text, binary, ping, pong; at Connecting, Connected, Ready, at every message and every Poll; compressed or not). *)
Theorem C01_run_delivery : forall cf app, benign app -> zpos (c_ping_timeout cf) = None ->
  forall keys wf zt ct dt0 reply proto steps fs lfs ms open',
  (match wf with [] => True | w :: _ => w = WOk end) ->
  reply_block reply -> on_response (c_accept cf) (parse_response reply) = HReady proto None ->
  Forall quiet_step steps -> Forall plain fs -> forms_ok fs lfs ->
  ref_messages [] fs = Some (ms, open') -> encode_all fs lfs = concat (reads_of steps) ->
  msg_events (k_tr (run cf app (init keys wf zt ct) CnOk (StRead dt0 (RData reply) :: steps))) = rev (map ev_of ms).
Proof. exact run_delivers_benign. Qed.
Print Assumptions C01_run_delivery.

(* ---------- the hypotheses are met: a connection right after an accepted handshake, and a stream with a fragmented
   text message (one empty fragment), a Ping between its fragments, non-minimal length forms ---------- *)
Definition cf0 : cfg :=
  {| c_poll := 5%Z; c_ping_rate := 30%Z; c_ping_timeout := None; c_auto_pong := true; c_close_timeout := Some 30%Z;
     c_accept := str "s3pPLMBiTxaQ9kYGzzhZRbK+xOo="%string |}.
Definition app0 : strategy := fun _ => [].
Definition reply0 : bytes :=
  str "HTTP/1.1 101 Switching Protocols"%string ++ CRLF ++ str "Upgrade: websocket"%string ++ CRLF ++
  str "Connection: Upgrade"%string ++ CRLF ++ str "Sec-WebSocket-Accept: s3pPLMBiTxaQ9kYGzzhZRbK+xOo="%string ++ CRLFCRLF.
Definition c0 : conn := fst (feedf cf0 app0 (init [] [] [] []) reply0).
Definition fr (fin : bool) (op : N) (p : bytes) : frame :=
  {| f_fin := fin; f_rsv1 := false; f_rsv2 := false; f_rsv3 := false; f_op := op; f_key := None; f_payload := p |}.
Definition fs0 : list frame :=
  [ fr false OP_TEXT (str "He"%string); fr true OP_PING (str "p"%string); fr false OP_CONT []; fr true OP_CONT (str "llo"%string);
    fr true OP_BINARY (repeat x00 200); fr true OP_PONG [] ].
Definition lfs0 : list lenform := [L64; L16; L7; L16; L16; L64].

Example C01_nonvacuous :
  benign app0 /\ zpos (c_ping_timeout cf0) = None /\ idle c0 [] /\ data_head [] /\ Forall plain fs0 /\ forms_ok fs0 lfs0 /\
  ref_messages [] fs0 = Some ([SPing (str "p"%string); SText (str "Hello"%string); SBinary (repeat x00 200); SPong []], []) /\
  msg_events (k_tr (fst (feedf cf0 app0 c0 (encode_all fs0 lfs0)))) =
    rev [EvPing (str "p"%string); EvText (str "Hello"%string); EvBinary (repeat x00 200); EvPong []] ++ msg_events (k_tr c0).
Proof.
  split; [intros tr; constructor|]. split; [reflexivity|].
  split. { unfold idle. vm_compute. do 5 (split; [reflexivity|]). split; [constructor|]. exists UAcc. split; reflexivity. }
  split; [exact I|].
  split. { repeat constructor; vm_compute; reflexivity. }
  split. { vm_compute. tauto. }
  split; vm_compute; reflexivity.
Qed.

(* the run-level hypotheses are met as well: the stream of fs0 cut into 7-byte reads with idle timeouts in between *)
Fixpoint chop (n : nat) (fuel : nat) (d : bytes) : list bytes :=
  match fuel with
  | O => []
  | S fuel' => match d with [] => [] | _ => firstn n d :: chop n fuel' (skipn n d) end
  end.
Definition steps0 : list step :=
  flat_map (fun d => [StTimeout 3%Z; StRead 1%Z (RData d)]) (chop 7 1000 (encode_all fs0 lfs0)).
Example C01_run_nonvacuous :
  reply_block reply0 /\ on_response (c_accept cf0) (parse_response reply0) = HReady None None /\
  Forall quiet_step steps0 /\ encode_all fs0 lfs0 = concat (reads_of steps0) /\
  msg_events (k_tr (run cf0 app0 (init [] [] [] []) CnOk (StRead 0%Z (RData reply0) :: steps0))) =
    rev [EvPing (str "p"%string); EvText (str "Hello"%string); EvBinary (repeat x00 200); EvPong []].
Proof.
  split. { exists (length reply0 - 4)%nat. vm_compute. repeat split; try reflexivity. discriminate. }
  split; [vm_compute; reflexivity|].
  split. { apply Forall_forall. intros st Hst. unfold steps0 in Hst. apply in_flat_map in Hst as (d & Hd & Hst).
           destruct Hst as [<-|[<-|[]]]; [exact I|]. destruct d; [|exact I].
           exfalso. revert Hd. vm_compute. intuition discriminate. }
  split; vm_compute; reflexivity.
Qed.

(* ---------- a connection that negotiated permessage-deflate (with C06) ---------- *)
(* The same, on a connection that negotiated permessage-deflate (any parameters): frames with RSV2/RSV3 clear, RSV1 set on
   the first fragment of a compressed message only and never on a control frame, any fragmentation, Pings and Pongs anywhere,
   any legal length form, cut into reads in any way.  The reference reading ref_messages_z takes, for every compressed
   message, the next result of the inflater (the model's oracle tape: Deflate.decompress is not modelled, C06) and for every
   other message the concatenated payloads; a text message must be well-formed UTF-8 as INFLATED (no incremental validation
   takes place on such a connection).  Then the client yields exactly those messages, in order, consumes exactly one
   inflater result per compressed message and none otherwise, stays between two frames, and -- on a working transport --
   the library writes exactly the owed Pongs (C14). *)
Theorem C01_delivery_on_a_compressed_connection : forall cf app, benign app -> zpos (c_ping_timeout cf) = None ->
  forall d fs lfs ds c open tape ms open' tape',
  Proofs.DeliveryZ.idle_z d c open tape -> data_head open -> Forall Proofs.DeliveryZ.zframe fs -> forms_ok fs lfs ->
  Proofs.DeliveryZ.ref_messages_z open tape fs = Some (ms, open', tape') -> concat ds = encode_all fs lfs ->
  exists c', feed_chunks cf app c ds = (c', SOk) /\ Proofs.DeliveryZ.idle_z d c' open' tape' /\ data_head open' /\
             msg_events (k_tr c') = rev (map ev_of ms) ++ msg_events (k_tr c) /\ k_sock c' = k_sock c /\
             wfacts cf c c' ms.
Proof. exact Proofs.DeliveryZ.deliver_frames_z_chunked. Qed.
Print Assumptions C01_delivery_on_a_compressed_connection.

(* the hypotheses are met: the connection right after a handshake that accepted permessage-deflate; a compressed text message
   in three fragments with a Ping between them, an uncompressed binary message, a compressed binary message in one frame;
   the inflater returns "Hello" for the first and 200 zero bytes for the second compressed message *)
Definition replyz : bytes :=
  str "HTTP/1.1 101 Switching Protocols"%string ++ CRLF ++ str "Upgrade: websocket"%string ++ CRLF ++
  str "Connection: Upgrade"%string ++ CRLF ++ str "Sec-WebSocket-Accept: s3pPLMBiTxaQ9kYGzzhZRbK+xOo="%string ++ CRLF ++
  str "Sec-WebSocket-Extensions: permessage-deflate; server_max_window_bits=10"%string ++ CRLFCRLF.
Definition tapez : list (option (bytes * bool)) := [Some (str "Hello"%string, false); Some (repeat x00 200, false)].
Definition cz : conn := fst (feedf cf0 app0 (init [] [] tapez []) replyz).
Definition frz (fin rsv1 : bool) (op : N) (p : bytes) : frame :=
  {| f_fin := fin; f_rsv1 := rsv1; f_rsv2 := false; f_rsv3 := false; f_op := op; f_key := None; f_payload := p |}.
Definition fsz : list frame :=
  [ frz false true OP_TEXT [xf2; x48]; frz true false OP_PING (str "p"%string); frz false false OP_CONT []; frz true false OP_CONT [xcd; xc9; xc9; x07; x00];
    frz true false OP_BINARY [x01; x02]; frz true true OP_BINARY [x62; x18; x05]; frz true false OP_PONG [] ].
Definition lfsz : list lenform := [L64; L16; L7; L16; L16; L7; L64].

Example C01_compressed_nonvacuous :
  exists d, Proofs.DeliveryZ.idle_z d cz [] tapez /\ Forall Proofs.DeliveryZ.zframe fsz /\ forms_ok fsz lfsz /\
  Proofs.DeliveryZ.ref_messages_z [] tapez fsz =
    Some ([SPing (str "p"%string); SText (str "Hello"%string); SBinary [x01; x02]; SBinary (repeat x00 200); SPong []], [], []) /\
  msg_events (k_tr (fst (feedf cf0 app0 cz (encode_all fsz lfsz)))) =
    rev [EvPing (str "p"%string); EvText (str "Hello"%string); EvBinary [x01; x02]; EvBinary (repeat x00 200); EvPong []] ++ msg_events (k_tr cz).
Proof.
  eexists. split. { unfold Proofs.DeliveryZ.idle_z. vm_compute. repeat split; reflexivity. }
  split. { repeat constructor; vm_compute; reflexivity. }
  split. { vm_compute. tauto. }
  split; vm_compute; reflexivity.
Qed.

(* the two reference readings agree where both apply: whatever the plain reading accepts (uncompressed frames; it also demands
   that every text fragment is a viable UTF-8 prefix), the reading for compressed connections accepts with the same messages
   and the inflate tape untouched -- so on a compressed connection uncompressed traffic is delivered exactly as on a plain one *)
Theorem C01_readings_agree_on_uncompressed_traffic : forall fs open tape ms open',
  Forall plain fs -> Forall (fun f => f_rsv1 f = false) open ->
  ref_messages open fs = Some (ms, open') -> Proofs.DeliveryZ.ref_messages_z open tape fs = Some (ms, open', tape).
Proof. exact Proofs.DeliveryZ.ref_messages_z_extends_ref_messages. Qed.
Print Assumptions C01_readings_agree_on_uncompressed_traffic.
