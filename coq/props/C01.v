(* C01 -- placeholder until the delivery theorem is in place *)
From Coq Require Import List.
Theorem C01_placeholder : True. Proof. exact I. Qed.
