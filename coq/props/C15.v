(* C15 -- placeholder *)
Theorem C15_placeholder : True. Proof. exact I. Qed.
