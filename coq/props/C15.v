(* C15 -- keep-alive, timeouts and polling fire when, and only when, they should.  Statements only.
   Time is in integer ticks (1/1024 s); the check instants are the moments _regular() runs: after every selector
   wake-up and after every event of a read.  "gaps_le p" is the environment hypothesis that the selector returns
   within its timeout p and that handlers take no virtual time. *)
From Coq Require Import List ZArith Bool.
From Model Require Import Conn Selector.
From Proofs Require Import TimerFacts TimerTie SelectorFacts TimerGridTie.
From Gen Require Import GenTimers.
Import ListNotations.
Open Scope Z_scope.

(* --- the model's _regular() realises the step functions --- *)
Theorem C15_regular_is_poll_step : forall cf app c, k_ready c = true ->
  k_poll_start (fst (regular cf app c)) = fst (poll_step (c_poll cf) (k_poll_start c) (session_time c)).
Proof. exact regular_poll_start. Qed.
Print Assumptions C15_regular_is_poll_step.

Theorem C15_regular_is_ping_step : forall cf app c, k_ready c = true ->
  k_next_ping (fst (regular cf app c)) = k_next_ping c \/
  k_next_ping (fst (regular cf app c)) = fst (ping_step (c_ping_rate cf) (k_next_ping c) (session_time c)).
Proof. exact regular_next_ping. Qed.
Print Assumptions C15_regular_is_ping_step.

Theorem C15_no_timer_before_ready : forall cf app c, k_ready c = false -> regular cf app c = (c, SOk).
Proof. exact regular_before_ready. Qed.

(* --- Poll: begins right after Ready, never closer than p, never further apart than 2p --- *)
Theorem C15_poll_begins_at_ready : forall p t rest, polls p None (t :: rest) = t :: polls p (Some t) rest.
Proof. exact polls_begin. Qed.
Theorem C15_poll_not_closer_than_p : forall p ts s last, s <= last -> nondecreasing_from last ts ->
  chain (fun a b => p <= b - a) s (polls p (Some s) ts).
Proof. exact polls_not_closer. Qed.
Print Assumptions C15_poll_not_closer_than_p.
Theorem C15_poll_not_further_than_2p : forall p ts s last, s <= last -> last - s < p -> nondecreasing_from last ts ->
  gaps_le p last ts -> chain (fun a b => b - a < 2 * p) s (polls p (Some s) ts).
Proof. exact polls_not_further. Qed.
Print Assumptions C15_poll_not_further_than_2p.

(* --- automatic Ping: never when r = 0; never twice in one period; within p after every multiple of r --- *)
Theorem C15_no_ping_when_rate_zero : forall np ts, pings 0 np ts = [].
Proof. exact no_pings_when_rate_zero. Qed.
Theorem C15_ping_once_per_period : forall r ts, 0 < r ->
  chain (fun a b => ceil_div a r < ceil_div b r) 0 (pings r 0 ts).
Proof. intros. apply pings_one_per_period_from_ready. assumption. Qed.
Print Assumptions C15_ping_once_per_period.
Theorem C15_ping_within_p_after_every_multiple : forall r p k, 0 < r -> forall ts np last,
  np <= k * r -> (exists j, np = j * r) -> last <= k * r -> gaps_le p last ts -> nondecreasing_from last ts ->
  (exists t, In t ts /\ k * r < t) ->
  exists u, In u (pings r np ts) /\ k * r < u <= k * r + p.
Proof. exact ping_after_every_multiple. Qed.
Print Assumptions C15_ping_within_p_after_every_multiple.

(* --- Unresponsive / forced disconnect: only when due; the close deadline is noticed within p --- *)
Theorem C15_forced_only_when_due : forall cf app c, k_ready c = true ->
  snd (regular cf app c) = SRaise SForce ->
  (exists v, c_ping_timeout cf = Some v /\ v <> 0 /\ session_time c - k_last_pong c > v) \/
  (exists v s, c_close_timeout cf = Some v /\ v <> 0 /\ k_sent_close_time (fst (regular cf app c)) = Some s /\ s + v <= session_time c).
Proof. exact regular_force_only_when_due_strong. Qed.
Print Assumptions C15_forced_only_when_due.
(* ... and whenever due: if _regular() lets the loop go on (it neither forces the disconnect nor was the loop abandoned in
   a handler), no armed deadline has passed at this check instant -- the close timeout counted from the moment the Close
   frame went out (session time 0 included), the ping timeout from the last Pong *)
Theorem C15_forced_whenever_due : forall cf app c, k_ready c = true ->
  snd (regular cf app c) = SOk ->
  (forall v s, c_close_timeout cf = Some v -> v <> 0 -> k_sent_close_time (fst (regular cf app c)) = Some s -> session_time c < s + v) /\
  (forall v, c_ping_timeout cf = Some v -> v <> 0 -> session_time c - k_last_pong c <= v).
Proof. exact regular_ok_means_not_due. Qed.
Print Assumptions C15_forced_whenever_due.
Theorem C15_unresponsive_iff : forall T lp t,
  unresponsive T lp t = true <-> exists v, T = Some v /\ v <> 0 /\ t - lp > v.
Proof. exact unresponsive_iff. Qed.
Theorem C15_close_timeout_window : forall C v s p, C = Some v -> v <> 0 -> forall ts last,
  last < s + v -> gaps_le p last ts -> nondecreasing_from last ts ->
  forall t, In t ts -> close_overdue C (Some s) t = true ->
  exists t1, In t1 ts /\ close_overdue C (Some s) t1 = true /\ s + v <= t1 <= s + v + p.
Proof. exact first_overdue_check_within_p. Qed.
Print Assumptions C15_close_timeout_window.

Example C15_nonvacuous :
  polls 5 None [0; 0; 5; 9; 10; 14; 15; 20] = [0; 5; 10; 15; 20] /\
  pings 12 0 [0; 5; 10; 15; 20; 25; 30; 35; 40] = [5; 15; 25; 40] /\
  gaps_le 5 0 [0; 5; 10; 15; 20; 25; 30; 35; 40] /\ nondecreasing_from 0 [0; 5; 10; 15; 20; 25; 30; 35; 40].
Proof. vm_compute. repeat split; intros; discriminate. Qed.

(* ---------- without the environment hypothesis ---------- *)
(* "gaps_le p" above is an assumption about the selector.  Under a selector that honours its timeout -- it returns as soon
   as the next arrival is there and after exactly the timeout otherwise (Model.Selector.wakes; the harness' HonestSelector,
   compared with it on every run) -- a loop that asks for p every time wakes up at non-decreasing instants at most p
   apart, for EVERY arrival time line; the bounds then hold outright *)
Theorem C15_honest_selector_wakes_within_p : forall fuel p now arr, 0 <= p ->
  nondecreasing_from now (wakes fuel p now arr) /\ gaps_le p now (wakes fuel p now arr).
Proof. intros. split; [apply wakes_nondecreasing|apply wakes_gaps]; assumption. Qed.
Print Assumptions C15_honest_selector_wakes_within_p.

Theorem C15_polls_under_honest_selector : forall fuel p s arr, 0 < p ->
  chain (fun a b => p <= b - a) s (polls p (Some s) (wakes fuel p s arr)) /\
  chain (fun a b => b - a < 2 * p) s (polls p (Some s) (wakes fuel p s arr)).
Proof. exact polls_under_honest_selector. Qed.
Print Assumptions C15_polls_under_honest_selector.

Theorem C15_ping_under_honest_selector : forall fuel r p k arr, 0 < r -> 0 < p -> 0 <= k ->
  (exists t, In t (wakes fuel p 0 arr) /\ k * r < t) ->
  exists u, In u (pings r 0 (wakes fuel p 0 arr)) /\ k * r < u <= k * r + p.
Proof. exact ping_under_honest_selector. Qed.

Theorem C15_close_timeout_under_honest_selector : forall fuel p v s arr, 0 < p -> v <> 0 -> 0 < s + v ->
  forall t, In t (wakes fuel p 0 arr) -> close_overdue (Some v) (Some s) t = true ->
  exists t1, In t1 (wakes fuel p 0 arr) /\ close_overdue (Some v) (Some s) t1 = true /\ s + v <= t1 <= s + v + p.
Proof. exact close_timeout_under_honest_selector. Qed.

(* an arrival is noticed the moment it is there (the loop never sleeps past available data: C18's statement on this clock) *)
Theorem C15_arrival_seen_at_once : forall fuel p now a rest, 0 <= p -> now <= a ->
  (Z.to_nat ((a - now) / Z.max p 1) + 1 <= fuel)%nat -> 0 < p -> In a (wakes fuel p now (a :: rest)).
Proof. exact arrival_seen_at_once. Qed.

(* ---------- the running code ---------- *)
(* (regenerated, TimerGridTie.v) what the RUNNING code decides -- _check_poll, _check_auto_ping, _check_ping_timeout and
   _check_close_timeout executed one by one on grids of tick values around every comparison (due / not yet due, rate 0 and None,
   timeouts 0 and None, no Close sent), and _regular executed as a whole on the session clock (what it yields, in which order,
   whether it forces the disconnect) -- is what poll_step, ping_step, unresponsive and close_overdue say, composed in the order
   Poll, Ping, Unresponsive, close deadline: the sequence theorems above are about the functions the code computes *)
Theorem C15_running_code_decides_like_the_model :
  forallb Proofs.TimerGridTie.poll_row_ok Gen.GenTimers.impl_poll_rows = true /\
  forallb Proofs.TimerGridTie.ping_row_ok Gen.GenTimers.impl_ping_rows = true /\
  forallb Proofs.TimerGridTie.unresponsive_row_ok Gen.GenTimers.impl_unresponsive_rows = true /\
  forallb Proofs.TimerGridTie.close_row_ok Gen.GenTimers.impl_close_rows = true /\
  forallb Proofs.TimerGridTie.regular_row_ok Gen.GenTimers.impl_regular_rows = true.
Proof.
  exact (conj Proofs.TimerGridTie.impl_poll_is_model (conj Proofs.TimerGridTie.impl_ping_is_model
        (conj Proofs.TimerGridTie.impl_unresponsive_is_model (conj Proofs.TimerGridTie.impl_close_is_model
        Proofs.TimerGridTie.impl_regular_is_model)))).
Qed.
Print Assumptions C15_running_code_decides_like_the_model.
