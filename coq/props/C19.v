(* C19 -- placeholder *)
Theorem C19_placeholder : True. Proof. exact I. Qed.
