(* C19 -- with a proxy configured, nothing is sent to the target before the tunnel is up.  Statements only. *)
From Coq Require Import String.
From Coq Require Import List NArith ZArith.
From Coq.Strings Require Import Byte.
From Model Require Import Bytes Parser Response Conn Proxy Handshake Digest Url.
From Proofs Require Import ParserFacts ProxyFacts DigestFacts UrlFacts.
Import ListNotations.
Open Scope N_scope.

(* the negotiation loop (recv / ProxyParser.feed until a response is yielded) gives the same outcome for every way
   of cutting the proxy's answer into non-empty reads, whatever follows (EOF, socket error, silence) *)
Theorem C19_reply_segmentation : forall ds ds' tail,
  Forall (fun d => d <> []) ds -> Forall (fun d => d <> []) ds' -> concat ds = concat ds' ->
  negotiate (map RData ds ++ tail) px_init = negotiate (map RData ds' ++ tail) px_init.
Proof. exact negotiate_segmentation. Qed.
Print Assumptions C19_reply_segmentation.

(* the parser coroutine yields a response -- the only way out of the loop that leads to Connected and to the upgrade
   request being written -- only for a header block whose status code parses to 200 *)
Theorem C19_tunnel_only_on_200 : forall buf x g a n,
  px_resume tt buf = RItem x g a n -> r_status (parse_response buf) = Some 200.
Proof. exact tunnel_only_on_200. Qed.
Print Assumptions C19_tunnel_only_on_200.

Theorem C19_tunnel_needs_complete_block : forall script s, px_ok s -> negotiate script s = PxTunnel ->
  exists d s1 x s2 r, In (RData d) script /\ px_pull s1 d = Item x s2 r.
Proof. exact negotiate_tunnel_needs_item. Qed.
Print Assumptions C19_tunnel_needs_complete_block.

(* the whole attempt: with a proxy configured the session either goes on like a direct connection over the tunnel, or like
   a failed connect, or is still waiting for the proxy -- and for EVERY application strategy, configuration and script, the
   upgrade request is written only if the negotiation produced the tunnel, i.e. (by the two theorems above) only after a
   complete header block with status 200 *)
Theorem C19_request_only_over_tunnel : forall cf app c0 script steps b,
  (forall b', ~ In (TWriteReq b') (k_tr c0)) ->
  In (TWriteReq b) (k_tr (run_via_proxy cf app c0 script steps)) -> negotiate script px_init = PxTunnel.
Proof. exact request_only_over_tunnel. Qed.
Print Assumptions C19_request_only_over_tunnel.

Example C19_request_nonvacuous :
  In (TWriteReq true) (k_tr (run_via_proxy (Build_cfg 5%Z 30%Z None true None []) (fun _ => []) (init [] [] [] [])
                               [RData (str "HTTP/1.1 200 OK"%string ++ CRLFCRLF)] [])) /\
  ~ In (TWriteReq true) (k_tr (run_via_proxy (Build_cfg 5%Z 30%Z None true None []) (fun _ => []) (init [] [] [] [])
                               [RData (str "HTTP/1.1 407 No"%string ++ CRLFCRLF)] [])).
Proof. vm_compute. split; [tauto|]. intros H. repeat (destruct H as [H|H]; [discriminate|]). exact H. Qed.

(* an unterminated, empty or failing answer never opens the tunnel *)
Example C19_failures :
  negotiate [REof] px_init = PxFail /\ negotiate [RData (str "HTTP/1.1 200 OK"%string); REof] px_init = PxFail /\
  negotiate [ROSErr] px_init = PxFail /\
  negotiate [RData (str "HTTP/1.1 407 Auth"%string ++ CRLFCRLF)] px_init = PxFail /\
  negotiate [RData (str "HTTP/1.1 200 OK"%string ++ CRLF); RData CRLF] px_init = PxTunnel.
Proof. vm_compute. repeat split; reflexivity. Qed.

(* proxy selection: 'https' entry for wss, 'http' entry for ws; an empty entry means no proxy *)
Example C19_pick : forall h s, pick_proxy false (Some h) s = (match h with [] => None | _ => Some h end)
                            /\ pick_proxy true s (Some h) = (match h with [] => None | _ => Some h end)
                            /\ pick_proxy false None s = None /\ pick_proxy true s None = None.
Proof. intros [|b h] s; repeat split; reflexivity. Qed.

(* ---------- the proxy URL and the credentials, inside the model ---------- *)
(* for a proxy URL rendered from its components: the socket goes to the lower-cased host and the explicit port (or 443 for
   an https proxy, 80 otherwise), TLS to the proxy iff the scheme is https, and credentials are sent iff the URL has a
   non-empty user name *)
Theorem C19_proxy_of_url : forall p, wf p ->
  exists u, parse_url (render p) = Some u /\
    u_host u = lower_s (p_host p) /\
    proxy_tls u = bytes_eqb (lower_s (p_scheme p)) (str "https"%string) /\
    proxy_port u = effective_port (p_port p) (bytes_eqb (lower_s (p_scheme p)) (str "https"%string)) /\
    proxy_user u = match p_userinfo p with Some (x :: us, pw) => Some (x :: us, pw) | _ => None end.
Proof. exact proxy_target_of_render. Qed.
Print Assumptions C19_proxy_of_url.

(* the Basic token decodes to exactly user[:password] of this proxy URL, and is a single header-safe word *)
Theorem C19_credentials_roundtrip : forall user pw,
  b64_decode (proxy_credentials user pw) = Some (match pw with Some p => user ++ COLON :: p | None => user end) /\
  Forall b64_ok (proxy_credentials user pw).
Proof. intros u pw. unfold proxy_credentials. split; [apply b64_decode_encode|apply b64_encode_alphabet]. Qed.
Print Assumptions C19_credentials_roundtrip.

(* the CONNECT request names the target and nothing of the WebSocket handshake: its lines are exactly these *)
Theorem C19_connect_request_lines : forall host port cred,
  proxy_request host port cred =
  join CRLF ((str "CONNECT "%string ++ host ++ str ":"%string ++ decimal port ++ str " HTTP/1.1"%string)
             :: (str "Host: "%string ++ host) :: str "Proxy-Connection: keep-alive"%string :: str "Connection: keep-alive"%string
             :: match cred with Some c => [str "Proxy-Authorization:: Basic "%string ++ c; CRLF] | None => [CRLF] end).
Proof. intros host port [c|]; reflexivity. Qed.

(* the CONNECT request for a target URL through a proxy URL, both rendered from components: its first line names exactly
   the lower-cased target host and the target's explicit-or-default port (80 for ws, 443 for wss); credentials are sent
   iff the PROXY URL has a non-empty user name, and they are that URL's *)
Theorem C19_connect_request_for_urls : forall pt pp, wf pt -> wf pp ->
  exists ut up, parse_url (render pt) = Some ut /\ parse_url (render pp) = Some up /\
    let cred := match proxy_user up with Some (us, pw) => Some (proxy_credentials us pw) | None => None end in
    proxy_request (u_host ut) (ws_port ut) cred =
    join CRLF ((str "CONNECT "%string ++ lower_s (p_host pt) ++ str ":"%string ++
                decimal (effective_port (p_port pt) (bytes_eqb (lower_s (p_scheme pt)) (str "wss"%string))) ++ str " HTTP/1.1"%string)
               :: (str "Host: "%string ++ lower_s (p_host pt)) :: str "Proxy-Connection: keep-alive"%string :: str "Connection: keep-alive"%string
               :: match p_userinfo pp with
                  | Some (x :: us, pw) => [str "Proxy-Authorization:: Basic "%string ++ proxy_credentials (x :: us) pw; CRLF]
                  | _ => [CRLF]
                  end).
Proof.
  intros pt pp Wt Wp.
  destruct (ws_target_of_render pt Wt) as (ut & Et & Ht & Pt & _).
  destruct (proxy_target_of_render pp Wp) as (up & Ep & _ & _ & _ & Up).
  exists ut, up. split; [exact Et|]. split; [exact Ep|]. cbv zeta.
  rewrite C19_connect_request_lines, Ht, Pt, Up.
  destruct (p_userinfo pp) as [[[|x us] pw]|]; reflexivity.
Qed.
Print Assumptions C19_connect_request_for_urls.
