(* C03 -- placeholder *)
Theorem C03_placeholder : True. Proof. exact I. Qed.
