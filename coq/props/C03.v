(* C03 -- every frame the client writes is a valid client frame that round-trips.  Statements only. *)
From Coq Require Import List NArith.
From Coq.Strings Require Import Byte.
From Model Require Import Bytes Frame Conn.
From Proofs Require Import BuildTie FrameFacts ApiFacts.
Import ListNotations.
Open Scope N_scope.

(* Frame.build against the reference decoder of RFC 6455 section 5.2 (which refuses unmasked frames and non-minimal
   length encodings): for every opcode, RSV1 flag, 4-byte key and payload below 2^63 bytes, the bytes decode to exactly
   one frame with FIN set, RSV2/RSV3 clear, that key, and -- after unmasking -- the original payload; nothing trails *)
Theorem C03_build_roundtrip : forall op rsv1 key payload,
  length key = 4%nat -> op < 16 -> blen payload < 9223372036854775808 ->
  server_decode (build op rsv1 key payload) = Some (client_frame op rsv1 key payload, []).
Proof. exact build_roundtrip. Qed.
Print Assumptions C03_build_roundtrip.

(* an accepted send performs exactly one sendall, of Frame.build with the next masking key *)
Theorem C03_accepted_send_writes_one_frame : forall c op rsv1 p c',
  send_frame c op rsv1 p = (c', None) -> k_tr c' = TWrite (build op rsv1 (next_key c) p) :: k_tr c.
Proof. exact send_frame_accepted. Qed.
Print Assumptions C03_accepted_send_writes_one_frame.

Theorem C03_accepted_call_decodes : forall c op p z c',
  keys_ok c -> op < 16 -> blen p < 9223372036854775808 ->
  (k_deflate c = None \/ z = false) -> send_data c op p z = (c', None) ->
  exists w, k_tr c' = TWrite w :: k_tr c /\ server_decode w = Some (client_frame op false (next_key c) p, []).
Proof. exact accepted_call_decodes. Qed.
Print Assumptions C03_accepted_call_decodes.

(* RSV1 is set exactly when compression was negotiated and requested; the deflate call is logged before the write *)
Theorem C03_rsv1_only_when_negotiated : forall c op p d c',
  k_deflate c = Some d -> send_data c op p true = (c', None) ->
  exists z, k_tr c' = TWrite (build op true (next_key c) z) :: TDeflate (k_zout c) p :: k_tr c /\
            z = match k_ctape c with z0 :: _ => z0 | [] => [] end.
Proof. exact send_data_compressed. Qed.
Print Assumptions C03_rsv1_only_when_negotiated.

(* calls that cannot be sent raise ValueError and leave the whole state (hence the write log) unchanged *)
Theorem C03_oversize_control_refused : forall c p, 125 < blen p ->
  api_call c (CSendPing p) = (c, Some XValueError) /\ api_call c (CSendPong p) = (c, Some XValueError).
Proof. exact control_oversize_refused. Qed.
Print Assumptions C03_oversize_control_refused.

Theorem C03_oversize_close_refused : forall c code reason,
  k_closed c = false -> k_closing c = false -> 125 < blen (close_payload code reason) ->
  api_call c (CClose code reason) = (c, Some XValueError).
Proof. exact close_oversize_refused. Qed.
Print Assumptions C03_oversize_close_refused.

(* a call refused for any reason other than a transport failure writes nothing *)
Theorem C03_refused_writes_nothing : forall c op rsv1 p c' x,
  send_frame c op rsv1 p = (c', Some x) -> x <> XTransportFail -> k_tr c' = k_tr c.
Proof. exact send_frame_refused. Qed.
Print Assumptions C03_refused_writes_nothing.

Example C03_nonvacuous :
  server_decode (build OP_TEXT false [x01; x02; x03; x04] [x68; x69]) =
    Some (client_frame OP_TEXT false [x01; x02; x03; x04] [x68; x69], []) /\
  build OP_TEXT false [x01; x02; x03; x04] [x68; x69] = [x81; x82; x01; x02; x03; x04; x69; x6b].
Proof. vm_compute. split; reflexivity. Qed.

(* (regenerated, BuildTie.v) the bytes the RUNNING code writes for a frame -- Frame(opcode, payload, rsv1).to_bytes() executed
   for text/binary (RSV1 clear and set) on 0, 1, 2, 124..128, 200, 65535, 65536, 65537 payload bytes and for
   Close/Ping/Pong on 0, 1, 125 -- are the model's Frame.build byte for byte (whole frames up to 200 payload bytes, the
   14 header bytes beyond): the decoder theorem above applies to the code where the length encodings change *)
Theorem C03_running_code_builds_like_the_model :
  forallb Proofs.BuildTie.row_ok Gen.GenBuild.impl_build_rows = true.
Proof. exact Proofs.BuildTie.impl_build_is_model. Qed.
Print Assumptions C03_running_code_builds_like_the_model.
