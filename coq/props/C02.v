(* C02 -- placeholder until the segmentation theorem is in place *)
Theorem C02_placeholder : True. Proof. exact I. Qed.
