(* C02 -- the event stream does not depend on how TCP segments the byte stream.  Statements only. *)
From Coq Require Import List NArith.
From Coq.Strings Require Import Byte.
From Model Require Import Bytes Parser FrameParser Conn.
From Proofs Require Import ParserFacts FrameParserFacts ConnFacts.
Import ListNotations.

(* the coroutine parser (lomond/parser.py) instantiated with the frame grammar: pulling from a ++ b is pulling from a
   and, when a ends inside an item, carrying on with b from the parked state -- for every cut position, inside the HTTP
   header, a frame header, an extended length, a payload or a UTF-8 character, for valid and invalid streams alike *)
Theorem C02_parser_segmentation : forall s a b, fp_ok s ->
  fp_pull s (a ++ b) = out_app fpg pitem perr (fp_pull s a) b (fun s' => fp_pull s' b).
Proof. exact fp_pull_split. Qed.
Print Assumptions C02_parser_segmentation.

(* the whole receive path (parser, fragment reassembly, message building, WebSocket.feed's dispatch and error handling,
   the session's per-event work: auto-pong, timers, and ANY application strategy reacting to what it has observed):
   the resulting state -- which contains the complete trace of events, payloads and bytes written -- after feeding the
   reads ds one after the other equals the state after feeding their concatenation in one piece *)
Theorem C02_feed_chunks : forall cf app ds c, fp_ok (k_ps c) ->
  feed_chunks cf app c ds = feedf cf app c (concat ds).
Proof. exact feed_chunks_concat. Qed.
Print Assumptions C02_feed_chunks.

Theorem C02_segmentation_independent : forall cf app ds ds' c, fp_ok (k_ps c) -> concat ds = concat ds' ->
  feed_chunks cf app c ds = feed_chunks cf app c ds'.
Proof. exact segmentation_independent. Qed.
Print Assumptions C02_segmentation_independent.

(* the hypothesis is met by every connection from its start *)
Example C02_initial_state_ok : forall keys wf zt ct, fp_ok (k_ps (init keys wf zt ct)).
Proof. intros. exact fp_init_ok. Qed.
