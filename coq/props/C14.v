(* C14 -- every Ping is answered by exactly one matching Pong, in order.  Statements only. *)
From Coq.Strings Require Import Byte String.
From Coq Require Import List NArith ZArith Bool.
From Model Require Import Bytes Utf8 Frame Parser FrameParser Response Conn.
From Proofs Require Import ApiFacts TraceFacts ConnFacts DeliveryFacts DeliveryZ.
From RecordUpdate Require Import RecordSet.
Import ListNotations RecordSetNotations.
Open Scope N_scope.

(* what the session does around one Ping event yielded by WebSocket.feed (auto-pong, handing the event to ANY application
   strategy, housekeeping): when automatic pongs are enabled and the Pong is accepted (the client has not sent a Close,
   the transport works), the trace grows by  ... ; TEv (Ping p) ; TWrite (Pong frame with payload p)  -- the Pong
   is written immediately before the Ping event is handed over, hence before anything the application sends in
   reaction to this or any later event, and Pongs go out in the order the Pings arrive *)
Theorem C14_pong_precedes_ping_event : forall cf app c p c0,
  c_auto_pong cf = true -> api_call c (CSendPong p) = (c0, None) ->
  exists l, k_tr (fst (in_feed_yield cf app c (EvPing p))) =
            l ++ TEv (EvPing p) :: TWrite (build OP_PONG false (next_key c) p) :: k_tr c
            /\ Forall housekeeping l.
Proof. exact ping_event_preceded_by_pong. Qed.
Print Assumptions C14_pong_precedes_ping_event.

(* with automatic pongs disabled the library writes nothing for a Ping *)
Theorem C14_no_pong_when_disabled : forall cf app c p, c_auto_pong cf = false ->
  exists l, k_tr (fst (in_feed_yield cf app c (EvPing p))) = l ++ TEv (EvPing p) :: k_tr c /\ Forall housekeeping l.
Proof. exact ping_without_auto_pong. Qed.
Print Assumptions C14_no_pong_when_disabled.

(* a Pong that cannot be written (closing, closed, transport failed) is dropped silently: the session goes on *)
Theorem C14_unwritable_pong_is_silent : forall cf c p c0 x, x <> XValueError ->
  api_call c (CSendPong p) = (c0, Some x) -> snd (on_event cf c (EvPing p)) = SOk.
Proof. exact pong_failure_is_silent. Qed.
Print Assumptions C14_unwritable_pong_is_silent.

(* the Pong frame decodes, at the reference server, to a Pong with exactly the Ping's payload *)
Theorem C14_pong_payload : forall key p, length key = 4%nat -> blen p < 9223372036854775808 ->
  server_decode (build OP_PONG false key p) = Some (Proofs.FrameFacts.client_frame OP_PONG false key p, []).
Proof. intros. apply Proofs.FrameFacts.build_roundtrip; auto. reflexivity. Qed.

(* The whole stream.  For every conforming frame list (any fragmentation, Pings anywhere, also between the fragments of a
   data message and back to back in one read; any legal length encoding) cut into reads in any way, with automatic pongs
   enabled, a working transport (socket open, no write fault, 4-byte masking keys), no Close sent by the client and ANY
   application that only sends (text, binary, ping, pong -- compressed or not -- from any handler, in reaction to anything):
   the frames the LIBRARY writes (Proofs.DeliveryFacts.writes: every write in the trace except those made by the
   application's own send_* calls, which the trace marks with TCall) -- as the reference server of RFC 6455 section
   5.2 decodes them -- are exactly one Pong per Ping of the reference reading, carrying the Ping's payload, in the order
   in which the Pings arrived, and nothing else (no automatic Ping is due: ping_rate = 0); the transport still works. *)
Theorem C14_one_pong_per_ping_in_order : forall cf app, benign app -> zpos (c_ping_timeout cf) = None ->
  forall fs lfs ds c open ms open',
  c_auto_pong cf = true -> c_ping_rate cf = 0%Z ->
  idle c open -> data_head open -> Forall plain fs -> forms_ok fs lfs ->
  ref_messages open fs = Some (ms, open') -> concat ds = encode_all fs lfs -> wok c ->
  exists c', feed_chunks cf app c ds = (c', SOk) /\ wok c' /\ writes (k_tr c') = rev (pong_replies ms) ++ writes (k_tr c).
Proof. exact pongs_in_order. Qed.
Print Assumptions C14_one_pong_per_ping_in_order.

(* ... and in everything the client put on the wire, the application's own frames included, the Pongs are there in the order
   of the Pings (the library's writes are a subsequence of all writes) *)
Theorem C14_pongs_in_order_among_all_writes : forall cf app, benign app -> zpos (c_ping_timeout cf) = None ->
  forall fs lfs ds c open ms open',
  c_auto_pong cf = true -> c_ping_rate cf = 0%Z ->
  idle c open -> data_head open -> Forall plain fs -> forms_ok fs lfs ->
  ref_messages open fs = Some (ms, open') -> concat ds = encode_all fs lfs -> wok c ->
  exists c', feed_chunks cf app c ds = (c', SOk) /\ subseq (rev (pong_replies ms) ++ writes (k_tr c)) (all_writes (k_tr c')).
Proof. exact pongs_among_all_writes. Qed.
Print Assumptions C14_pongs_in_order_among_all_writes.

(* for an application that calls nothing, "the library's writes" are all the writes *)
Theorem C14_library_writes_are_all_writes_without_calls : forall tr,
  Forall (fun i => match i with TCall _ => False | _ => True end) tr -> writes tr = all_writes tr.
Proof. exact writes_all_without_calls. Qed.

(* ---------- the hypotheses are met by an application that does send: it answers each text message with a text and a
   (requested-compressed) binary frame and each Ping with a Ping of its own; two Pings arrive back to back in one read,
   one of them between the fragments of a text message ---------- *)
Definition cf14 : cfg :=
  {| c_poll := 5%Z; c_ping_rate := 0%Z; c_ping_timeout := None; c_auto_pong := true; c_close_timeout := Some 30%Z;
     c_accept := str "s3pPLMBiTxaQ9kYGzzhZRbK+xOo="%string |}.
Definition reply14 : bytes :=
  str "HTTP/1.1 101 Switching Protocols"%string ++ CRLF ++ str "Upgrade: websocket"%string ++ CRLF ++
  str "Connection: Upgrade"%string ++ CRLF ++ str "Sec-WebSocket-Accept: s3pPLMBiTxaQ9kYGzzhZRbK+xOo="%string ++ CRLFCRLF.
(* the connection right after the accepted handshake, the socket connected *)
Definition c14 : conn := (fst (feedf cf14 chatty (init [] [] [] []) reply14)) <| k_sock := true |>.
Definition fr14 (fin : bool) (op : N) (p : bytes) : frame :=
  {| f_fin := fin; f_rsv1 := false; f_rsv2 := false; f_rsv3 := false; f_op := op; f_key := None; f_payload := p |}.
Definition fs14 : list frame :=
  [ fr14 false OP_TEXT (str "He"%string); fr14 true OP_PING (str "a"%string); fr14 true OP_PING (str "b"%string);
    fr14 true OP_CONT (str "llo"%string); fr14 true OP_PING [] ].
Definition lfs14 : list lenform := [L7; L16; L7; L64; L7].

Example C14_nonvacuous_sending_application :
  benign chatty /\ ~ passive chatty /\ zpos (c_ping_timeout cf14) = None /\ idle c14 [] /\ wok c14 /\
  Forall plain fs14 /\ forms_ok fs14 lfs14 /\
  ref_messages [] fs14 = Some ([SPing (str "a"%string); SPing (str "b"%string); SText (str "Hello"%string); SPing []], []) /\
  writes (k_tr (fst (feedf cf14 chatty c14 (encode_all fs14 lfs14)))) =
    [(OP_PONG, []); (OP_PONG, str "b"%string); (OP_PONG, str "a"%string)] /\
  all_writes (k_tr (fst (feedf cf14 chatty c14 (encode_all fs14 lfs14)))) =
    [(OP_PING, []); (OP_PONG, []); (OP_BINARY, str "Hello"%string); (OP_TEXT, str "Hello"%string);
     (OP_PING, str "b"%string); (OP_PONG, str "b"%string); (OP_PING, str "a"%string); (OP_PONG, str "a"%string)].
Proof.
  split; [exact chatty_benign|]. split; [exact chatty_not_passive|]. split; [reflexivity|].
  split. { unfold idle. vm_compute. do 5 (split; [reflexivity|]). split; [constructor|]. exists UAcc. split; reflexivity. }
  split. { vm_compute. repeat split; constructor. }
  split. { repeat constructor; vm_compute; reflexivity. }
  split. { vm_compute. tauto. }
  split; [vm_compute; reflexivity|]. split; vm_compute; reflexivity.
Qed.

(* ... and on a connection that negotiated permessage-deflate (DeliveryZ.v): compressed and uncompressed messages in any
   fragmentation around the Pings; the Pongs are never compressed (C06_control_frames_never_compressed) *)
Theorem C14_one_pong_per_ping_in_order_compressed_connection : forall cf app, benign app -> zpos (c_ping_timeout cf) = None ->
  forall d fs lfs ds c open tape ms open' tape',
  c_auto_pong cf = true -> c_ping_rate cf = 0%Z ->
  Proofs.DeliveryZ.idle_z d c open tape -> data_head open -> Forall Proofs.DeliveryZ.zframe fs -> forms_ok fs lfs ->
  Proofs.DeliveryZ.ref_messages_z open tape fs = Some (ms, open', tape') -> concat ds = encode_all fs lfs -> wok c ->
  exists c', feed_chunks cf app c ds = (c', SOk) /\ wok c' /\ writes (k_tr c') = rev (pong_replies ms) ++ writes (k_tr c).
Proof. exact Proofs.DeliveryZ.pongs_in_order_z. Qed.
Print Assumptions C14_one_pong_per_ping_in_order_compressed_connection.
