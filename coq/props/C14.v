(* C14 -- placeholder *)
Theorem C14_placeholder : True. Proof. exact I. Qed.
