(* C14 -- every Ping is answered by exactly one matching Pong, in order.  Statements only. *)
From Coq Require Import List NArith ZArith Bool.
From Coq.Strings Require Import Byte.
From Model Require Import Bytes Frame Parser FrameParser Conn.
From Proofs Require Import ApiFacts TraceFacts ConnFacts DeliveryFacts.
Import ListNotations.
Open Scope N_scope.

(* what the session does around one Ping event yielded by WebSocket.feed (auto-pong, handing the event to ANY application
   strategy, housekeeping): when automatic pongs are enabled and the Pong is accepted (the client has not sent a Close,
   the transport works), the trace grows by  ... ; TEv (Ping p) ; TWrite (Pong frame with payload p)  -- the Pong
   is written immediately before the Ping event is handed over, hence before anything the application sends in
   reaction to this or any later event, and Pongs go out in the order the Pings arrive *)
Theorem C14_pong_precedes_ping_event : forall cf app c p c0,
  c_auto_pong cf = true -> api_call c (CSendPong p) = (c0, None) ->
  exists l, k_tr (fst (in_feed_yield cf app c (EvPing p))) =
            l ++ TEv (EvPing p) :: TWrite (build OP_PONG false (next_key c) p) :: k_tr c
            /\ Forall housekeeping l.
Proof. exact ping_event_preceded_by_pong. Qed.
Print Assumptions C14_pong_precedes_ping_event.

(* with automatic pongs disabled the library writes nothing for a Ping *)
Theorem C14_no_pong_when_disabled : forall cf app c p, c_auto_pong cf = false ->
  exists l, k_tr (fst (in_feed_yield cf app c (EvPing p))) = l ++ TEv (EvPing p) :: k_tr c /\ Forall housekeeping l.
Proof. exact ping_without_auto_pong. Qed.
Print Assumptions C14_no_pong_when_disabled.

(* a Pong that cannot be written (closing, closed, transport failed) is dropped silently: the session goes on *)
Theorem C14_unwritable_pong_is_silent : forall cf c p c0 x, x <> XValueError ->
  api_call c (CSendPong p) = (c0, Some x) -> snd (on_event cf c (EvPing p)) = SOk.
Proof. exact pong_failure_is_silent. Qed.
Print Assumptions C14_unwritable_pong_is_silent.

(* the Pong frame decodes, at the reference server, to a Pong with exactly the Ping's payload *)
Theorem C14_pong_payload : forall key p, length key = 4%nat -> blen p < 9223372036854775808 ->
  server_decode (build OP_PONG false key p) = Some (Proofs.FrameFacts.client_frame OP_PONG false key p, []).
Proof. intros. apply Proofs.FrameFacts.build_roundtrip; auto. reflexivity. Qed.

(* The whole stream.  For every conforming frame list (any fragmentation, Pings anywhere, also between the fragments of a
   data message and back to back in one read; any legal length encoding) cut into reads in any way, with automatic pongs
   enabled, a working transport (socket open, no write fault, 4-byte masking keys), no Close sent by the client and an
   application that sends nothing itself: the frames the library writes -- as the reference server of RFC 6455 section
   5.2 decodes them -- are exactly one Pong per Ping of the reference reading, carrying the Ping's payload, in the order
   in which the Pings arrived, and nothing else (no automatic Ping is due: ping_rate = 0); the transport still works. *)
Theorem C14_one_pong_per_ping_in_order : forall cf app, passive app -> zpos (c_ping_timeout cf) = None ->
  forall fs lfs ds c open ms open',
  c_auto_pong cf = true -> c_ping_rate cf = 0%Z ->
  idle c open -> data_head open -> Forall plain fs -> forms_ok fs lfs ->
  ref_messages open fs = Some (ms, open') -> concat ds = encode_all fs lfs -> wok c ->
  exists c', feed_chunks cf app c ds = (c', SOk) /\ wok c' /\ writes (k_tr c') = rev (pong_replies ms) ++ writes (k_tr c).
Proof. exact pongs_in_order_passive. Qed.
Print Assumptions C14_one_pong_per_ping_in_order.
