(* C13 -- abandoning the event loop at any event releases the socket.  Statements only.
   In the model an application strategy may answer any event with AAbandon (break / exception in the handler /
   generator.close(), optionally inside `with ws:`); CPython's generator finalisation is MODELLED: GeneratorExit at the
   suspended yield, the enclosing finally blocks, finalisation of a live WebSocket.feed generator. *)
From Coq Require Import List NArith ZArith.
From Model Require Import Conn.
From Proofs Require Import RunFacts ReleaseFacts.
Import ListNotations.

(* for every configuration, every application strategy (abandoning wherever and however it likes), every connect
   outcome and every environment script: when run() is over the socket is released -- unless the script simply ran out
   while the client was still waiting for the network *)
Theorem C13_socket_released : forall cf app c0 cn steps,
  k_sock c0 = false ->
  blocked (run cf app c0 cn steps) \/ released (run cf app c0 cn steps).
Proof. exact run_releases_socket. Qed.
Print Assumptions C13_socket_released.

(* once the main loop has been entered (the selector exists), leaving it by any path closes the selector *)
Theorem C13_selector_closed : forall cf app steps c,
  blocked (loop cf app steps c) \/
  (released (loop cf app steps c) /\ exists l1 l2, k_tr (loop cf app steps c) = l1 ++ TSelClose :: l2).
Proof. exact loop_released. Qed.
Print Assumptions C13_selector_closed.

(* every exit of the try block releases the socket, whatever the application does at the Disconnected event *)
Theorem C13_finally : forall app c st, released (finish app c st).
Proof. exact finish_released. Qed.
Print Assumptions C13_finally.

(* ... and the release is final.  In the trace of every run -- any configuration, any application strategy (abandoning
   wherever and however it likes, inside `with ws:` or not), any masking keys, write faults and zlib results, any connect
   outcome, any environment script -- nothing that uses the socket (a frame write, successful or failing; the upgrade
   request; socket.close() itself) happens after socket.close(): the traces are most recent first, so in
   a ++ x :: b the items of b precede x *)
Theorem C13_no_use_after_release : forall cf app keys wf zt ct cn steps a x b,
  k_tr (run cf app (init keys wf zt ct) cn steps) = a ++ x :: b ->
  Proofs.ReleaseFacts.is_sock_use x = true -> Proofs.ReleaseFacts.nsc b = 0%nat.
Proof. exact Proofs.ReleaseFacts.no_use_after_release. Qed.
Print Assumptions C13_no_use_after_release.

Theorem C13_socket_closed_at_most_once : forall cf app keys wf zt ct cn steps,
  (Proofs.ReleaseFacts.nsc (k_tr (run cf app (init keys wf zt ct) cn steps)) <= 1)%nat.
Proof. exact Proofs.ReleaseFacts.socket_closed_at_most_once. Qed.
Print Assumptions C13_socket_closed_at_most_once.

(* the statement is about something: an application that abandons the loop at Connected, inside `with ws:` -- two paths
   (the GeneratorExit handler and __exit__) want to close the socket; it is closed once *)
Example C13_release_nonvacuous :
  let app := fun tr => match tr with TEv EvConnected :: _ => [AAbandon true] | _ => [] end in
  let cf := {| c_poll := 5%Z; c_ping_rate := 30%Z; c_ping_timeout := None; c_auto_pong := true; c_close_timeout := Some 30%Z;
               c_accept := [] |} in
  k_tr (run cf app (init [] [] [] []) CnOk []) = [TSockClose; TEv EvConnected; TWriteReq true; TEv EvConnecting].
Proof. vm_compute. reflexivity. Qed.
