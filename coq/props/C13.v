(* C13 -- placeholder *)
Theorem C13_placeholder : True. Proof. exact I. Qed.
