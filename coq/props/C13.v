(* C13 -- abandoning the event loop at any event releases the socket.  Statements only.
   In the model an application strategy may answer any event with AAbandon (break / exception in the handler /
   generator.close(), optionally inside `with ws:`); CPython's generator finalisation is MODELLED: GeneratorExit at the
   suspended yield, the enclosing finally blocks, finalisation of a live WebSocket.feed generator. *)
From Coq Require Import List NArith.
From Model Require Import Conn.
From Proofs Require Import RunFacts.
Import ListNotations.

(* for every configuration, every application strategy (abandoning wherever and however it likes), every connect
   outcome and every environment script: when run() is over the socket is released -- unless the script simply ran out
   while the client was still waiting for the network *)
Theorem C13_socket_released : forall cf app c0 cn steps,
  k_sock c0 = false ->
  blocked (run cf app c0 cn steps) \/ released (run cf app c0 cn steps).
Proof. exact run_releases_socket. Qed.
Print Assumptions C13_socket_released.

(* once the main loop has been entered (the selector exists), leaving it by any path closes the selector *)
Theorem C13_selector_closed : forall cf app steps c,
  blocked (loop cf app steps c) \/
  (released (loop cf app steps c) /\ exists l1 l2, k_tr (loop cf app steps c) = l1 ++ TSelClose :: l2).
Proof. exact loop_released. Qed.
Print Assumptions C13_selector_closed.

(* every exit of the try block releases the socket, whatever the application does at the Disconnected event *)
Theorem C13_finally : forall app c st, released (finish app c st).
Proof. exact finish_released. Qed.
Print Assumptions C13_finally.
