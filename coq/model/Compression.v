(* permessage-deflate bookkeeping with zlib as an ORACLE: which context sees which message in which order, and when a
   context is replaced.  DEFLATE itself is not modelled: it enters through the Section variables below. *)
From Coq Require Import List NArith Bool.
From Coq.Strings Require Import Byte.
From Model Require Import Bytes.
Import ListNotations.

Section Zlib.
  Variable zctx : Type.
  Variable fresh : zctx.                                      (* zlib.compressobj(...) / zlib.decompressobj(...) *)
  Variable deflate : zctx -> bytes -> bytes * zctx.           (* compress(m) + flush(Z_SYNC_FLUSH), last 4 bytes removed *)
  Variable inflate : zctx -> bytes -> option (bytes * zctx).  (* decompress(z + 00 00 ff ff); None = zlib.error *)

  (* one data message on the wire: RSV1 flag and payload (fragmentation is handled below) *)
  Definition wmsg := (bool * bytes)%type.

  (* the sending side (lomond's send_text/send_binary; or the peer's sender): [nct] = its no_context_takeover flag *)
  Definition send1 (negotiated nct : bool) (c : zctx) (m : bytes) (compress : bool) : wmsg * zctx :=
    if negotiated && compress then
      let '(z, c') := deflate c m in ((true, z), if nct then fresh else c')
    else ((false, m), c).

  Fixpoint send_all (negotiated nct : bool) (c : zctx) (msgs : list (bytes * bool)) : list wmsg :=
    match msgs with
    | [] => []
    | (m, z) :: rest => let '(w, c') := send1 negotiated nct c m z in w :: send_all negotiated nct c' rest
    end.

  (* the receiving side (an RFC 7692 peer; or lomond's Deflate.decompress): a compressed message may arrive in any
     number of fragments; the receiver inflates their concatenation (zlib is a streaming decoder) *)
  Definition recv1 (nct : bool) (d : zctx) (rsv1 : bool) (fragments : list bytes) : option (bytes * zctx) :=
    if rsv1 then
      match inflate d (concat fragments) with
      | Some (m, d') => Some (m, if nct then fresh else d')
      | None => None
      end
    else Some (concat fragments, d).

  Fixpoint recv_all (nct : bool) (d : zctx) (ws : list (bool * list bytes)) : option (list bytes) :=
    match ws with
    | [] => Some []
    | (r, frs) :: rest =>
        match recv1 nct d r frs with
        | Some (m, d') => match recv_all nct d' rest with Some ms => Some (m :: ms) | None => None end
        | None => None
        end
    end.
End Zlib.
