(* lomond/frame_parser.py: FrameParser.parse / ClientFrameParser.on_frame as the coroutine of Parser.v *)
From Coq Require Import List NArith Bool Lia.
From Coq.Strings Require Import Byte.
From Model Require Import Bytes Utf8 Frame Parser.
Import ListNotations.
Open Scope N_scope.

(* exceptions that can leave Parser.feed *)
Inductive perr :=
| PE_Utf8            (* ParseError('invalid utf8')            -> CriticalProtocolError in stream.feed *)
| PE_HeaderTooLong   (* ParseError('expected ...') from check_length -> CriticalProtocolError *)
| PE_Protocol.       (* errors.ProtocolError raised inside parse(): validate(), PayloadTooLarge, masked frame *)

Record hinfo := { h_fin : bool; h_r1 : bool; h_r2 : bool; h_r3 : bool; h_op : N; h_mask : bool }.

Inductive fphase :=
| FHeaders                                   (* yield self.read_until(b'\r\n\r\n', max_bytes=16*1024) *)
| FHdr                                       (* byte1, byte2 = yield self.read(2) *)
| FLen16 (h : hinfo) | FLen64 (h : hinfo)    (* extended payload length *)
| FMask (h : hinfo) (len : N)                (* masking_key = yield self.read(4) *)
| FPayload (h : hinfo) (key : option bytes). (* frame.payload = yield self.read[_text](payload_length) *)

Record fpg := {
  fp_phase : fphase;
  fp_is_text : bool;          (* self._is_text *)
  fp_u : ustate;              (* self._utf8_validator._state *)
  fp_compression : bool       (* self._compression / _frame_class is CompressedFrame *)
}.

Inductive pitem := IHeader (data : bytes) | IFrame (f : frame).

Definition set_phase (g : fpg) (p : fphase) : fpg :=
  {| fp_phase := p; fp_is_text := fp_is_text g; fp_u := fp_u g; fp_compression := fp_compression g |}.

(* Frame.validate() / CompressedFrame.validate() on the freshly built (payload-less) frame, followed by the
   announced-length check for control frames.  true = raises ProtocolError *)
Definition validate_err (compression : bool) (h : hinfo) (len : N) : bool :=
  (if compression then h_r2 h || h_r3 h else h_r1 h || h_r2 h || h_r3 h)
  || is_reserved (h_op h)
  || (negb (h_fin h) && is_control (h_op h))
  || (is_control (h_op h) && (125 <? len)).

Definition mk_frame (h : hinfo) (key : option bytes) (payload : bytes) : frame :=
  {| f_fin := h_fin h; f_rsv1 := h_r1 h; f_rsv2 := h_r2 h; f_rsv3 := h_r3 h; f_op := h_op h;
     f_key := key; f_payload := payload |}.

(* self.on_frame(frame); yield frame *)
Definition finish_frame (g : fpg) (h : hinfo) (key : option bytes) (payload : bytes) : res fpg pitem perr :=
  if h_mask h then RErr PE_Protocol          (* ClientFrameParser.on_frame: 'server sent masked frame' *)
  else
    let op := h_op h in
    let u' := if negb (fp_compression g) && h_fin h && ((op =? OP_TEXT) || (op =? OP_CONT)) then UAcc else fp_u g in
    let t' := if h_fin h && negb (is_control op) then false else fp_is_text g in
    RItem (IFrame (mk_frame h key payload))
          {| fp_phase := FHdr; fp_is_text := t'; fp_u := u'; fp_compression := fp_compression g |}
          (AwBytes false) 2.

(* from "frame = self._frame_class(...)" to the payload read *)
Definition after_mask (g : fpg) (h : hinfo) (len : N) (key : option bytes) : res fpg pitem perr :=
  if validate_err (fp_compression g) h len then RErr PE_Protocol
  else
    let op := h_op h in
    let t1 := if op =? OP_TEXT then true else fp_is_text g in
    let g1 := {| fp_phase := fp_phase g; fp_is_text := t1; fp_u := fp_u g; fp_compression := fp_compression g |} in
    if len =? 0 then finish_frame g1 h key []
    else
      let textual := (op =? OP_TEXT) || ((op =? OP_CONT) && t1) in
      let utf8 := textual && negb (fp_compression g) in     (* read_text: read_utf8 unless compression is on *)
      RAwait (set_phase g1 (FPayload h key)) (AwBytes utf8) len.

Definition after_len (g : fpg) (h : hinfo) (len : N) : res fpg pitem perr :=
  if 9223372036854775807 <? len then RErr PE_Protocol      (* PayloadTooLarge, a ProtocolError *)
  else if h_mask h then RAwait (set_phase g (FMask h len)) (AwBytes false) 4
  else after_mask g h len None.

Definition fp_resume (g : fpg) (buf : bytes) : res fpg pitem perr :=
  match fp_phase g with
  | FHeaders => RItem (IHeader buf) (set_phase g FHdr) (AwBytes false) 2
  | FHdr =>
      let n1 := b2n (nth 0 buf x00) in
      let n2 := b2n (nth 1 buf x00) in
      let h := {| h_fin := 128 <=? n1; h_r1 := N.testbit n1 6; h_r2 := N.testbit n1 5; h_r3 := N.testbit n1 4;
                  h_op := n1 mod 16; h_mask := 128 <=? n2 |} in
      let l7 := n2 mod 128 in
      if l7 =? 126 then RAwait (set_phase g (FLen16 h)) (AwBytes false) 2
      else if l7 =? 127 then RAwait (set_phase g (FLen64 h)) (AwBytes false) 8
      else after_len g h l7
  | FLen16 h => after_len g h (be_decode buf)
  | FLen64 h => after_len g h (be_decode buf)
  | FMask h len => after_mask g h len (Some buf)
  | FPayload h key => finish_frame g h key buf
  end.

Definition fp_validate (g : fpg) (chunk : bytes) : option fpg :=
  match uvalidate (fp_u g) chunk with
  | Some u => Some {| fp_phase := fp_phase g; fp_is_text := fp_is_text g; fp_u := u; fp_compression := fp_compression g |}
  | None => None
  end.

Definition fpst := pst fpg.
Definition fp_init : fpst :=
  {| pg := {| fp_phase := FHeaders; fp_is_text := false; fp_u := UAcc; fp_compression := false |};
     paw := AwUntil (Some 16384); prem := 0; pbuf := [] |}.

Definition fp_pull : fpst -> bytes -> out fpg pitem perr :=
  pullf fpg pitem perr CRLFCRLF fp_resume fp_validate PE_Utf8 PE_HeaderTooLong.

(* FrameParser.enable_compression() *)
Definition fp_enable_compression (s : fpst) : fpst :=
  {| pg := {| fp_phase := fp_phase (pg s); fp_is_text := fp_is_text (pg s); fp_u := fp_u (pg s); fp_compression := true |};
     paw := paw s; prem := prem s; pbuf := pbuf s |}.
