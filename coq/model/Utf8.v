(* UTF-8: the RFC 3629 grammar (spec), the 9-state automaton the model runs, and a
   decoder to scalar values.  Executable definitions only; proofs live in proofs/. *)
From Coq Require Import List NArith Bool Lia.
From Coq.Strings Require Import Byte.
From Model Require Import Bytes.
Import ListNotations.
Open Scope N_scope.

(* ---------- spec: RFC 3629 section 4 ABNF as an inductive predicate ---------- *)
Definition in_range (lo hi : N) (b : byte) : Prop := lo <= b2n b <= hi.
Definition tail (b : byte) : Prop := in_range 128 191 b.            (* %x80-BF *)

Inductive utf8_char : bytes -> Prop :=
| U1  a       : in_range 0 127 a -> utf8_char [a]                                         (* UTF8-1 *)
| U2  a b     : in_range 194 223 a -> tail b -> utf8_char [a; b]                          (* %xC2-DF tail *)
| U3a a b c   : b2n a = 224 -> in_range 160 191 b -> tail c -> utf8_char [a; b; c]        (* E0 A0-BF tail *)
| U3b a b c   : in_range 225 236 a -> tail b -> tail c -> utf8_char [a; b; c]             (* E1-EC 2tail *)
| U3c a b c   : b2n a = 237 -> in_range 128 159 b -> tail c -> utf8_char [a; b; c]        (* ED 80-9F tail *)
| U3d a b c   : in_range 238 239 a -> tail b -> tail c -> utf8_char [a; b; c]             (* EE-EF 2tail *)
| U4a a b c d : b2n a = 240 -> in_range 144 191 b -> tail c -> tail d -> utf8_char [a; b; c; d]  (* F0 90-BF 2tail *)
| U4b a b c d : in_range 241 243 a -> tail b -> tail c -> tail d -> utf8_char [a; b; c; d]       (* F1-F3 3tail *)
| U4c a b c d : b2n a = 244 -> in_range 128 143 b -> tail c -> tail d -> utf8_char [a; b; c; d]. (* F4 80-8F 2tail *)

Inductive utf8_wf : bytes -> Prop :=
| WfNil : utf8_wf []
| WfApp c rest : utf8_char c -> utf8_wf rest -> utf8_wf (c ++ rest).

Definition viable (p : bytes) : Prop := exists s, utf8_wf (p ++ s).

(* ---------- the automaton ---------- *)
Inductive ustate := UAcc | URej | UT1 | UT2 | UE0 | UED | UF0 | UT3 | UF4.

Definition ustate_eqb (a b : ustate) : bool :=
  match a, b with
  | UAcc, UAcc | URej, URej | UT1, UT1 | UT2, UT2 | UE0, UE0 | UED, UED | UF0, UF0 | UT3, UT3 | UF4, UF4 => true
  | _, _ => false
  end.

Definition rng (lo hi n : N) : bool := (lo <=? n) && (n <=? hi).

Definition ustep (s : ustate) (b : byte) : ustate :=
  let n := b2n b in
  match s with
  | UAcc =>
      if rng 0 127 n then UAcc
      else if rng 194 223 n then UT1
      else if n =? 224 then UE0
      else if rng 225 236 n then UT2
      else if n =? 237 then UED
      else if rng 238 239 n then UT2
      else if n =? 240 then UF0
      else if rng 241 243 n then UT3
      else if n =? 244 then UF4
      else URej
  | URej => URej
  | UT1 => if rng 128 191 n then UAcc else URej
  | UT2 => if rng 128 191 n then UT1 else URej
  | UE0 => if rng 160 191 n then UT1 else URej
  | UED => if rng 128 159 n then UT1 else URej
  | UF0 => if rng 144 191 n then UT2 else URej
  | UT3 => if rng 128 191 n then UT2 else URej
  | UF4 => if rng 128 143 n then UT2 else URej
  end.

Definition urun (s : ustate) (bs : bytes) : ustate := fold_left ustep bs s.

(* Utf8Validator.validate as used by _ReadUtf8.validate: feed a slice, stop at the
   first rejected byte.  None = "valid? False". *)
Fixpoint uvalidate (s : ustate) (bs : bytes) : option ustate :=
  match bs with
  | [] => Some s
  | b :: t => match ustep s b with URej => None | s' => uvalidate s' t end
  end.

(* index (0-based) of the first rejected byte, if any *)
Fixpoint ureject_index (s : ustate) (bs : bytes) (i : nat) : option nat :=
  match bs with
  | [] => None
  | b :: t => match ustep s b with URej => Some i | s' => ureject_index s' t (S i) end
  end.

Definition utf8_validb (bs : bytes) : bool := ustate_eqb (urun UAcc bs) UAcc.

(* numbering used by lomond's table (Hoehrmann DFA, 16-wide rows) *)
Definition ustate_of_N (n : N) : option ustate :=
  match n with
  | 0 => Some UAcc | 1 => Some URej | 2 => Some UT1 | 3 => Some UT2 | 4 => Some UE0
  | 5 => Some UED | 6 => Some UF0 | 7 => Some UT3 | 8 => Some UF4 | _ => None
  end.
Definition N_of_ustate (s : ustate) : N :=
  match s with
  | UAcc => 0 | URej => 1 | UT1 => 2 | UT2 => 3 | UE0 => 4 | UED => 5 | UF0 => 6 | UT3 => 7 | UF4 => 8
  end.
Definition all_ustates := [UAcc; URej; UT1; UT2; UE0; UED; UF0; UT3; UF4].

(* ---------- scalar values ---------- *)
Definition scalar (c : N) : Prop := c < 55296 \/ (57344 <= c /\ c < 1114112).
Definition scalarb (c : N) : bool := (c <? 55296) || ((57344 <=? c) && (c <? 1114112)).

Definition encode1 (c : N) : bytes :=
  if c <? 128 then [n2b c]
  else if c <? 2048 then [n2b (192 + c / 64); n2b (128 + c mod 64)]
  else if c <? 65536 then [n2b (224 + c / 4096); n2b (128 + (c / 64) mod 64); n2b (128 + c mod 64)]
  else [n2b (240 + c / 262144); n2b (128 + (c / 4096) mod 64); n2b (128 + (c / 64) mod 64); n2b (128 + c mod 64)].
Definition encode (cs : list N) : bytes := flat_map encode1 cs.

(* decoder driven by the automaton: accumulates the code point Hoehrmann-style *)
Fixpoint decode_acc (s : ustate) (cp : N) (bs : bytes) (acc : list N) : option (list N) :=
  match bs with
  | [] => match s with UAcc => Some (rev acc) | _ => None end
  | b :: t =>
      let n := b2n b in
      let cp' := match s with
                 | UAcc => if n <? 128 then n else if n <? 224 then n - 192 else if n <? 240 then n - 224 else n - 240
                 | _ => cp * 64 + (n - 128)
                 end in
      match ustep s b with
      | URej => None
      | UAcc => decode_acc UAcc 0 t (cp' :: acc)
      | s' => decode_acc s' cp' t acc
      end
  end.
Definition decode (bs : bytes) : option (list N) := decode_acc UAcc 0 bs [].
