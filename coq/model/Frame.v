(* RFC 6455 frames: lomond's Frame.build (client side) and the spec-level codec. *)
From Coq Require Import List NArith Bool Lia.
From Coq.Strings Require Import Byte.
From Model Require Import Bytes.
Import ListNotations.
Open Scope N_scope.

Definition OP_CONT : N := 0.
Definition OP_TEXT : N := 1.
Definition OP_BINARY : N := 2.
Definition OP_CLOSE : N := 8.
Definition OP_PING : N := 9.
Definition OP_PONG : N := 10.

Definition is_control (op : N) : bool := 8 <=? op.
Definition is_reserved (op : N) : bool := ((3 <=? op) && (op <=? 7)) || ((11 <=? op) && (op <=? 15)).

Record frame := {
  f_fin : bool; f_rsv1 : bool; f_rsv2 : bool; f_rsv3 : bool;
  f_op : N;
  f_key : option bytes;          (* Some key = MASK bit set *)
  f_payload : bytes              (* unmasked payload *)
}.

Definition bit (b : bool) : N := if b then 1 else 0.

Definition byte0 (fin r1 r2 r3 : bool) (op : N) : byte :=
  n2b (128 * bit fin + 64 * bit r1 + 32 * bit r2 + 16 * bit r3 + op).

(* length field: lomond's three struct formats *)
Definition len_bytes (maskbit : N) (len : N) : bytes :=
  if len <? 126 then [n2b (maskbit + len)]
  else if len <? 65536 then n2b (maskbit + 126) :: be_encode 2 len
  else n2b (maskbit + 127) :: be_encode 8 len.

Definition rot (key : bytes) : bytes := match key with [] => [] | k :: ks => ks ++ [k] end.
(* mask_payload: byte i is xored with key[i mod 4] *)
Fixpoint mask_bytes (key : bytes) (p : bytes) : bytes :=
  match p with
  | [] => []
  | b :: t => bxor (hd x00 key) b :: mask_bytes (rot key) t
  end.

(* Frame.build(opcode, payload, fin=1, rsv1, rsv2=0, rsv3=0, mask=True, masking_key=key) *)
Definition build (op : N) (rsv1 : bool) (key : bytes) (payload : bytes) : bytes :=
  byte0 true rsv1 false false op :: len_bytes 128 (blen payload) ++ key ++ mask_bytes key payload.

(* Frame.build_close_payload *)
Definition close_payload (code : option N) (reason : bytes) : bytes :=
  match code with None => [] | Some c => be_encode 2 c ++ reason end.

(* ---------- spec side ---------- *)
Inductive lenform := L7 | L16 | L64.
Definition form_ok (lf : lenform) (len : N) : bool :=
  match lf with L7 => len <? 126 | L16 => len <? 65536 | L64 => len <? 9223372036854775808 end.
Definition minimal_form (len : N) : lenform := if len <? 126 then L7 else if len <? 65536 then L16 else L64.

Definition len_field (lf : lenform) (maskbit len : N) : bytes :=
  match lf with
  | L7 => [n2b (maskbit + len)]
  | L16 => n2b (maskbit + 126) :: be_encode 2 len
  | L64 => n2b (maskbit + 127) :: be_encode 8 len
  end.

(* any legal wire rendering of a frame (server or client), in a chosen length form *)
Definition enc_frame (f : frame) (lf : lenform) : bytes :=
  byte0 (f_fin f) (f_rsv1 f) (f_rsv2 f) (f_rsv3 f) (f_op f)
  :: match f_key f with
     | None => len_field lf 0 (blen (f_payload f)) ++ f_payload f
     | Some k => len_field lf 128 (blen (f_payload f)) ++ k ++ mask_bytes k (f_payload f)
     end.

(* the receiving server of RFC 6455 section 5.2, as a reference decoder for what the client writes:
   it insists on the MASK bit and on the shortest length encoding *)
Definition server_decode (w : bytes) : option (frame * bytes) :=
  match w with
  | b0 :: b1 :: r =>
      let n0 := b2n b0 in let n1 := b2n b1 in
      if n1 <? 128 then None else
      let l7 := n1 - 128 in
      let '(len, r1, minimal) :=
        if l7 <? 126 then (l7, r, true)
        else if l7 =? 126 then (be_decode (firstn 2 r), skipn 2 r, (126 <=? be_decode (firstn 2 r)) && Nat.leb 2 (length r))
        else (be_decode (firstn 8 r), skipn 8 r,
              (65536 <=? be_decode (firstn 8 r)) && (be_decode (firstn 8 r) <? 9223372036854775808) && Nat.leb 8 (length r)) in
      if negb minimal then None else
      let key := firstn 4 r1 in
      let body := skipn 4 r1 in
      let ln := N.to_nat len in
      if Nat.ltb (length r1) 4 || Nat.ltb (length body) ln then None else
      Some ({| f_fin := 128 <=? n0; f_rsv1 := N.testbit n0 6; f_rsv2 := N.testbit n0 5; f_rsv3 := N.testbit n0 4;
               f_op := n0 mod 16; f_key := Some key; f_payload := mask_bytes key (firstn ln body) |},
            skipn ln body)
  | _ => None
  end.
