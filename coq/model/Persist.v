(* lomond/persist.py *)
From Coq Require Import List ZArith QArith Qminmax Bool.
Import ListNotations.
Open Scope Q_scope.

(* one connection attempt, as persist() sees it: its events, each flagged "is the ready event" *)
Definition attempt := list bool.

Inductive pitem :=
| PEvent (attempt_no : nat) (index : nat) (ready : bool)    (* an event of websocket.connect(), passed through *)
| PBackOff (delay : Q)
| PConnect (attempt_no : nat).                               (* websocket.connect(poll=, ping_rate=, ping_timeout=) is called *)

Fixpoint pass_events (a : attempt) (no idx : nat) (retries : nat) : list pitem * nat :=
  match a with
  | [] => ([], retries)
  | r :: rest =>
      let retries' := if r then O else retries in
      let '(items, rf) := pass_events rest no (S idx) retries' in
      (PEvent no idx r :: items, rf)
  end.

Definition pow2 (n : nat) : Q := inject_Z (2 ^ Z.of_nat n).

Definition backoff (min_wait max_wait u : Q) (retries : nat) : Q :=
  min_wait + u * Qmin (max_wait - min_wait) (pow2 retries).

(* attempts: the outcome of each successive connect(); draws: random() results; exits: exit_event.wait() results.
   The real loop is `while True`; here it runs until the scripts are exhausted (reported as running = true). *)
Fixpoint persist (min_wait max_wait : Q) (attempts : list attempt) (draws : list Q) (exits : list bool)
                 (no : nat) (retries : nat) : list pitem * bool (* still running when the script ended *) :=
  match attempts, draws, exits with
  | a :: attempts', u :: draws', e :: exits' =>
      let retries1 := S retries in
      let '(items, retries2) := pass_events a no 0 retries1 in
      let d := backoff min_wait max_wait u retries2 in
      if e then (PConnect no :: items ++ [PBackOff d], false)
      else let '(rest, running) := persist min_wait max_wait attempts' draws' exits' (S no) retries2 in
           (PConnect no :: items ++ PBackOff d :: rest, running)
  | _, _, _ => ([], true)
  end.
