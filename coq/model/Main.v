(* Entry point of the extracted model: one request s-expression in, one answer out. *)
From Coq Require Import List NArith ZArith Bool.
From Coq.Strings Require Import Byte.
From Model Require Import Bytes Sx Utf8.
Import ListNotations.
Open Scope N_scope.

Definition sx_ustate (s : ustate) : sx := A (N_of_ustate s).

(* (1 <state> <bytes>)  ->  (<state'> <valid?> (<reject index>)?)      Utf8Validator.validate from a given state *)
Definition cmd_utf8 (args : list sx) : sx :=
  match ustate_of_N (un_N (nth_sx args 0)) with
  | None => L [A 999]
  | Some s =>
      let bs := un_B (nth_sx args 1) in
      match ureject_index s bs 0 with
      | Some i => L [sx_ustate URej; A 0; L [sx_nat i]]
      | None => L [sx_ustate (urun s bs); A 1; L []]
      end
  end.

(* (2 <bytes>) -> (<valid?> (<code points>)?) : whole-string verdict and decoding *)
Definition cmd_utf8_decode (args : list sx) : sx :=
  let bs := un_B (nth_sx args 0) in
  match decode bs with
  | Some cps => L [A 1; L (map A cps)]
  | None => L [A 0; L []]
  end.

Definition run_sx (req : sx) : sx :=
  match req with
  | L (A 1 :: args) => cmd_utf8 args
  | L (A 2 :: args) => cmd_utf8_decode args
  | _ => L [A 998]
  end.
