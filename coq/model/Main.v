(* Entry point of the extracted model: one request s-expression in, one answer out. *)
From Coq Require Import List NArith ZArith Bool.
From Coq.Strings Require Import Byte.
From Coq Require Import QArith.
From Model Require Import Bytes Sx Utf8 Frame Parser FrameParser Response Conn Persist Handshake Proxy Transport Conc Digest Url Selector Connect.
Import ListNotations.
Open Scope N_scope.

Definition sx_ustate (s : ustate) : sx := A (N_of_ustate s).

(* (1 <state> <bytes>)  ->  (<state'> <valid?> (<reject index>)?)      Utf8Validator.validate from a given state *)
Definition cmd_utf8 (args : list sx) : sx :=
  match ustate_of_N (un_N (nth_sx args 0)) with
  | None => L [A 999]
  | Some s =>
      let bs := un_B (nth_sx args 1) in
      match ureject_index s bs 0 with
      | Some i => L [sx_ustate URej; A 0; L [sx_nat i]]
      | None => L [sx_ustate (urun s bs); A 1; L []]
      end
  end.

(* (2 <bytes>) -> (<valid?> (<code points>)?) : whole-string verdict and decoding *)
Definition cmd_utf8_decode (args : list sx) : sx :=
  let bs := un_B (nth_sx args 0) in
  match decode bs with
  | Some cps => L [A 1; L (map A cps)]
  | None => L [A 0; L []]
  end.

(* ---------- connection scenarios ---------- *)
Definition sx_ev (e : ev) : sx :=
  match e with
  | EvConnecting => L [A 0] | EvConnectFail => L [A 1] | EvConnected => L [A 2] | EvRejected => L [A 3]
  | EvReady p d => L [A 4; sx_optB p; sx_bool d]
  | EvPoll => L [A 5]
  | EvText p => L [A 6; B p] | EvBinary p => L [A 7; B p] | EvPing p => L [A 8; B p] | EvPong p => L [A 9; B p]
  | EvClosing c r => L [A 10; sx_optN c; B r] | EvClosed c r => L [A 11; sx_optN c; B r]
  | EvUnresponsive => L [A 12]
  | EvProtocolError cr => L [A 13; sx_bool cr]
  | EvDisconnected g => L [A 14; sx_bool g]
  end.
Definition sx_exn (r : option exn) : sx :=
  A (match r with None => 0 | Some XTypeError => 1 | Some XValueError => 2 | Some XUnavailable => 3
              | Some XClosed => 4 | Some XClosing => 5 | Some XTransportFail => 6 end).
Definition sx_titem (t : titem) : sx :=
  match t with
  | TEv e => L [A 0; sx_ev e]
  | TWrite w => L [A 1; B w]
  | TWriteFail w => L [A 2; B w]
  | TWriteReq ok => L [A 3; sx_bool ok]
  | TCall r => L [A 4; sx_exn r]
  | TSockClose => L [A 5] | TSelClose => L [A 6] | TBlocked => L [A 7]
  | TInflate e parts => L [A 8; A e; L (map B parts)]
  | TDeflate e i => L [A 9; A e; B i]
  | TWait => L [A 10]
  end.

Definition un_optZ (s : sx) : option Z := match s with L [x] => Some (un_Z x) | _ => None end.
Definition un_cfg (s : sx) : cfg :=
  let l := un_L s in
  {| c_poll := un_Z (nth_sx l 0); c_ping_rate := un_Z (nth_sx l 1); c_ping_timeout := un_optZ (nth_sx l 2);
     c_auto_pong := un_bool (nth_sx l 3); c_close_timeout := un_optZ (nth_sx l 4);
     (* field 5: the 16 random bytes of this connection; key and expected accept value are computed here *)
     c_accept := accept_of (make_key (un_B (nth_sx l 5))) |}.
Definition un_step (s : sx) : step :=
  let l := un_L s in
  let dt := un_Z (nth_sx l 1) in
  match un_N (nth_sx l 0) with
  | 0 => StTimeout dt
  | 1 => StRead dt (RData (un_B (nth_sx l 2)))
  | 2 => StRead dt REof
  | 3 => StRead dt ROSErr
  | 4 => StRead dt RExc
  | _ => StSelExc dt
  end.
Definition un_action (s : sx) : action :=
  let l := un_L s in
  match un_N (nth_sx l 0) with
  | 0 => ACall (CSendText (un_B (nth_sx l 1)) (un_bool (nth_sx l 2)))
  | 1 => ACall (CSendBinary (un_B (nth_sx l 1)) (un_bool (nth_sx l 2)))
  | 2 => ACall (CSendPing (un_B (nth_sx l 1)))
  | 3 => ACall (CSendPong (un_B (nth_sx l 1)))
  | 4 => ACall (CClose (un_optN (nth_sx l 1)) (un_B (nth_sx l 2)))
  | _ => AAbandon (un_bool (nth_sx l 1))
  end.
(* a finite strategy: (event index, actions) pairs; the index counts the events yielded so far, from 0 *)
Definition count_events (tr : list titem) : nat :=
  length (filter (fun t => match t with TEv _ => true | _ => false end) tr).
Definition table_strategy (tbl : list (nat * list action)) : strategy :=
  fun tr => let i := (count_events tr - 1)%nat in
            match find (fun p => Nat.eqb (fst p) i) tbl with Some (_, acts) => acts | None => [] end.
(* () = zlib error; (out) = inflated; (out 1) = inflated, and the peer ended its DEFLATE stream in this message *)
Definition un_zres (s : sx) : option (bytes * bool) :=
  match un_L s with
  | [x] => Some (un_B x, false)
  | x :: _ :: _ => Some (un_B x, true)
  | [] => None
  end.
Definition un_wres (s : sx) : wres := match un_N s with 0 => WOk | 1 => WOSErr | _ => WExc end.

(* (10 cfg connect steps app keys wfaults ztape ctape) -> trace, oldest first *)
Definition cmd_run (args : list sx) : sx :=
  let cf := un_cfg (nth_sx args 0) in
  let cn := match un_N (nth_sx args 1) with 0 => CnOk | 1 => CnSocketFail | _ => CnExc end in
  let steps := map un_step (un_L (nth_sx args 2)) in
  let tbl := map (fun s => (un_nat (nth_sx (un_L s) 0), map un_action (un_L (nth_sx (un_L s) 1)))) (un_L (nth_sx args 3)) in
  let c0 := init (map un_B (un_L (nth_sx args 4))) (map un_wres (un_L (nth_sx args 5)))
                 (map un_zres (un_L (nth_sx args 6))) (map un_B (un_L (nth_sx args 7))) in
  let c := run cf (table_strategy tbl) c0 cn steps in
  L (map sx_titem (rev (k_tr c))).

(* ---------- persist ---------- *)
(* rationals travel as (num den) with num >= 0 *)
Definition un_Q (s : sx) : Q :=
  match un_L s with
  | [n; d] => Qmake (un_Z n) (match un_N d with Npos p => p | N0 => 1%positive end)
  | _ => 0%Q
  end.
Definition sx_Q (q : Q) : sx := let r := Qred q in L [sx_Z (Qnum r); A (Npos (Qden r))].
Definition sx_pitem (p : pitem) : sx :=
  match p with
  | PEvent no i r => L [A 0; sx_nat no; sx_nat i; sx_bool r]
  | PBackOff d => L [A 1; sx_Q d]
  | PConnect no => L [A 2; sx_nat no]
  end.
(* (20 min max attempts draws exits) *)
Definition cmd_persist (args : list sx) : sx :=
  let '(items, running) :=
    persist (un_Q (nth_sx args 0)) (un_Q (nth_sx args 1))
            (map (fun a => map un_bool (un_L a)) (un_L (nth_sx args 2)))
            (map un_Q (un_L (nth_sx args 3))) (map un_bool (un_L (nth_sx args 4))) 0 0 in
  L [L (map sx_pitem items); sx_bool running].

(* ---------- requests ---------- *)
(* (30 resource host port rand16 agent ((h v)...) (proto...) compress version): the key is derived from the 16 random bytes *)
Definition cmd_request (args : list sx) : sx :=
  B (build_request {| q_resource := un_B (nth_sx args 0); q_host := un_B (nth_sx args 1); q_port := un_N (nth_sx args 2);
                      q_key := make_key (un_B (nth_sx args 3)); q_agent := un_B (nth_sx args 4);
                      q_custom := map (fun p => (un_B (nth_sx (un_L p) 0), un_B (nth_sx (un_L p) 1))) (un_L (nth_sx args 5));
                      q_protocols := map un_B (un_L (nth_sx args 6)); q_compress := un_bool (nth_sx args 7);
                      q_version := un_N (nth_sx args 8) |}).
(* (31 host port () | (user) | (user password)): the Basic credentials token is computed here *)
Definition cmd_proxy_request (args : list sx) : sx :=
  let cred := match un_L (nth_sx args 2) with
              | [B u] => Some (proxy_credentials u None)
              | [B u; B p] => Some (proxy_credentials u (Some p))
              | _ => None end in
  B (proxy_request (un_B (nth_sx args 0)) (un_N (nth_sx args 1)) cred).

(* (32 (recv steps as in scenarios)) -> 0 tunnel | 1 fail | 2 blocked *)
Definition cmd_proxy_negotiate (args : list sx) : sx :=
  let script := map (fun s => match un_step s with StRead _ r => r | _ => RExc end) (un_L (nth_sx args 0)) in
  A (match negotiate script px_init with PxTunnel => 0 | PxFail => 1 | PxBlocked => 2 end).

(* (33 (recv steps)) -> the trace of the whole attempt through the proxy (passive application, nothing after Connected) *)
Definition cmd_proxy_run (args : list sx) : sx :=
  let script := map (fun s => match un_step s with StRead _ r => r | _ => RExc end) (un_L (nth_sx args 0)) in
  let cf := {| c_poll := 5120; c_ping_rate := 0; c_ping_timeout := None; c_auto_pong := true; c_close_timeout := None; c_accept := [] |} in
  L (map sx_titem (rev (k_tr (run_via_proxy cf (fun _ => []) (init [] [] [] []) script [])))).

(* (34 rand16) -> (Sec-WebSocket-Key, expected Sec-WebSocket-Accept) *)
Definition cmd_handshake_values (args : list sx) : sx :=
  let key := make_key (un_B (nth_sx args 0)) in L [B key; B (accept_of key)].
(* (35 user (password)?) -> the credentials token of Proxy-Authorization: Basic *)
Definition cmd_proxy_credentials (args : list sx) : sx :=
  B (proxy_credentials (un_B (nth_sx args 0)) (un_optB (nth_sx args 1))).
(* (36 bytes) -> SHA-1 digest;  (37 bytes) -> (base64 text, its decoding (bytes) or ()) *)
Definition cmd_sha1 (args : list sx) : sx := B (sha1 (un_B (nth_sx args 0))).
Definition cmd_b64 (args : list sx) : sx :=
  let e := b64_encode (un_B (nth_sx args 0)) in
  L [B e; match b64_decode e with Some d => L [B d] | None => L [] end;
     match b64_decode (un_B (nth_sx args 0)) with Some d => L [B d] | None => L [] end].

(* (38 url) -> () when urlparse / the port property refuse the URL (or it is outside the modelled domain), else
   (scheme (user)? (password)? host (port)? path query resource ws_port secure proxy_port proxy_tls) *)
Definition sx_optB (o : option bytes) : sx := match o with Some b => L [B b] | None => L [] end.
Definition cmd_url (args : list sx) : sx :=
  match parse_url (un_B (nth_sx args 0)) with
  | None => L []
  | Some u => L [B (u_scheme u); sx_optB (u_user u); sx_optB (u_password u); B (u_host u);
                 match u_port u with Some n => L [A n] | None => L [] end; B (u_path u); B (u_query u);
                 B (ws_resource u); A (ws_port u); sx_bool (ws_secure u); A (proxy_port u); sx_bool (proxy_tls u)]
  end.
(* (39 url rand16 agent ((h v)...) (proto...) compress version) -> (request) or () : the upgrade request of a WebSocket
   constructed from this URL *)
Definition cmd_request_url (args : list sx) : sx :=
  match parse_url (un_B (nth_sx args 0)) with
  | None => L []
  | Some u =>
    L [B (build_request (req_of_url u (make_key (un_B (nth_sx args 1))) (un_B (nth_sx args 2))
                           (map (fun p => (un_B (nth_sx (un_L p) 0), un_B (nth_sx (un_L p) 1))) (un_L (nth_sx args 3)))
                           (map un_B (un_L (nth_sx args 4))) (un_bool (nth_sx args 5)) (un_N (nth_sx args 6))))]
  end.
(* (41 proxy_url target_host target_port) -> () or (proxy_host proxy_port tls CONNECT-request) *)
Definition cmd_proxy_url (args : list sx) : sx :=
  match parse_url (un_B (nth_sx args 0)) with
  | None => L []
  | Some u =>
    let cred := match proxy_user u with Some (us, pw) => Some (proxy_credentials us pw) | None => None end in
    L [B (u_host u); A (proxy_port u); sx_bool (proxy_tls u);
       B (proxy_request (un_B (nth_sx args 1)) (un_N (nth_sx args 2)) cred)]
  end.

(* (42 fuel p now (arrival times...)) -> the instants at which selector.wait(p) returns *)
Definition cmd_wakes (args : list sx) : sx :=
  L (map sx_Z (wakes (un_nat (nth_sx args 0)) (un_Z (nth_sx args 1)) (un_Z (nth_sx args 2)) (map un_Z (un_L (nth_sx args 3))))).

(* (43 resolve_ok ((created connected)...)) -> ((index in use)?) ((kind index)...)   kind 0: socket() failed, 1: connect(), 2: close() *)
Definition cmd_connect (args : list sx) : sx :=
  let addrs := map (fun a => (un_bool (nth_sx (un_L a) 0), un_bool (nth_sx (un_L a) 1))) (un_L (nth_sx args 1)) in
  let '(r, ops) := connect_sock (un_bool (nth_sx args 0)) addrs in
  L [match r with Some i => L [sx_nat i] | None => L [] end;
     L (map (fun o => match o with OCreateFail i => L [A 0; sx_nat i] | OConnect i => L [A 1; sx_nat i] | OClose i => L [A 2; sx_nat i] end) ops)].

(* (40 tls (records...)) -> (chunk sizes ...) *)
Definition cmd_drain (args : list sx) : sx :=
  let t := {| t_tls := negb (un_N (nth_sx args 0) =? 0); t_readahead := un_N (nth_sx args 0) =? 2;
              t_kernel := map un_B (un_L (nth_sx args 1)); t_pending := [] |} in
  let '(chunks, t') := drain_all t in
  L [L (map (fun c => A (blen c)) chunks); A (N.of_nat (total t'))].

(* ---------- concurrency ---------- *)
Definition un_ccall (s : sx) : ccall :=
  let l := un_L s in
  match un_N (nth_sx l 0) with
  | 0 => KSend (un_bool (nth_sx l 1)) (un_bool (nth_sx l 2)) (un_nat (nth_sx l 3))
  | 1 => KClose (un_nat (nth_sx l 1))
  | 2 => KServerClose
  | _ => KDisconnect
  end.
Definition sx_cexn (r : option cexn) : sx :=
  A (match r with None => 0 | Some EUnavailable => 3 | Some EClosed => 4 | Some EClosing => 5 end).
(* (50 ((call...) per thread) (schedule tids)) -> ((tid label)...) ((tid msg close data rsv1 part)...) ((result...) per thread) *)
Definition cmd_conc (args : list sx) : sx :=
  let ths := map (fun t => mk_thread (map un_ccall (un_L t))) (un_L (nth_sx args 0)) in
  let sched := map un_nat (un_L (nth_sx args 1)) in
  let '(s, ths') := exec (init_shared, ths) sched in
  L [ L (map (fun x => L [sx_nat (fst x); sx_nat (snd x)]) (rev (s_log s)));
      L (map (fun w => L [sx_nat (w_tid w); sx_nat (w_msg w); sx_bool (w_close w); sx_bool (w_data w); sx_bool (w_rsv1 w);
                          A (match w_part w with P1 => 1 | P2 => 2 end)]) (rev (s_wire s)));
      L (map (fun th => L (map (fun r => sx_cexn (snd r)) (rev (th_results th)))) ths');
      L (map (fun x => L [sx_nat (fst x); sx_nat (snd x)]) (rev (s_zorder s))) ].

Definition run_sx (req : sx) : sx :=
  match req with
  | L (A 1 :: args) => cmd_utf8 args
  | L (A 2 :: args) => cmd_utf8_decode args
  | L (A 10 :: args) => cmd_run args
  | L (A 20 :: args) => cmd_persist args
  | L (A 30 :: args) => cmd_request args
  | L (A 31 :: args) => cmd_proxy_request args
  | L (A 32 :: args) => cmd_proxy_negotiate args
  | L (A 33 :: args) => cmd_proxy_run args
  | L (A 34 :: args) => cmd_handshake_values args
  | L (A 35 :: args) => cmd_proxy_credentials args
  | L (A 36 :: args) => cmd_sha1 args
  | L (A 37 :: args) => cmd_b64 args
  | L (A 38 :: args) => cmd_url args
  | L (A 39 :: args) => cmd_request_url args
  | L (A 41 :: args) => cmd_proxy_url args
  | L (A 42 :: args) => cmd_wakes args
  | L (A 43 :: args) => cmd_connect args
  | L (A 40 :: args) => cmd_drain args
  | L (A 50 :: args) => cmd_conc args
  | _ => L [A 998]
  end.
