(* S-expressions: the one wire format between the harness and the extracted model.
   The same literals are evaluated inside Coq (cases.v) to watch the extraction step. *)
From Coq Require Import List NArith ZArith Bool.
From Coq.Strings Require Import Byte.
From Model Require Import Bytes.
Import ListNotations.
Open Scope N_scope.

Inductive sx := A (n : N) | B (b : bytes) | L (l : list sx).

Definition sx_bool (b : bool) : sx := A (if b then 1 else 0).
Definition sx_nat (n : nat) : sx := A (N.of_nat n).
Definition sx_optN (o : option N) : sx := match o with Some n => L [A n] | None => L [] end.
Definition sx_optB (o : option bytes) : sx := match o with Some n => L [B n] | None => L [] end.
Definition sx_Z (z : Z) : sx := match z with Z0 => A 0 | Zpos p => A (Npos p) | Zneg p => L [A (Npos p)] end.

Definition un_bool (s : sx) : bool := match s with A 0 => false | A _ => true | _ => false end.
Definition un_N (s : sx) : N := match s with A n => n | _ => 0 end.
Definition un_nat (s : sx) : nat := N.to_nat (un_N s).
Definition un_B (s : sx) : bytes := match s with B b => b | _ => [] end.
Definition un_L (s : sx) : list sx := match s with L l => l | _ => [] end.
Definition un_optN (s : sx) : option N := match s with L [A n] => Some n | _ => None end.
Definition un_optB (s : sx) : option bytes := match s with L [B b] => Some b | _ => None end.
Definition un_Z (s : sx) : Z := match s with A n => Z.of_N n | L [A n] => Z.opp (Z.of_N n) | _ => 0%Z end.
Definition nth_sx (l : list sx) (i : nat) : sx := nth i l (L []).
