(* WebsocketSession._connect_sock: the resolver's answer is tried address by address, in order; per address a socket is
   created (which may fail) and connected (which may fail: the socket of a failed attempt is closed); the first address
   that connects is used, the remaining ones are not touched.  Executable definitions only. *)
From Coq Require Import List Bool.
Import ListNotations.

(* per address: does socket() succeed, does connect() succeed *)
Definition attempt := (bool * bool)%type.

Inductive cop :=
| OCreateFail (i : nat)          (* socket() raised for address i *)
| OConnect (i : nat)             (* connect() called on address i's socket *)
| OClose (i : nat).              (* the socket of address i was closed *)

(* result: index of the address in use (None: _socket_fail('unable to connect')), operations in order *)
Fixpoint connect_from (i : nat) (addrs : list attempt) : option nat * list cop :=
  match addrs with
  | [] => (None, [])
  | (created, connected) :: rest =>
      if negb created then let '(r, ops) := connect_from (S i) rest in (r, OCreateFail i :: ops)
      else if connected then (Some i, [OConnect i])
      else let '(r, ops) := connect_from (S i) rest in (r, OConnect i :: OClose i :: ops)
  end.

(* resolver failure: nothing is tried *)
Definition connect_sock (resolve_ok : bool) (addrs : list attempt) : option nat * list cop :=
  if resolve_ok then connect_from 0 addrs else (None, []).
