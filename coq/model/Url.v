(* What lomond takes from a URL: WebSocket.__init__ (scheme, host, port, resource of a ws:// or wss:// URL) and
   WebsocketSession._connect_proxy (host, port, TLS flag and credentials of a proxy URL), both through
   urllib.parse.urlparse.  The model follows urlsplit's reading on the domain of the properties: printable ASCII without
   blanks, an authority introduced by "//", no bracketed (IPv6 literal) host.  Executable definitions only. *)
From Coq Require Import String.
From Coq Require Import List NArith Bool.
From Coq.Strings Require Import Byte.
From Model Require Import Bytes Response Handshake.
Import ListNotations.
Open Scope N_scope.

Definition SLASH : byte := x2f.
Definition QMARK : byte := x3f.
Definition HASH : byte := x23.
Definition AT : byte := x40.
Definition LBRACK : byte := x5b.
Definition RBRACK : byte := x5d.

(* str.partition(c): text before the first c, whether c was found, text after it *)
Fixpoint partition (c : byte) (l : bytes) : bytes * bool * bytes :=
  match l with
  | [] => ([], false, [])
  | x :: t => if Byte.eqb x c then ([], true, t)
              else let '(a, f, b) := partition c t in (x :: a, f, b)
  end.

(* str.rpartition(c) as urlsplit uses it: ("", false, l) when c does not occur *)
Fixpoint rpartition (c : byte) (l : bytes) : bytes * bool * bytes :=
  match l with
  | [] => ([], false, [])
  | x :: t =>
      let '(a, f, b) := rpartition c t in
      if f then (x :: a, true, b)
      else if Byte.eqb x c then ([], true, t)
      else ([], false, x :: b)
  end.

(* the authority ends at the first '/', '?' or '#' *)
Definition is_delim (x : byte) : bool := Byte.eqb x SLASH || Byte.eqb x QMARK || Byte.eqb x HASH.
Fixpoint split_netloc (l : bytes) : bytes * bytes :=
  match l with
  | [] => ([], [])
  | x :: t => if is_delim x then ([], l) else let '(a, b) := split_netloc t in (x :: a, b)
  end.

Definition is_alpha (b : byte) : bool :=
  let n := b2n b in ((65 <=? n) && (n <=? 90)) || ((97 <=? n) && (n <=? 122)).
Definition is_scheme_char (b : byte) : bool :=
  is_alpha b || is_digit b || Byte.eqb b x2b || Byte.eqb b x2d || Byte.eqb b x2e.   (* + - . *)


Definition mem (c : byte) (l : bytes) : bool := existsb (Byte.eqb c) l.

(* int(text) for a text of ASCII digits *)
Fixpoint parse_dec_acc (acc : N) (l : bytes) : option N :=
  match l with
  | [] => Some acc
  | d :: t => if is_digit d then parse_dec_acc (acc * 10 + (b2n d - 48)) t else None
  end.
Definition parse_dec (l : bytes) : option N := match l with [] => None | _ => parse_dec_acc 0 l end.

Record url := {
  u_scheme : bytes;                 (* lower case *)
  u_user : option bytes; u_password : option bytes;
  u_host : bytes;                   (* lower case; [] when the URL has no host *)
  u_port : option N;                (* None: no port, or an empty one ("host:") *)
  u_path : bytes; u_query : bytes
}.

(* None: urlparse (or the .port property) raises ValueError, or the URL is outside the modelled domain *)
Definition parse_url (u : bytes) : option url :=
  let '(sch, found, rest) := partition COLON u in
  match sch with
  | [] => None
  | s0 :: _ =>
    if negb found || negb (is_alpha s0) || negb (forallb is_scheme_char sch) then None else
    match rest with
    | a :: b :: rest' =>
      if negb (Byte.eqb a SLASH && Byte.eqb b SLASH) then None else
      let '(netloc, tail) := split_netloc rest' in
      if mem LBRACK netloc || mem RBRACK netloc then None else
      let '(tail1, _, _) := partition HASH tail in
      let '(path, _, query) := partition QMARK tail1 in
      let '(userinfo, have_info, hostinfo) := rpartition AT netloc in
      let '(user, pw) :=
        if have_info then
          let '(us, have_pw, p) := partition COLON userinfo in (Some us, if have_pw then Some p else None)
        else (None, None) in
      let '(host, _, port_text) := partition COLON hostinfo in
      match port_text with
      | [] => Some {| u_scheme := lower_s sch; u_user := user; u_password := pw; u_host := lower_s host;
                      u_port := None; u_path := path; u_query := query |}
      | _ => match parse_dec port_text with
             | Some n => if n <=? 65535 then
                           Some {| u_scheme := lower_s sch; u_user := user; u_password := pw; u_host := lower_s host;
                                   u_port := Some n; u_path := path; u_query := query |}
                         else None
             | None => None
             end
      end
    | _ => None
    end
  end.

(* WebSocket.__init__: port = int(_url.port) if _url.port else (443 if scheme == 'wss' else 80)  -- a port of 0 is
   "false" and gives the default; resource = path or '/', plus '?' + query when there is a query *)
Definition effective_port (p : option N) (secure_default : bool) : N :=
  match p with
  | Some n => if n =? 0 then (if secure_default then 443 else 80) else n
  | None => if secure_default then 443 else 80
  end.

Definition ws_resource (u : url) : bytes :=
  (match u_path u with [] => [SLASH] | p => p end) ++ (match u_query u with [] => [] | q => QMARK :: q end).

Definition ws_secure (u : url) : bool := bytes_eqb (u_scheme u) (str "wss"%string).
Definition ws_port (u : url) : N := effective_port (u_port u) (ws_secure u).

(* _connect_proxy: TLS to the proxy iff the scheme is https; same port rule with https in place of wss *)
Definition proxy_tls (u : url) : bool := bytes_eqb (u_scheme u) (str "https"%string).
Definition proxy_port (u : url) : N := effective_port (u_port u) (proxy_tls u).
(* proxy.build_request adds credentials only `if proxy_username:` -- an empty user name counts as none *)
Definition proxy_user (u : url) : option (bytes * option bytes) :=
  match u_user u with
  | Some (x :: us) => Some (x :: us, u_password u)
  | _ => None
  end.

(* WebSocket.build_request for a WebSocket constructed from this URL *)
Definition req_of_url (u : url) (key agent : bytes) (custom : list (bytes * bytes)) (protocols : list bytes)
                      (compress : bool) (version : N) : req_cfg :=
  {| q_resource := ws_resource u; q_host := u_host u; q_port := ws_port u; q_key := key; q_agent := agent;
     q_custom := custom; q_protocols := protocols; q_compress := compress; q_version := version |}.
