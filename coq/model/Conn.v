(* One connection: WebsocketStream + Message + WebSocket (feed, close, send_x) + WebsocketSession.run.
   Generators are pull machines; every `yield` is a call of [yield_ev], every code block that runs after a
   yield resumes is a "post" function.  The environment is a script, the application a strategy. *)
From Coq Require Import List NArith ZArith Bool Lia.
From Coq.Strings Require Import Byte.
From RecordUpdate Require Import RecordSet.
From Model Require Import Bytes Utf8 Frame Parser FrameParser Response.
Import ListNotations RecordSetNotations.
Open Scope N_scope.

(* ---------- observable vocabulary ---------- *)
Inductive ev :=
| EvConnecting | EvConnectFail | EvConnected | EvRejected
| EvReady (protocol : option bytes) (deflate : bool)
| EvPoll
| EvText (payload : bytes)           (* the text, as its UTF-8 encoding *)
| EvBinary (payload : bytes) | EvPing (payload : bytes) | EvPong (payload : bytes)
| EvClosing (code : option N) (reason : bytes) | EvClosed (code : option N) (reason : bytes)
| EvUnresponsive
| EvProtocolError (critical : bool)
| EvDisconnected (graceful : bool).

(* exceptions an API call can raise *)
Inductive exn := XTypeError | XValueError | XUnavailable | XClosed | XClosing | XTransportFail.
Definition is_websocket_error (x : exn) : bool :=
  match x with XTypeError | XValueError => false | _ => true end.

Inductive call :=
| CSendText (payload : bytes) (compress : bool)
| CSendBinary (payload : bytes) (compress : bool)
| CSendPing (payload : bytes)
| CSendPong (payload : bytes)
| CClose (code : option N) (reason : bytes).

Inductive action :=
| ACall (c : call)
| AAbandon (with_block : bool).   (* break / raise / generator.close(); with_block: leaves a `with ws:` block *)

Inductive wres := WOk | WOSErr | WExc.

Inductive titem :=
| TEv (e : ev)
| TWrite (w : bytes)                    (* sendall(w) returned *)
| TWriteFail (w : bytes)                (* sendall(w) raised *)
| TWriteReq (ok : bool)                 (* the upgrade request (its content is C10's business) *)
| TCall (r : option exn)                (* outcome of one application call *)
| TSockClose | TSelClose | TBlocked
| TWait                                 (* one selector.wait call: a loop iteration starts *)
| TInflate (epoch : N) (parts : list bytes)   (* one Deflate.decompress(frames) call *)
| TDeflate (epoch : N) (input : bytes).       (* one Deflate.compress(payload) call *)

(* exceptions travelling inside WebsocketSession.run *)
Inductive sexn := SForce | SSocketFail | SOther.
Inductive status := SOk | SRaise (x : sexn) | SAbandon.

(* ---------- configuration and environment ---------- *)
Record cfg := {
  c_poll : Z; c_ping_rate : Z; c_ping_timeout : option Z; c_auto_pong : bool; c_close_timeout : option Z;
  c_accept : bytes                      (* base64(sha1(key ++ GUID)) of the key this connection sends *)
}.

Inductive recv_res := RData (d : bytes) | REof | ROSErr | RExc.
Inductive step :=
| StTimeout (dt : Z)                    (* selector.wait returned (False, _) after dt ticks *)
| StRead (dt : Z) (r : recv_res)        (* selector.wait returned (True, _); then recv *)
| StSelExc (dt : Z).                    (* selector.wait raised *)

Inductive connect_res := CnOk | CnSocketFail | CnExc.

(* ---------- the state ---------- *)
Record conn := {
  (* WebsocketStream + ClientFrameParser *)
  k_ps : fpst; k_frames : list frame;
  (* WebSocket.State *)
  k_closing : bool; k_closed : bool; k_sent_close_time : option Z; k_deflate : option deflate_cfg;
  (* WebsocketSession *)
  k_sock : bool; k_ready : bool; k_poll_start : option Z; k_next_ping : Z; k_last_pong : Z;
  k_start : option Z; k_now : Z;
  (* tapes *)
  k_keys : list bytes;                  (* masking keys, one per frame built *)
  k_wfaults : list wres;                (* outcome of each sendall, in order; WOk when exhausted *)
  k_ztape : list (option (bytes * bool)); (* result of each Deflate.decompress; None = zlib error; the flag: the peer ended
                                           its DEFLATE stream in this message (a block with BFINAL set, RFC 7692 7.2.3.4) *)
  k_ctape : list bytes;                 (* result of each Deflate.compress *)
  k_zin : N; k_zout : N;                (* how many times each zlib context was re-created *)
  k_with : bool;                        (* the application left a `with ws:` block: __exit__ closes the session *)
  (* trace, most recent first *)
  k_tr : list titem
}.
#[export] Instance eta_conn : Settable _ :=
  settable! Build_conn <k_ps; k_frames; k_closing; k_closed; k_sent_close_time; k_deflate; k_sock; k_ready;
                        k_poll_start; k_next_ping; k_last_pong; k_start; k_now; k_keys; k_wfaults; k_ztape;
                        k_ctape; k_zin; k_zout; k_with; k_tr>.

Definition emit (x : titem) (c : conn) : conn := c <| k_tr ::= cons x |>.

Definition session_time (c : conn) : Z :=
  match k_start c with None => 0%Z | Some s => (k_now c - s)%Z end.

Definition is_active (c : conn) : bool := negb (k_closing c) && negb (k_closed c).

(* ---------- writing ---------- *)
Definition pop_key (c : conn) : bytes * conn :=
  match k_keys c with
  | k :: ks => (k, c <| k_keys := ks |>)
  | [] => ([x00; x00; x00; x00], c)
  end.
Definition pop_wfault (c : conn) : wres * conn :=
  match k_wfaults c with
  | w :: ws => (w, c <| k_wfaults := ws |>)
  | [] => (WOk, c)
  end.

(* WebsocketSession.write(data, closing) *)
Definition write (c : conn) (data : bytes) (closing : bool) : conn * option exn :=
  if negb (k_sock c) then (c, Some XUnavailable)
  else if k_closed c then (c, Some XClosed)
  else if k_closing c then (c, Some XClosing)
  else
    let c1 := if closing then c <| k_closing := true |> else c in
    let '(w, c2) := pop_wfault c1 in
    match w with
    | WOk => (emit (TWrite data) c2, None)
    | _ => (emit (TWriteFail data) c2, Some XTransportFail)
    end.

(* WebsocketSession.send / send_compressed: the masking key is drawn while the frame is built, before write() *)
Definition send_frame (c : conn) (op : N) (rsv1 : bool) (payload : bytes) : conn * option exn :=
  let '(key, c1) := pop_key c in
  write c1 (build op rsv1 key payload) (op =? OP_CLOSE).

(* WebSocket._send_close + close *)
Definition ws_close (c : conn) (code : option N) (reason : bytes) : conn * option exn :=
  if k_closed c then (c, None)
  else if k_closing c then (c, None)
  else
    let p := close_payload code reason in
    if 125 <? blen p then (c, Some XValueError)
    else
      let '(c1, _) := send_frame c OP_CLOSE false p in     (* WebSocketUnavailable / TransportFail are swallowed *)
      (c1 <| k_closing := true |> <| k_sent_close_time := Some (session_time c1) |>, None).

(* Deflate.compress under the compression lock, then send_compressed *)
Definition send_data (c : conn) (op : N) (payload : bytes) (compress : bool) : conn * option exn :=
  match k_deflate c with
  | Some d =>
    if compress then
      let '(z, c1) := match k_ctape c with
                      | z :: zs => (z, c <| k_ctape := zs |>)
                      | [] => ([], c) end in
      let c2 := emit (TDeflate (k_zout c1) payload) c1 in
      let c3 := if c_reset d then c2 <| k_zout ::= N.succ |> else c2 in
      send_frame c3 op true z
    else send_frame c op false payload
  | None => send_frame c op false payload
  end.

Definition api_call (c : conn) (a : call) : conn * option exn :=
  match a with
  | CSendText p z => send_data c OP_TEXT p z
  | CSendBinary p z => send_data c OP_BINARY p z
  | CSendPing p => if 125 <? blen p then (c, Some XValueError) else send_frame c OP_PING false p
  | CSendPong p => if 125 <? blen p then (c, Some XValueError) else send_frame c OP_PONG false p
  | CClose code reason => ws_close c code reason
  end.

(* ---------- closing the socket ---------- *)
Definition close_socket (c : conn) : conn :=
  if k_sock c then emit TSockClose (c <| k_sock := false |>) else c.
(* WebSocket.on_disconnect *)
Definition on_disconnect (c : conn) : conn :=
  (close_socket c) <| k_closed := true |> <| k_closing := false |>.

(* ---------- the application ---------- *)
(* a strategy sees everything observable so far (most recent first) and answers with actions *)
Definition strategy := list titem -> list action.

Fixpoint do_actions (c : conn) (acts : list action) : conn * status :=
  match acts with
  | [] => (c, SOk)
  | ACall a :: rest =>
      let '(c1, r) := api_call c a in
      do_actions (emit (TCall r) c1) rest
  | AAbandon w :: _ => (c <| k_with := w |>, SAbandon)
  end.

Section Run.
  Variable cf : cfg.
  Variable app : strategy.

  (* hand one event to the application *)
  Definition deliver (c : conn) (e : ev) : conn * status :=
    let c1 := emit (TEv e) c in
    do_actions c1 (app (k_tr c1)).

  (* ---------- WebsocketSession._regular ---------- *)
  Definition zpos (o : option Z) : option Z := match o with Some z => if (z =? 0)%Z then None else Some z | None => None end.
  Definition ceil_div (a b : Z) : Z := (- ((- a) / b))%Z.

  Definition regular (c : conn) : conn * status :=
    if negb (k_ready c) then (c, SOk) else
    let t := session_time c in
    (* _check_poll *)
    let '(c1, st1) :=
      match k_poll_start c with
      | Some ps => if (t - ps >=? c_poll cf)%Z then deliver (c <| k_poll_start := Some t |>) EvPoll else (c, SOk)
      | None => deliver (c <| k_poll_start := Some t |>) EvPoll
      end in
    match st1 with
    | SOk =>
      (* _check_auto_ping *)
      let c2 :=
        if negb (c_ping_rate cf =? 0)%Z && (t >? k_next_ping c1)%Z then
          let c' := c1 <| k_next_ping := (ceil_div t (c_ping_rate cf) * c_ping_rate cf)%Z |> in
          fst (send_frame c' OP_PING false [])
        else c1 in
      (* _check_ping_timeout *)
      match zpos (c_ping_timeout cf) with
      | Some pt =>
        if (t - k_last_pong c2 >? pt)%Z then
          let '(c3, st3) := deliver c2 EvUnresponsive in
          match st3 with SOk => (c3, SRaise SForce) | _ => (c3, st3) end
        else
          (* _check_close_timeout *)
          match zpos (c_close_timeout cf), k_sent_close_time c2 with
          | Some ct, Some sct => if (t >=? sct + ct)%Z then (c2, SRaise SForce) else (c2, SOk)
          | _, _ => (c2, SOk)
          end
      | None =>
          match zpos (c_close_timeout cf), k_sent_close_time c2 with
          | Some ct, Some sct => if (t >=? sct + ct)%Z then (c2, SRaise SForce) else (c2, SOk)
          | _, _ => (c2, SOk)
          end
      end
    | _ => (c1, st1)
    end.

  (* ---------- what run() does around one event yielded by WebSocket.feed ---------- *)
  Definition on_event (c : conn) (e : ev) : conn * status :=
    match e with
    | EvReady _ _ => (c <| k_last_pong := 0%Z |> <| k_next_ping := 0%Z |> <| k_start := Some (k_now c) |> <| k_ready := true |>, SOk)
    | EvPing p =>
        if c_auto_pong cf then
          let '(c1, r) := api_call c (CSendPong p) in
          match r with
          | Some XValueError => (c1, SRaise SOther)       (* not a WebSocketError: escapes _send_pong into run() *)
          | _ => (c1, SOk)
          end
        else (c, SOk)
    | EvPong _ => (c <| k_last_pong := session_time c |>, SOk)
    | _ => (c, SOk)
    end.

  (* "self._on_event(event); yield event; for event in _regular(): yield event" *)
  Definition in_feed_yield (c : conn) (e : ev) : conn * status :=
    let '(c0, st0) := on_event c e in
    match st0 with
    | SOk =>
      let '(c1, st) := deliver c0 e in
      match st with SOk => regular c1 | _ => (c1, st) end
    | _ => (c0, st0)
    end.

  (* a yield inside WebSocket.feed: if run() raises or is abandoned while feed is suspended, the feed generator is
     finalised and its GeneratorExit handler calls on_disconnect(); otherwise [post] runs when feed resumes *)
  Definition feed_yield (c : conn) (e : ev) (post : conn -> conn * status) : conn * status :=
    let '(c1, st) := in_feed_yield c e in
    match st with
    | SOk => post c1
    | _ => (on_disconnect c1, st)
    end.

  (* a yield inside one of feed's `except` clauses (the ProtocolError events): a GeneratorExit raised there is
     not seen by the sibling `except GeneratorExit` clause, so on_disconnect() does not run *)
  Definition handler_yield (c : conn) (e : ev) (post : conn -> conn * status) : conn * status :=
    let '(c1, st) := in_feed_yield c e in
    match st with
    | SOk => post c1
    | _ => (c1, st)
    end.

  (* ---------- Message.build ---------- *)
  Inductive merr := MCritical | MProtocol.
  Inductive message :=
  | MText (p : bytes) | MBinary (p : bytes) | MPing (p : bytes) | MPong (p : bytes)
  | MClose (code : option N) (reason : bytes) | MOther.

  Definition invalid_close_code (code : N) : bool :=
    (code <? 1000) || ((1004 <=? code) && (code <=? 1006)) || ((1014 <=? code) && (code <? 3000)).

  (* Deflate.decompress(frames) *)
  Definition inflate (c : conn) (d : deflate_cfg) (parts : list bytes) : conn * option bytes :=
    let c1 := emit (TInflate (k_zin c) parts) c in
    let '(r, c2) := match k_ztape c1 with
                    | r :: rs => (r, c1 <| k_ztape := rs |>)
                    | [] => (None, c1) end in
    match r with
    | Some (out, ended) =>
        (* a stream that has ended is replaced at once; then the no_context_takeover reset *)
        let c3 := if ended then c2 <| k_zin ::= N.succ |> else c2 in
        ((if d_reset d then c3 <| k_zin ::= N.succ |> else c3), Some out)
    | None => (c2, None)
    end.

  Definition build_message (c : conn) (frames : list frame) : conn * (message + merr) :=
    let first := hd {| f_fin := true; f_rsv1 := false; f_rsv2 := false; f_rsv3 := false; f_op := 0; f_key := None; f_payload := [] |} frames in
    let '(c1, payload) :=
      match f_rsv1 first, k_deflate c with
      | true, Some d => inflate c d (map f_payload frames)
      | _, _ => (c, Some (concat (map f_payload frames)))
      end in
    match payload with
    | None => (c1, inr MCritical)                 (* 'unable to decompress payload' *)
    | Some p =>
      let op := f_op first in
      if op =? OP_BINARY then (c1, inl (MBinary p))
      else if op =? OP_TEXT then (if utf8_validb p then (c1, inl (MText p)) else (c1, inr MCritical))
      else if op =? OP_CLOSE then
        match p with
        | [] => (c1, inl (MClose None []))
        | [_] => (c1, inr MProtocol)               (* 'invalid close frame payload' *)
        | a :: b :: reason =>
            if utf8_validb reason then (c1, inl (MClose (Some (be_decode [a; b])) reason))
            else (c1, inr MCritical)
        end
      else if op =? OP_PING then (c1, inl (MPing p))
      else if op =? OP_PONG then (c1, inl (MPong p))
      else (c1, inl MOther)
    end.

  (* the two `except` clauses of WebSocket.feed *)
  Definition raise_in_feed (c : conn) (e : merr) : conn * status :=
    match e with
    | MCritical =>
        handler_yield c (EvProtocolError true) (fun c1 => (c1, SRaise SForce))            (* force_disconnect() *)
    | MProtocol =>
        handler_yield c (EvProtocolError false)
          (fun c1 => (fst (ws_close c1 (Some 1002) []), SRaise SForce))                (* close(1002, msg); force_disconnect() *)
    end.

  (* dispatch of one message in WebSocket.feed; [continue] = keep iterating over the stream *)
  Inductive fstep := FContinue | FBreak.
  Definition on_message (c : conn) (m : message) : conn * status * fstep :=
    let plain e := let '(c1, st) := feed_yield c e (fun c1 => (c1, SOk)) in (c1, st, FContinue) in
    match m with
    | MClose code reason =>
        if (match code with Some n => invalid_close_code n | None => false end)
        then let '(c1, st) := raise_in_feed c MProtocol in (c1, st, FBreak)
        else if k_closed c then (c, SOk, FContinue)
        else if k_closing c then
          let '(c1, st) := feed_yield c (EvClosed code reason)
                             (fun c1 => (c1 <| k_closed := true |> <| k_closing := false |>, SOk)) in
          (c1, st, FContinue)
        else
          let '(c1, st) := feed_yield c (EvClosing code reason)
                             (fun c1 => ((fst (ws_close c1 code reason)) <| k_closing := true |>, SOk)) in
          (c1, st, FContinue)
    | MPing p => plain (EvPing p)
    | MPong p => plain (EvPong p)
    | MBinary p => plain (EvBinary p)
    | MText p => plain (EvText p)
    | MOther => (c, SOk, FContinue)
    end.

  (* WebsocketStream.feed's handling of one parsed frame: Some frames = a complete message *)
  Inductive sres := SNone (c : conn) | SMsg (c : conn) (frames : list frame) | SErr.
  Definition stream_frame (c : conn) (f : frame) : sres :=
    if is_control (f_op f) then SMsg c [f]
    else
      let cont := f_op f =? OP_CONT in
      match k_frames c with
      | [] => if cont then SErr                                   (* 'continuation frame has nothing to continue' *)
              else if f_fin f then SMsg c [f] else SNone (c <| k_frames := [f] |>)
      | fs => if negb cont then SErr                               (* 'continuation frame expected' *)
              else if f_fin f then SMsg (c <| k_frames := [] |>) (fs ++ [f])
              else SNone (c <| k_frames := fs ++ [f] |>)
      end.

  (* one item from the frame parser, through stream.feed and the body of WebSocket.feed's loop *)
  Definition on_item (c : conn) (x : pitem) : conn * status * fstep :=
    match x with
    | IHeader data =>
        match on_response (c_accept cf) (parse_response data) with
        | HRejected =>
            let c1 := on_disconnect c in
            let '(c2, st) := feed_yield c1 EvRejected (fun c => (c, SOk)) in
            (c2, st, FBreak)
        | HReady proto d =>
            let c1 := match d with
                      | Some dc => c <| k_deflate := Some dc |> <| k_ps ::= fp_enable_compression |>
                      | None => c end in
            let '(c2, st) := feed_yield c1 (EvReady proto (match d with Some _ => true | None => false end))
                               (fun c => (c, SOk)) in
            (c2, st, FContinue)
        end
    | IFrame f =>
        match stream_frame c f with
        | SErr => let '(c1, st) := raise_in_feed c MProtocol in (c1, st, FBreak)
        | SNone c1 => (c1, SOk, FContinue)
        | SMsg c1 frames =>
            let '(c2, r) := build_message c1 frames in
            match r with
            | inl m => on_message c2 m
            | inr e => let '(c3, st) := raise_in_feed c2 e in (c3, st, FBreak)
            end
        end
    end.

  Definition perr_to_merr (e : perr) : merr :=
    match e with PE_Protocol => MProtocol | _ => MCritical end.

  (* WebSocket.feed(data) *)
  Fixpoint feed (fuel : nat) (c : conn) (d : bytes) : conn * status :=
    match fuel with
    | O => (c, SOk)
    | S fuel' =>
      if k_closed c then (c, SOk) else
      match fp_pull (k_ps c) d with
      | NeedMore s => (c <| k_ps := s |>, SOk)
      | Err e => raise_in_feed (c <| k_ps := fp_init |>) (perr_to_merr e)   (* the parser is dead: never fed again *)
      | Item x s rest =>
          let '(c1, st, fs) := on_item (c <| k_ps := s |>) x in
          match st, fs with
          | SOk, FContinue => feed fuel' c1 rest
          | _, _ => (c1, st)
          end
      end
    end.
  (* an item consumes at least one byte, except that the buffer may yield one more item when empty *)
  Definition feedf (c : conn) (d : bytes) : conn * status := feed (S (S (length d))) c d.

  (* ---------- WebsocketSession.run ---------- *)
  Definition advance (c : conn) (dt : Z) : conn := emit TWait (c <| k_now ::= Z.add dt |>).

  (* the try block's handlers; [finally] runs afterwards in every case *)
  Definition finish (c : conn) (st : status) : conn :=
    let finally c := close_socket (emit TSelClose c) in
    match st with
    | SAbandon => finally c
    | SRaise _ =>
        let '(c1, st1) := deliver (close_socket c) (EvDisconnected false) in finally c1
    | SOk =>
        let '(c1, st1) := deliver (close_socket c) (EvDisconnected true) in finally c1
    end.

  Fixpoint loop (steps : list step) (c : conn) : conn :=
    if k_closed c then finish c SOk else
    match steps with
    | [] => emit TBlocked c
    | StSelExc dt :: _ => finish (advance c dt) (SRaise SOther)
    | StTimeout dt :: rest =>
        let '(c1, st) := regular (advance c dt) in
        match st with SOk => loop rest c1 | _ => finish c1 st end
    | StRead dt r :: rest =>
        let '(c1, st) := regular (advance c dt) in
        match st with
        | SOk =>
          (* _recv returns an empty buffer when the socket is gone *)
          let r' := if k_sock c1 then r else REof in
          match r' with
          | RData [] | REof => if is_active c1 then finish c1 (SRaise SSocketFail) else finish c1 SOk
          | ROSErr => finish c1 (SRaise SSocketFail)
          | RExc => finish c1 (SRaise SOther)
          | RData d =>
              let '(c2, st2) := feedf c1 d in
              match st2 with SOk => loop rest c2 | _ => finish c2 st2 end
          end
        | _ => finish c1 st
        end
    end.

  Definition init (keys : list bytes) (wfaults : list wres) (ztape : list (option (bytes * bool))) (ctape : list bytes) : conn :=
    {| k_ps := fp_init; k_frames := []; k_closing := false; k_closed := false; k_sent_close_time := None;
       k_deflate := None; k_sock := false; k_ready := false; k_poll_start := None; k_next_ping := 0%Z;
       k_last_pong := 0%Z; k_start := None; k_now := 0%Z; k_keys := keys; k_wfaults := wfaults;
       k_ztape := ztape; k_ctape := ctape; k_zin := 0; k_zout := 0; k_with := false; k_tr := [] |}.

  Definition run_gen (c0 : conn) (cn : connect_res) (steps : list step) : conn :=
    let '(c1, st1) := deliver c0 EvConnecting in
    match st1 with
    | SOk =>
      match cn with
      | CnOk =>
        let c2 := c1 <| k_sock := true |> in
        (* _send_request *)
        let '(c3, r) :=
          if negb (k_sock c2) then (c2, Some XUnavailable)
          else if k_closed c2 then (c2, Some XClosed)
          else if k_closing c2 then (c2, Some XClosing)
          else let '(w, c') := pop_wfault c2 in
               match w with WOk => (emit (TWriteReq true) c', None) | _ => (emit (TWriteReq false) c', Some XTransportFail) end in
        match r with
        | Some _ => fst (deliver (close_socket c3) EvConnectFail)
        | None =>
          let '(c4, st4) := deliver c3 EvConnected in
          match st4 with
          | SOk => loop steps c4
          | _ => close_socket c4        (* abandoned at Connected: the GeneratorExit handler closes the socket *)
          end
        end
      | _ => fst (deliver c1 EvConnectFail)
      end
    | _ => c1
    end.

  (* the generator is finalised first; then, if the consumer was inside `with ws:`, __exit__ closes the session *)
  Definition run (c0 : conn) (cn : connect_res) (steps : list step) : conn :=
    let c := run_gen c0 cn steps in
    if k_with c then close_socket c else c.
End Run.
