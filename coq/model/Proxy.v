(* lomond/proxy.py ProxyParser + the negotiation loop of WebsocketSession._connect_proxy *)
From Coq Require Import List NArith Bool.
From Coq.Strings Require Import Byte.
From Model Require Import Bytes Parser Response Conn.
Import ListNotations.
Open Scope N_scope.

Inductive pxerr := PxParse | PxStatus.
Inductive pxitem := PxResponse.

(* the coroutine has a single suspension point *)
Definition px_resume (_ : unit) (buf : bytes) : res unit pxitem pxerr :=
  match r_status (parse_response buf) with
  | Some st => if st =? 200 then RItem PxResponse tt (AwBytes false) 1   (* after `yield response` the generator is finished *)
               else RErr PxStatus
  | None => RErr PxStatus
  end.
Definition px_validate (g : unit) (_ : bytes) : option unit := Some g.

Definition px_init : pst unit := {| pg := tt; paw := AwUntil (Some 16384); prem := 0; pbuf := [] |}.
Definition px_pull := pullf unit pxitem pxerr CRLFCRLF px_resume px_validate PxParse PxParse.

(* while response is None: data = sock.recv(1024); for response in proxy_parser.feed(data): break *)
Inductive px_outcome := PxTunnel | PxFail | PxBlocked.
Fixpoint negotiate (script : list recv_res) (s : pst unit) : px_outcome :=
  match script with
  | [] => PxBlocked
  | RData [] :: _ | REof :: _ => PxFail         (* feed(b'') throws ParseError into the coroutine -> ProxyFail *)
  | ROSErr :: _ | RExc :: _ => PxFail
  | RData d :: rest =>
      match px_pull s d with
      | Item _ _ _ => PxTunnel
      | Err _ => PxFail
      | NeedMore s' => negotiate rest s'
      end
  end.

(* which proxy URL _connect picks: the 'https' entry for wss, the 'http' entry for ws; empty/absent = direct *)
Definition pick_proxy (secure : bool) (http https : option bytes) : option bytes :=
  match (if secure then https else http) with
  | Some [] => None
  | o => o
  end.

(* WebsocketSession._connect with a proxy configured: the CONNECT request goes to the proxy and the negotiation decides how
   run() goes on -- like a direct connection over the tunnel, or like a failed connect (ProxyFail becomes ConnectFail);
   while the proxy's answer is outstanding the session is still waiting *)
Definition connect_via_proxy (script : list recv_res) : option connect_res :=
  match negotiate script px_init with PxTunnel => Some CnOk | PxFail => Some CnSocketFail | PxBlocked => None end.

Definition run_via_proxy (cf : cfg) (app : strategy) (c0 : conn) (script : list recv_res) (steps : list step) : conn :=
  match connect_via_proxy script with
  | Some cn => run cf app c0 cn steps
  | None => emit TBlocked (fst (deliver app c0 EvConnecting))
  end.
