(* lomond/parser.py: the coroutine-driven stream parser, as a pull machine.
   Generic in the grammar (the coroutine is [resume]); FrameParser.v and Proxy.v instantiate it. *)
From Coq Require Import List NArith Bool Lia.
From Coq.Strings Require Import Byte.
From Model Require Import Bytes.
Import ListNotations.

(* _ReadBytes / _ReadUtf8 (utf8 = true) with .remaining kept in the state; _ReadUntil(sep, max_bytes) *)
Inductive aw := AwBytes (utf8 : bool) | AwUntil (max : option N).

Section Parser.
  Variable G item err : Type.
  Variable sep : bytes.

  (* what gen.send(buffer) does: run the coroutine to its next yield *)
  Inductive res :=
  | RItem (x : item) (g : G) (a : aw) (n : N)   (* yields an object, then the next awaitable *)
  | RAwait (g : G) (a : aw) (n : N)             (* yields the next awaitable directly *)
  | RErr (e : err).                             (* raises *)
  Variable resume : G -> bytes -> res.
  (* _ReadUtf8.validate on the slice just received; None = ParseError('invalid utf8') *)
  Variable validate : G -> bytes -> option G.
  Variable e_utf8 e_len : err.

  Record pst := { pg : G; paw : aw; prem : N; pbuf : bytes }.

  Fixpoint prefixb (p l : bytes) : bool :=
    match p, l with
    | [], _ => true
    | a :: p', b :: l' => Byte.eqb a b && prefixb p' l'
    | _, [] => false
    end.
  (* bytearray.find_sep(sep) *)
  Fixpoint find_sep (l : bytes) : option nat :=
    match l with
    | [] => None
    | b :: t => if prefixb sep l then Some 0%nat else option_map S (find_sep t)
    end.

  Inductive out := Item (x : item) (s : pst) (d : bytes) | NeedMore (s : pst) | Err (e : err).

  (* _ReadUntil.check_length *)
  Definition too_long (max : option N) (pos : nat) : bool :=
    match max with Some m => (m <? N.of_nat pos)%N | None => false end.

  Definition after_resume (r : res) (d : bytes) (k : pst -> bytes -> out) : out :=
    match r with
    | RItem x g a n => Item x {| pg := g; paw := a; prem := n; pbuf := [] |} d
    | RAwait g a n => k {| pg := g; paw := a; prem := n; pbuf := [] |} d
    | RErr e => Err e
    end.

  (* data[pos:pos+remaining] without ever converting [remaining] (up to 2^63) to a unary number *)
  Definition take (n : N) (d : bytes) : bytes := firstn (N.to_nat (N.min n (blen d))) d.
  Definition drop (n : N) (d : bytes) : bytes := skipn (N.to_nat (N.min n (blen d))) d.

  (* one round of the `while pos < len(data)` loop *)
  Definition pull_body (k : pst -> bytes -> out) (s : pst) (d : bytes) : out :=
    match d with
    | [] => NeedMore s
    | _ =>
      match paw s with
      | AwBytes u =>
        let chunk := take (prem s) d in
        let rest := drop (prem s) d in
        match (if u then validate (pg s) chunk else Some (pg s)) with
        | None => Err e_utf8
        | Some g' =>
          let buf := pbuf s ++ chunk in
          let r := (prem s - blen chunk)%N in
          if (r =? 0)%N then after_resume (resume g' buf) rest k
          else NeedMore {| pg := g'; paw := paw s; prem := r; pbuf := buf |}
        end
      | AwUntil max =>
        let buf := pbuf s ++ d in
        match find_sep buf with
        | None => if too_long max (length buf) then Err e_len
                  else NeedMore {| pg := pg s; paw := paw s; prem := prem s; pbuf := buf |}
        | Some i =>
          let j := (i + length sep)%nat in
          if too_long max j then Err e_len
          else after_resume (resume (pg s) (firstn j buf)) (skipn j buf) k
        end
      end
    end.

  Fixpoint pull (fuel : nat) (s : pst) (d : bytes) : out :=
    match fuel with
    | O => NeedMore s
    | S fuel' => pull_body (pull fuel') s d
    end.

  (* every round that continues consumes at least one byte, so this fuel is enough (proved in ParserFacts) *)
  Definition pullf (s : pst) (d : bytes) : out := pull (S (length d)) s d.
End Parser.

Arguments RItem {G item err}.
Arguments RAwait {G item err}.
Arguments RErr {G item err}.
Arguments Item {G item err}.
Arguments NeedMore {G item err}.
Arguments Err {G item err}.
Arguments pg {G}.
Arguments paw {G}.
Arguments prem {G}.
Arguments pbuf {G}.
Arguments Build_pst {G}.
