(* lomond/selectors.py SelectorBase.wait + WebsocketSession._recv against a kernel queue and (for TLS) a buffer of
   already-decrypted bytes.  The transport itself (kernel, TLS record layer) is MODELLED: a TLS recv decrypts one whole
   record into the pending buffer and hands out at most the requested count. *)
From Coq Require Import List NArith Bool Lia.
From Coq.Strings Require Import Byte.
From Model Require Import Bytes.
Import ListNotations.
Open Scope N_scope.

Record transport := {
  t_tls : bool;
  t_readahead : bool;        (* TLS only: a recv decrypts every record that has arrived, not just one *)
  t_kernel : list bytes;     (* plain: arrived segments; TLS: arrived records (plaintext of each) *)
  t_pending : bytes          (* TLS only: decrypted, not yet handed out *)
}.

Definition BUFFER_SIZE : N := 65536.

(* SelectorBase.wait(max_bytes): Some (readable=true, count) or None = would block in wait_readable *)
Definition wait (t : transport) : option N :=
  match t_pending t with
  | _ :: _ => Some (blen (t_pending t))                 (* hasattr(pending) and pending(): (True, pending()) *)
  | [] => match t_kernel t with
          | _ :: _ => Some BUFFER_SIZE                   (* kernel readable: (True, max_bytes) *)
          | [] => None
          end
  end.

Definition take_n (n : N) (l : bytes) : bytes * bytes :=
  let k := N.to_nat (N.min n (blen l)) in (firstn k l, skipn k l).

(* sock.recv_into(buffer, count) *)
Definition recv (t : transport) (count : N) : bytes * transport :=
  if t_tls t then
    match t_pending t with
    | _ :: _ => let '(a, b) := take_n count (t_pending t) in
                (a, {| t_tls := true; t_readahead := t_readahead t; t_kernel := t_kernel t; t_pending := b |})
    | [] => match t_kernel t with
            | r :: rest =>
                if t_readahead t then
                  let '(a, b) := take_n count (concat (r :: rest)) in
                  (a, {| t_tls := true; t_readahead := true; t_kernel := []; t_pending := b |})
                else
                  let '(a, b) := take_n count r in
                  (a, {| t_tls := true; t_readahead := false; t_kernel := rest; t_pending := b |})
            | [] => ([], t)
            end
    end
  else
    (* plain TCP: the kernel hands out up to count bytes of everything that has arrived *)
    let all := concat (t_kernel t) in
    let '(a, b) := take_n count all in
    (a, {| t_tls := false; t_readahead := false; t_kernel := match b with [] => [] | _ => [b] end; t_pending := [] |}).

(* the read side of the session loop until it would block: the chunks handed to WebSocket.feed *)
Fixpoint drain (fuel : nat) (t : transport) : list bytes * transport :=
  match fuel with
  | O => ([], t)
  | S f =>
    match wait t with
    | None => ([], t)
    | Some n =>
        (* _recv(max_bytes): recv_into(self._buffer, max_bytes) never returns more than the 64 KiB buffer holds *)
        let '(chunk, t') := recv t (N.min n BUFFER_SIZE) in
        match chunk with
        | [] => ([], t')          (* cannot happen for non-empty records *)
        | _ => let '(rest, t'') := drain f t' in (chunk :: rest, t'')
        end
    end
  end.

Definition total (t : transport) : nat := length (t_pending t) + length (concat (t_kernel t)).
Definition drain_all (t : transport) : list bytes * transport := drain (S (total t)) t.
