(* WebSocket.build_request and proxy.build_request *)
From Coq Require Import String.
From Coq Require Import List NArith Bool.
From Coq.Strings Require Import Byte.
From Model Require Import Bytes.
Import ListNotations.
Open Scope N_scope.

Fixpoint join (sep : bytes) (l : list bytes) : bytes :=
  match l with
  | [] => []
  | [x] => x
  | x :: rest => x ++ sep ++ join sep rest
  end.

Definition header_line (h : bytes * bytes) : bytes := fst h ++ str ": "%string ++ snd h.

Fixpoint dec_digits (fuel : nat) (n : N) (acc : bytes) : bytes :=
  match fuel with
  | O => acc
  | S f => let acc' := n2b (48 + n mod 10) :: acc in
           if n / 10 =? 0 then acc' else dec_digits f (n / 10) acc'
  end.
Definition decimal (n : N) : bytes := dec_digits 20 n [].

Record req_cfg := {
  q_resource : bytes;            (* path or "/", plus "?query" *)
  q_host : bytes; q_port : N;
  q_key : bytes;                 (* base64 of the 16 random bytes *)
  q_agent : bytes;
  q_custom : list (bytes * bytes);
  q_protocols : list bytes;
  q_compress : bool;
  q_version : N
}.

Definition request_headers (q : req_cfg) : list (bytes * bytes) :=
  q_custom q ++
  [ (str "Host"%string, q_host q ++ str ":"%string ++ decimal (q_port q));
    (str "Upgrade"%string, str "websocket"%string);
    (str "Connection"%string, str "Upgrade"%string);
    (str "Sec-WebSocket-Key"%string, q_key q);
    (str "Sec-WebSocket-Version"%string, decimal (q_version q));
    (str "User-Agent"%string, q_agent q) ] ++
  (match q_protocols q with [] => [] | ps => [(str "Sec-WebSocket-Protocol"%string, join (str ", "%string) ps)] end) ++
  (if q_compress q then
     [(str "Sec-WebSocket-Extensions"%string,
       str "permessage-deflate; server_max_window_bits=15; client_max_window_bits, permessage-deflate; client_max_window_bits"%string)]
   else []).

Definition build_request (q : req_cfg) : bytes :=
  join CRLF ((str "GET "%string ++ q_resource q ++ str " HTTP/1.1"%string) :: map header_line (request_headers q) ++ [CRLF]).

(* proxy.build_request(host, port, username, password); [cred] = base64 of "user[:password]" computed outside *)
Definition proxy_request (host : bytes) (port : N) (cred : option bytes) : bytes :=
  join CRLF ((str "CONNECT "%string ++ host ++ str ":"%string ++ decimal port ++ str " HTTP/1.1"%string)
             :: map header_line
                  ([ (str "Host"%string, host);
                     (str "Proxy-Connection"%string, str "keep-alive"%string);
                     (str "Connection"%string, str "keep-alive"%string) ] ++
                   match cred with
                   | Some c => [(str "Proxy-Authorization:"%string, str "Basic "%string ++ c)]
                   | None => [] end)
             ++ [CRLF]).
