(* A selector that honours its timeout: the environment of the event loop as the timer theorems need it (and as the harness'
   HonestSelector implements it).  Executable definitions only. *)
From Coq Require Import List ZArith.
Import ListNotations.
Open Scope Z_scope.

(* the instants at which selector.wait(p) returns, starting at [now], for arrivals at the absolute times [arr] (in the
   order in which they are read; an arrival in the past is there at once) and silence afterwards *)
Fixpoint wakes (fuel : nat) (p now : Z) (arr : list Z) : list Z :=
  match fuel with
  | O => []
  | S f =>
      match arr with
      | a :: rest => if a <=? now + p then Z.max now a :: wakes f p (Z.max now a) rest
                     else (now + p) :: wakes f p (now + p) arr
      | [] => (now + p) :: wakes f p (now + p) []
      end
  end.

