(* base64 (RFC 4648 section 4, what base64.b64encode / standard_b64encode compute) and SHA-1 (FIPS 180-4, what
   hashlib.sha1(...).digest() computes), and on top of them the two values of the opening handshake that lomond derives
   with them: the Sec-WebSocket-Key of a connection (websocket.py: b64encode(os.urandom(16))) and the value the reply's
   Sec-WebSocket-Accept is compared with (websocket.py on_response: b64encode(sha1(key + WS_KEY).digest())).
   Executable definitions only. *)
From Coq Require Import String.
From Coq Require Import List NArith Bool.
From Coq.Strings Require Import Byte.
From Model Require Import Bytes.
Import ListNotations.
Open Scope N_scope.

(* ---------- base64 ---------- *)
Definition b64_alphabet : bytes := str "ABCDEFGHIJKLMNOPQRSTUVWXYZabcdefghijklmnopqrstuvwxyz0123456789+/"%string.
Definition b64_pad : byte := x3d.   (* '=' *)
Definition b64_char (n : N) : byte := nth (N.to_nat n) b64_alphabet x00.

Fixpoint b64_encode (l : bytes) : bytes :=
  match l with
  | a :: b :: c :: t =>
      let n := b2n a * 65536 + b2n b * 256 + b2n c in
      b64_char (n / 262144) :: b64_char ((n / 4096) mod 64) :: b64_char ((n / 64) mod 64) :: b64_char (n mod 64)
      :: b64_encode t
  | [a; b] =>
      let n := b2n a * 65536 + b2n b * 256 in
      [b64_char (n / 262144); b64_char ((n / 4096) mod 64); b64_char ((n / 64) mod 64); b64_pad]
  | [a] =>
      let n := b2n a * 65536 in
      [b64_char (n / 262144); b64_char ((n / 4096) mod 64); b64_pad; b64_pad]
  | [] => []
  end.

(* value of one base64 character *)
Definition b64_val (c : byte) : option N :=
  let n := b2n c in
  if (65 <=? n) && (n <=? 90) then Some (n - 65)
  else if (97 <=? n) && (n <=? 122) then Some (n - 71)
  else if (48 <=? n) && (n <=? 57) then Some (n + 4)
  else if n =? 43 then Some 62
  else if n =? 47 then Some 63
  else None.

(* strict decoder (canonical input only: length a multiple of four, padding only at the very end, unused bits zero) *)
Fixpoint b64_decode (l : bytes) : option bytes :=
  match l with
  | [] => Some []
  | [c1; c2; c3; c4] =>
      match b64_val c1, b64_val c2 with
      | Some v1, Some v2 =>
          if Byte.eqb c3 b64_pad then
            if Byte.eqb c4 b64_pad && (v2 mod 16 =? 0) then Some [n2b (v1 * 4 + v2 / 16)] else None
          else match b64_val c3 with
               | Some v3 =>
                   if Byte.eqb c4 b64_pad then
                     if v3 mod 4 =? 0 then Some [n2b (v1 * 4 + v2 / 16); n2b ((v2 mod 16) * 16 + v3 / 4)] else None
                   else match b64_val c4 with
                        | Some v4 => Some [n2b (v1 * 4 + v2 / 16); n2b ((v2 mod 16) * 16 + v3 / 4); n2b ((v3 mod 4) * 64 + v4)]
                        | None => None
                        end
               | None => None
               end
      | _, _ => None
      end
  | c1 :: c2 :: c3 :: c4 :: t =>
      match b64_val c1, b64_val c2, b64_val c3, b64_val c4, b64_decode t with
      | Some v1, Some v2, Some v3, Some v4, Some r =>
          Some (n2b (v1 * 4 + v2 / 16) :: n2b ((v2 mod 16) * 16 + v3 / 4) :: n2b ((v3 mod 4) * 64 + v4) :: r)
      | _, _, _, _, _ => None
      end
  | _ => None
  end.

(* ---------- SHA-1 ---------- *)
Definition W32 : N := 4294967296.
Definition w32 (n : N) : N := n mod W32.
Definition rotl (k x : N) : N := w32 (N.lor (N.shiftl x k) (N.shiftr x (32 - k))).
Definition not32 (x : N) : N := W32 - 1 - x.      (* x < 2^32 *)

(* message ++ 0x80 ++ zeros ++ 64-bit big-endian bit length, to a multiple of 64 bytes *)
Definition sha1_pad (m : bytes) : bytes :=
  let len := blen m in
  let zeros := (119 - len mod 64) mod 64 in
  m ++ x80 :: repeat x00 (N.to_nat zeros) ++ be_encode 8 (8 * len).

Definition word_of (a b c d : byte) : N := ((b2n a * 256 + b2n b) * 256 + b2n c) * 256 + b2n d.

(* the first n big-endian 32-bit words of l, and what is left *)
Fixpoint take_words (n : nat) (l : bytes) : list N * bytes :=
  match n with
  | O => ([], l)
  | S n' =>
      match l with
      | a :: b :: c :: d :: t => let '(ws, r) := take_words n' t in (word_of a b c d :: ws, r)
      | _ => ([], [])
      end
  end.

(* message schedule: w holds the last sixteen words, oldest first *)
Fixpoint expand (n : nat) (w : list N) : list N :=
  match n with
  | O => []
  | S n' =>
      let x := rotl 1 (N.lxor (nth 13 w 0) (N.lxor (nth 8 w 0) (N.lxor (nth 2 w 0) (nth 0 w 0)))) in
      x :: expand n' (tl w ++ [x])
  end.
Definition schedule (w16 : list N) : list N := w16 ++ expand 64 w16.

Definition sha1_f (t b c d : N) : N :=
  if t <? 20 then N.lor (N.land b c) (N.land (not32 b) d)
  else if t <? 40 then N.lxor b (N.lxor c d)
  else if t <? 60 then N.lor (N.land b c) (N.lor (N.land b d) (N.land c d))
  else N.lxor b (N.lxor c d).
Definition sha1_k (t : N) : N :=
  if t <? 20 then 1518500249        (* 5A827999 *)
  else if t <? 40 then 1859775393   (* 6ED9EBA1 *)
  else if t <? 60 then 2400959708   (* 8F1BBCDC *)
  else 3395469782.                  (* CA62C1D6 *)

Definition hstate := (N * N * N * N * N)%type.

Fixpoint sha1_rounds (ws : list N) (t : N) (s : hstate) : hstate :=
  match ws with
  | [] => s
  | wt :: rest =>
      let '(a, b, c, d, e) := s in
      let tmp := w32 (rotl 5 a + sha1_f t b c d + e + sha1_k t + wt) in
      sha1_rounds rest (t + 1) (tmp, a, rotl 30 b, c, d)
  end.

Definition sha1_block (s : hstate) (w16 : list N) : hstate :=
  let '(a, b, c, d, e) := s in
  let '(a', b', c', d', e') := sha1_rounds (schedule w16) 0 s in
  (w32 (a + a'), w32 (b + b'), w32 (c + c'), w32 (d + d'), w32 (e + e')).

Fixpoint sha1_blocks (nblocks : nat) (s : hstate) (l : bytes) : hstate :=
  match nblocks with
  | O => s
  | S n' => let '(w16, rest) := take_words 16 l in sha1_blocks n' (sha1_block s w16) rest
  end.

Definition sha1_init : hstate := (1732584193, 4023233417, 2562383102, 271733878, 3285377520).

Definition sha1 (m : bytes) : bytes :=
  let p := sha1_pad m in
  let '(a, b, c, d, e) := sha1_blocks (Nat.div (length p) 64) sha1_init p in
  be_encode 4 a ++ be_encode 4 b ++ be_encode 4 c ++ be_encode 4 d ++ be_encode 4 e.

(* ---------- the opening handshake ---------- *)
Definition WS_GUID : bytes := str "258EAFA5-E914-47DA-95CA-C5AB0DC85B11"%string.

(* WebSocket.__init__: self.key = b64encode(os.urandom(16)) *)
Definition make_key (rand16 : bytes) : bytes := b64_encode rand16.
(* WebSocket.on_response: challenge = b64encode(sha1(self.key + constants.WS_KEY).digest()) *)
Definition accept_of (key : bytes) : bytes := b64_encode (sha1 (key ++ WS_GUID)).

(* proxy.build_request: standard_b64encode(username [+ ":" + password]) *)
Definition proxy_credentials (user : bytes) (password : option bytes) : bytes :=
  b64_encode (match password with Some p => user ++ COLON :: p | None => user end).
