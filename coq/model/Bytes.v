(* Byte utilities shared by the whole model.  Executable definitions only. *)
From Coq Require Import List NArith ZArith Bool Lia.
From Coq.Strings Require Import Byte.
Import ListNotations.
Open Scope N_scope.

Definition bytes := list byte.

Definition b2n (b : byte) : N := Byte.to_N b.
(* total inverse: values above 255 are reduced mod 256 (never used outside its range
   by the model; every use site is guarded and the guard is what the theorems use) *)
Definition n2b (n : N) : byte :=
  match Byte.of_N (n mod 256) with Some b => b | None => x00 end.

Definition all_bytes : list byte := map n2b (map N.of_nat (seq 0 256)).

Definition bxor (a b : byte) : byte := n2b (N.lxor (b2n a) (b2n b)).

Fixpoint bytes_eqb (a b : bytes) : bool :=
  match a, b with
  | [], [] => true
  | x :: a', y :: b' => Byte.eqb x y && bytes_eqb a' b'
  | _, _ => false
  end.

(* big-endian integers *)
Fixpoint be_decode_acc (acc : N) (l : bytes) : N :=
  match l with [] => acc | b :: t => be_decode_acc (acc * 256 + b2n b) t end.
Definition be_decode (l : bytes) : N := be_decode_acc 0 l.

Fixpoint be_encode (width : nat) (n : N) : bytes :=
  match width with
  | O => []
  | S w => be_encode w (n / 256) ++ [n2b n]
  end.

Definition blen (l : bytes) : N := N.of_nat (length l).

(* ASCII helpers *)
Definition is_upper (b : byte) : bool := (65 <=? b2n b) && (b2n b <=? 90).
Definition lower (b : byte) : byte := if is_upper b then n2b (b2n b + 32) else b.
Definition is_digit (b : byte) : bool := (48 <=? b2n b) && (b2n b <=? 57).

Definition CR : byte := x0d.
Definition LF : byte := x0a.
Definition SP : byte := x20.
Definition HT : byte := x09.
Definition COLON : byte := x3a.
Definition CRLF : bytes := [CR; LF].
Definition CRLFCRLF : bytes := [CR; LF; CR; LF].

(* ASCII literal helper: bytes of a Coq string *)
From Coq Require Import String Ascii.
Fixpoint str (s : string) : bytes :=
  match s with
  | EmptyString => []
  | String a t => n2b (N_of_ascii a) :: str t
  end.
