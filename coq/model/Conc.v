(* Concurrency model: several threads run WebSocket API calls against one shared connection state.
   Each call is a small automaton over its program counter; one transition = one shared-state action
   (lock operation, flag read, flag write, half of a sendall, one zlib call).  Local computation between shared
   actions commutes with everything, so schedules at this granularity cover line-level interleavings. *)
From Coq Require Import List NArith Bool Lia.
Import ListNotations.

Definition tid := nat.

(* what a thread wants to do *)
Inductive ccall :=
| KSend (data : bool) (compress : bool) (msg : nat)   (* send_text/send_binary (data=true) or ping/pong (data=false) *)
| KClose (msg : nat)                                   (* WebSocket.close() *)
| KServerClose                                         (* event loop: a Close frame arrived from the server (_on_close) *)
| KDisconnect.                                         (* event loop: on_disconnect() *)

Inductive cexn := EUnavailable | EClosed | EClosing.

(* program counter of the call in progress *)
Inductive pc :=
| PStart
| PZLock | PZCompress | PZFlush                        (* compressed sends: Deflate.lock, compress(), flush() *)
| PLock | PReadSock | PReadClosing | PReadClosed | PSetClosing | PSend1 | PSend2 | PUnlock (r : option cexn)
| PZUnlock (r : option cexn)
| PCloseReadClosed | PCloseReadClosing | PCloseSetClosing | PCloseSetTime
| PSrvEntry | PSrvReadClosed | PSrvReadClosing | PSrvSetClosed | PSrvClearClosing | PSrvSetClosing | PSrvFinalRead   (* _on_close, then feed's `if self.is_closed` *)
| PDiscLock | PDiscClose | PDiscUnlock | PDiscSetClosed | PDiscClearClosing
| PDone (r : option cexn).

(* one frame on the wire is written in two parts *)
Inductive part := P1 | P2.
Record wpart := { w_tid : tid; w_msg : nat; w_close : bool; w_data : bool; w_rsv1 : bool; w_part : part }.

Record shared := {
  s_lock : option tid;          (* session._lock owner *)
  s_zlock : option tid;         (* Deflate.lock owner *)
  s_sock : bool;                (* session._sock is not None and open *)
  s_closing : bool; s_closed : bool;
  s_wire : list wpart;          (* most recent first *)
  s_zorder : list (tid * nat);  (* messages in the order they went through the deflate context, most recent first *)
  s_zhalf : option (tid * nat); (* a compress() whose flush() has not happened yet *)
  s_log : list (tid * nat)      (* (thread, action label) in execution order, most recent first *)
}.

(* a thread: the call in progress (with its pc) and the calls still to make; results of finished calls *)
Record thread := {
  th_cur : option (ccall * pc);
  th_todo : list ccall;
  th_results : list (ccall * option cexn)     (* most recent first *)
}.

Definition is_close_call (c : ccall) : bool := match c with KClose _ | KServerClose => true | _ => false end.
Definition msg_of (c : ccall) : nat := match c with KSend _ _ m => m | KClose m => m | _ => 0 end.

Definition compressed (c : ccall) : bool := match c with KSend true true _ => true | _ => false end.

Definition start_pc (c : ccall) : pc :=
  match c with
  | KSend _ _ _ => if compressed c then PZLock else PLock
  | KClose _ => PCloseReadClosed
  | KServerClose => PSrvEntry
  | KDisconnect => PDiscLock
  end.

(* is the thread's next action enabled? only lock acquisitions can block *)
Definition enabled (s : shared) (t : tid) (th : thread) : bool :=
  match th_cur th with
  | Some (_, PLock) | Some (_, PDiscLock) => match s_lock s with None => true | Some _ => false end
  | Some (_, PZLock) => match s_zlock s with None => true | Some _ => false end
  | Some (_, _) => true
  | None => match th_todo th with
            | [] => false
            | c :: _ => match start_pc c with
                        | PLock | PDiscLock => match s_lock s with None => true | Some _ => false end
                        | PZLock => match s_zlock s with None => true | Some _ => false end
                        | _ => true
                        end
            end
  end.

Definition set_wire (s : shared) (w : list wpart) : shared :=
  {| s_lock := s_lock s; s_zlock := s_zlock s; s_sock := s_sock s; s_closing := s_closing s; s_closed := s_closed s;
     s_wire := w; s_zorder := s_zorder s; s_zhalf := s_zhalf s; s_log := s_log s |}.
Definition set_lock (s : shared) (l : option tid) : shared :=
  {| s_lock := l; s_zlock := s_zlock s; s_sock := s_sock s; s_closing := s_closing s; s_closed := s_closed s;
     s_wire := s_wire s; s_zorder := s_zorder s; s_zhalf := s_zhalf s; s_log := s_log s |}.
Definition set_zlock (s : shared) (l : option tid) : shared :=
  {| s_lock := s_lock s; s_zlock := l; s_sock := s_sock s; s_closing := s_closing s; s_closed := s_closed s;
     s_wire := s_wire s; s_zorder := s_zorder s; s_zhalf := s_zhalf s; s_log := s_log s |}.
Definition set_closing (s : shared) (b : bool) : shared :=
  {| s_lock := s_lock s; s_zlock := s_zlock s; s_sock := s_sock s; s_closing := b; s_closed := s_closed s;
     s_wire := s_wire s; s_zorder := s_zorder s; s_zhalf := s_zhalf s; s_log := s_log s |}.
Definition set_closed (s : shared) (b : bool) : shared :=
  {| s_lock := s_lock s; s_zlock := s_zlock s; s_sock := s_sock s; s_closing := s_closing s; s_closed := b;
     s_wire := s_wire s; s_zorder := s_zorder s; s_zhalf := s_zhalf s; s_log := s_log s |}.
Definition set_sock (s : shared) (b : bool) : shared :=
  {| s_lock := s_lock s; s_zlock := s_zlock s; s_sock := b; s_closing := s_closing s; s_closed := s_closed s;
     s_wire := s_wire s; s_zorder := s_zorder s; s_zhalf := s_zhalf s; s_log := s_log s |}.
Definition set_z (s : shared) (o : list (tid * nat)) (h : option (tid * nat)) : shared :=
  {| s_lock := s_lock s; s_zlock := s_zlock s; s_sock := s_sock s; s_closing := s_closing s; s_closed := s_closed s;
     s_wire := s_wire s; s_zorder := o; s_zhalf := h; s_log := s_log s |}.

(* where a call goes after session.write() has released the session lock *)
Definition after_write (c : ccall) (r : option cexn) : pc :=
  match c with
  | KSend _ _ _ => if compressed c then PZUnlock r else PDone r
  | KClose _ => PCloseSetClosing              (* _send_close swallows WebSocketUnavailable/TransportFail *)
  | KServerClose => PCloseSetClosing
  | KDisconnect => PDone None
  end.

(* one shared-state action of thread t *)
Definition cstep (s : shared) (t : tid) (c : ccall) (p : pc) : shared * pc :=
  match p with
  | PStart => (s, PStart)
  | PSrvEntry => if s_closed s then (s, PDone None) else (s, PSrvReadClosed)      (* feed(): `if self.is_closed: return` *)
  | PSrvReadClosed => if s_closed s then (s, PSrvFinalRead) else (s, PSrvReadClosing)
  | PSrvReadClosing => if s_closing s then (s, PSrvSetClosed) else (s, PCloseReadClosed)
  | PSrvFinalRead => (s, PDone None)
  | PZLock => (set_zlock s (Some t), PZCompress)
  | PZCompress => (set_z s (s_zorder s) (Some (t, msg_of c)), PZFlush)
  | PZFlush => (set_z s (match s_zhalf s with Some x => x :: s_zorder s | None => s_zorder s end) None, PLock)
  | PLock => (set_lock s (Some t), if s_sock s then PReadClosing else PUnlock (Some EUnavailable))
  | PReadSock => (s, PReadClosing)
  | PReadClosing => if s_closing s then (s, PUnlock (Some EClosing)) else (s, PReadClosed)
  | PReadClosed => if s_closed s then (s, PUnlock (Some EClosed))
                   else (s, if is_close_call c then PSetClosing else PSend1)
  | PSetClosing => (set_closing s true, PSend1)
  | PSend1 => (set_wire s ({| w_tid := t; w_msg := msg_of c; w_close := is_close_call c;
                              w_data := match c with KSend d _ _ => d | _ => false end;
                              w_rsv1 := compressed c; w_part := P1 |} :: s_wire s), PSend2)
  | PSend2 => (set_wire s ({| w_tid := t; w_msg := msg_of c; w_close := is_close_call c;
                              w_data := match c with KSend d _ _ => d | _ => false end;
                              w_rsv1 := compressed c; w_part := P2 |} :: s_wire s), PUnlock None)
  | PUnlock r => (set_lock s None, after_write c r)
  | PZUnlock r => (set_zlock s None, PDone r)
  | PCloseReadClosed => if s_closed s then (s, match c with KServerClose => PSrvSetClosing | _ => PDone None end)
                        else (s, PCloseReadClosing)
  | PCloseReadClosing => if s_closing s then (s, match c with KServerClose => PSrvSetClosing | _ => PDone None end)
                         else (s, PLock)
  | PCloseSetClosing => (set_closing s true, PCloseSetTime)
  | PCloseSetTime => (s, match c with KServerClose => PSrvSetClosing | _ => PDone None end)
  | PSrvSetClosing => (set_closing s true, PSrvFinalRead)
  | PSrvSetClosed => (set_closed s true, PSrvClearClosing)
  | PSrvClearClosing => (set_closing s false, PSrvFinalRead)
  | PDiscLock => (set_lock s (Some t), PDiscClose)
  | PDiscClose => (set_sock s false, PDiscUnlock)
  | PDiscUnlock => (set_lock s None, PDiscSetClosed)
  | PDiscSetClosed => (set_closed s true, PDiscClearClosing)
  | PDiscClearClosing => (set_closing s false, PDone None)
  | PDone r => (s, PDone r)
  end.

(* the label under which the harness sees this action in the running code *)
Definition label (p : pc) : nat :=
  match p with
  | PLock | PDiscLock => 1 | PUnlock _ | PDiscUnlock => 2 | PZLock => 3 | PZUnlock _ => 4
  | PReadClosed | PCloseReadClosed | PSrvEntry | PSrvReadClosed | PSrvFinalRead => 5
  | PReadClosing | PCloseReadClosing | PSrvReadClosing => 6
  | PSetClosing | PCloseSetClosing | PSrvSetClosing | PSrvClearClosing | PDiscClearClosing => 7
  | PSrvSetClosed | PDiscSetClosed => 8
  | PSend1 => 9 | PSend2 => 10 | PZCompress => 11 | PZFlush => 12 | PCloseSetTime => 13 | PDiscClose => 14
  | _ => 0
  end.

Definition add_log (s : shared) (t : tid) (p : pc) : shared :=
  {| s_lock := s_lock s; s_zlock := s_zlock s; s_sock := s_sock s; s_closing := s_closing s; s_closed := s_closed s;
     s_wire := s_wire s; s_zorder := s_zorder s; s_zhalf := s_zhalf s; s_log := (t, label p) :: s_log s |}.

Definition threads := list thread.

Definition step_thread (s : shared) (t : tid) (th : thread) : shared * thread :=
  match th_cur th with
  | Some (c, p) =>
      let '(s', p') := cstep (add_log s t p) t c p in
      match p' with
      | PDone r => (s', {| th_cur := None; th_todo := th_todo th; th_results := (c, r) :: th_results th |})
      | _ => (s', {| th_cur := Some (c, p'); th_todo := th_todo th; th_results := th_results th |})
      end
  | None =>
      match th_todo th with
      | c :: rest =>
          let '(s', p') := cstep (add_log s t (start_pc c)) t c (start_pc c) in
          match p' with
          | PDone r => (s', {| th_cur := None; th_todo := rest; th_results := (c, r) :: th_results th |})
          | _ => (s', {| th_cur := Some (c, p'); th_todo := rest; th_results := th_results th |})
          end
      | [] => (s, th)
      end
  end.

Fixpoint upd (ths : threads) (t : tid) (th : thread) : threads :=
  match ths, t with
  | [], _ => []
  | _ :: r, O => th :: r
  | x :: r, S t' => x :: upd r t' th
  end.

(* a schedule is a list of thread ids; choosing a disabled or finished thread is a no-op *)
Definition sched_step (st : shared * threads) (t : tid) : shared * threads :=
  let '(s, ths) := st in
  match nth_error ths t with
  | Some th => if enabled s t th then let '(s', th') := step_thread s t th in (s', upd ths t th') else st
  | None => st
  end.

Definition exec (st : shared * threads) (schedule : list tid) : shared * threads :=
  fold_left sched_step schedule st.

Definition init_shared : shared :=
  {| s_lock := None; s_zlock := None; s_sock := true; s_closing := false; s_closed := false;
     s_wire := []; s_zorder := []; s_zhalf := None; s_log := [] |}.
Definition mk_thread (calls : list ccall) : thread := {| th_cur := None; th_todo := calls; th_results := [] |}.
