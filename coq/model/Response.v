(* lomond/response.py, extension.py, compression.Deflate.from_options and WebSocket.on_response. *)
From Coq Require Import String.
From Coq Require Import List NArith Bool Lia.
From Coq.Strings Require Import Byte.
From Model Require Import Bytes.
Import ListNotations.
Open Scope N_scope.

(* ---------- small string library over bytes ---------- *)
(* bytes.decode('ascii', 'replace'): every non-ASCII byte becomes U+FFFD; we use xff as its stand-in *)
Definition ascii_replace (l : bytes) : bytes := map (fun b => if b2n b <? 128 then b else xff) l.

(* str.isspace() restricted to what can occur after ascii_replace *)
Definition is_space (b : byte) : bool :=
  let n := b2n b in ((9 <=? n) && (n <=? 13)) || ((28 <=? n) && (n <=? 32)).
(* bytes.split(None): ASCII whitespace of the bytes type *)
Definition is_bspace (b : byte) : bool :=
  let n := b2n b in ((9 <=? n) && (n <=? 13)) || (n =? 32).

Fixpoint lstrip_by (f : byte -> bool) (l : bytes) : bytes :=
  match l with b :: t => if f b then lstrip_by f t else l | [] => [] end.
Definition rstrip_by (f : byte -> bool) (l : bytes) : bytes := rev (lstrip_by f (rev l)).
Definition strip (l : bytes) : bytes := rstrip_by is_space (lstrip_by is_space l).
Definition lstrip (l : bytes) : bytes := lstrip_by is_space l.
Definition lower_s (l : bytes) : bytes := map lower l.

Fixpoint starts_with (p l : bytes) : bool :=
  match p, l with
  | [], _ => true
  | a :: p', b :: l' => Byte.eqb a b && starts_with p' l'
  | _, [] => false
  end.

(* split on a (non-empty) separator: bytes.split(sep) *)
Fixpoint split_on_aux (sep : bytes) (l : bytes) (cur : bytes) (fuel : nat) : list bytes :=
  match fuel with
  | O => [rev cur]
  | S fuel' =>
    match l with
    | [] => [rev cur]
    | b :: t =>
        if starts_with sep l then rev cur :: split_on_aux sep (skipn (length sep) l) [] fuel'
        else split_on_aux sep t (b :: cur) fuel'
    end
  end.
Definition split_on (sep : bytes) (l : bytes) : list bytes := split_on_aux sep l [] (S (length l)).

(* str.partition(c) -> (head, found?, tail) *)
Fixpoint partition_at (c : byte) (l : bytes) : bytes * bool * bytes :=
  match l with
  | [] => ([], false, [])
  | b :: t => if Byte.eqb b c then ([], true, t)
              else let '(h, f, r) := partition_at c t in (b :: h, f, r)
  end.

(* bytes.split(None, 2): at most 3 tokens, the last one keeps its inner whitespace but is left-stripped *)
Fixpoint take_token (l : bytes) : bytes * bytes :=
  match l with
  | [] => ([], [])
  | b :: t => if is_bspace b then ([], l) else let '(a, r) := take_token t in (b :: a, r)
  end.
Definition split_ws_2 (l : bytes) : list bytes :=
  let l0 := lstrip_by is_bspace l in
  match l0 with [] => [] | _ =>
    let '(t1, r1) := take_token l0 in
    let l1 := lstrip_by is_bspace r1 in
    match l1 with [] => [t1] | _ =>
      let '(t2, r2) := take_token l1 in
      let l2 := lstrip_by is_bspace r2 in
      match l2 with [] => [t1; t2] | _ => [t1; t2; l2] end
    end
  end.

(* int() restricted to plain decimal digit strings (the harness only generates those; lomond's int() also
   accepts signs, surrounding blanks and underscores, which are outside the property's domain) *)
Fixpoint digits_val (l : bytes) (acc : N) : option N :=
  match l with
  | [] => Some acc
  | b :: t => if is_digit b then digits_val t (acc * 10 + (b2n b - 48)) else None
  end.
Definition parse_int (l : bytes) : option N := match l with [] => None | _ => digits_val l 0 end.

(* ---------- Response ---------- *)
Record response := {
  r_status : option N;
  r_headers : list (bytes * list bytes)   (* name (lower, stripped) -> fragments, in insertion order *)
}.

Fixpoint hdr_add (hs : list (bytes * list bytes)) (name : bytes) (frags : list bytes) (mark_dup : bool)
  : list (bytes * list bytes) :=
  match hs with
  | [] => [(name, frags)]
  | (n, v) :: t => if bytes_eqb n name then (n, v ++ (if mark_dup then [[x2c]] else []) ++ frags) :: t
                   else (n, v) :: hdr_add t name frags mark_dup
  end.

Definition is_lws (b : byte) : bool := let n := b2n b in (n =? 32) || (n =? 9) || (n =? 10) || (n =? 13).

Fixpoint parse_header_lines (lines : list bytes) (cur : option bytes) (hs : list (bytes * list bytes))
  : list (bytes * list bytes) :=
  match lines with
  | [] => hs
  | raw :: rest =>
      let line := ascii_replace raw in
      match strip line with
      | [] => parse_header_lines rest cur hs
      | _ =>
        match line with
        | c :: _ =>
          if is_lws c then
            match cur with
            | Some ((_ :: _) as h) => parse_header_lines rest cur (hdr_add hs h [[SP]; lstrip line] false)
            | _ => parse_header_lines rest cur hs
            end
          else
            let '(name, _, value) := partition_at COLON line in
            let h := strip (lower_s name) in
            parse_header_lines rest (Some h) (hdr_add hs h [value] true)
        | [] => parse_header_lines rest cur hs
        end
      end
  end.

Definition parse_response (data : bytes) : response :=
  let lines := split_on CRLF data in
  let status_line := hd [] lines in
  let toks := split_ws_2 status_line in
  {| r_status := parse_int (nth 1 toks []);
     r_headers := parse_header_lines (tl lines) None [] |}.

Definition resp_get (r : response) (name : bytes) : option bytes :=
  match find (fun p => bytes_eqb (fst p) (lower_s name)) (r_headers r) with
  | Some (_, frags) => Some (strip (concat frags))
  | None => None
  end.

Definition resp_get_list (r : response) (name : bytes) : list bytes :=
  match resp_get r name with
  | None => []
  | Some v => match strip v with [] => [] | _ => map strip (split_on [x2c] v) end
  end.

(* ---------- extensions ---------- *)
Definition strip_quotes (l : bytes) : bytes :=
  let isq b := Byte.eqb b x22 in rstrip_by isq (lstrip_by isq l).

(* parse_extension: token and options (later duplicates override earlier ones) *)
Definition parse_extension (e : bytes) : bytes * list (bytes * bytes) :=
  let toks := map strip (split_on [x3b] e) in
  (hd [] toks,
   map (fun t => let '(k, _, v) := partition_at x3d t in (strip k, strip_quotes (strip v))) (tl toks)).

Definition opt_get (opts : list (bytes * bytes)) (k : bytes) : option bytes :=
  (* dict semantics: the last assignment wins *)
  match find (fun p => bytes_eqb (fst p) k) (rev opts) with Some (_, v) => Some v | None => None end.

Record deflate_cfg := { d_wbits : N; c_wbits : N; d_reset : bool; c_reset : bool }.

(* Deflate.get_wbits; None = CompressionParameterError *)
Definition get_wbits (opts : list (bytes * bytes)) (k : bytes) : option N :=
  let v := match opt_get opts k with Some v => v | None => str "15"%string end in
  match parse_int v with
  | Some n => if (n <? 8) || (15 <? n) then None else Some n
  | None => None
  end.

Definition deflate_from_options (opts : list (bytes * bytes)) : option deflate_cfg :=
  match get_wbits opts (str "server_max_window_bits"%string) with
  | None => None
  | Some d =>
    match get_wbits opts (str "client_max_window_bits"%string) with
    | None => None
    | Some c => Some {| d_wbits := d; c_wbits := c;
                        d_reset := match opt_get opts (str "server_no_context_takeover"%string) with Some _ => true | None => false end;
                        c_reset := match opt_get opts (str "client_no_context_takeover"%string) with Some _ => true | None => false end |}
    end
  end.

(* process_extensions: None = HandshakeError; Some None = no compression; the last permessage-deflate wins *)
Fixpoint process_extensions (exts : list bytes) (acc : option deflate_cfg) : option (option deflate_cfg) :=
  match exts with
  | [] => Some acc
  | e :: rest =>
      let '(tok, opts) := parse_extension e in
      if bytes_eqb tok (str "permessage-deflate"%string) then
        match deflate_from_options opts with
        | None => None
        | Some d => process_extensions rest (Some d)
        end
      else process_extensions rest acc
  end.

(* ---------- WebSocket.on_response ---------- *)
Inductive handshake :=
| HReady (protocol : option bytes) (deflate : option deflate_cfg)
| HRejected.

(* [accept] is base64(sha1(key + GUID)) for the key this connection sent; computed outside the model *)
Definition on_response (accept : bytes) (r : response) : handshake :=
  match r_status r with
  | Some 101 =>
    let up := match resp_get r (str "upgrade"%string) with Some v => lower_s v | None => str "<header missing>"%string end in
    if negb (bytes_eqb up (str "websocket"%string)) then HRejected
    else match resp_get r (str "sec-websocket-accept"%string) with
         | None => HRejected
         | Some a =>
           if negb (bytes_eqb (lower_s a) (lower_s accept)) then HRejected
           else match process_extensions (resp_get_list r (str "sec-websocket-extensions"%string)) None with
                | None => HRejected
                | Some d => HReady (resp_get r (str "sec-websocket-protocol"%string)) d
                end
         end
  | _ => HRejected
  end.
