(* Extraction of the executable model.  ExtrOcamlBasic only: N, Z, positive, byte stay the
   extracted inductive types; no Extract Constant / Extract Inductive of our own. *)
From Coq Require Import Extraction ExtrOcamlBasic.
From Model Require Import Bytes Sx Main.
Extraction Language OCaml.
Extraction "../build/ml/model.ml" Main.run_sx Bytes.n2b Bytes.b2n.
