(* Generic driver: reads one s-expression per line, applies Model.run_sx, prints the answer.
   Syntax: decimal naturals, #hex byte strings (# alone = empty), parentheses. *)
open Model

let rec pos_of_int n = if n = 1 then XH else if n land 1 = 0 then XO (pos_of_int (n lsr 1)) else XI (pos_of_int (n lsr 1))
let n_of_int n = if n = 0 then N0 else Npos (pos_of_int n)
let rec int_of_pos = function XH -> 1 | XO p -> 2 * int_of_pos p | XI p -> 2 * int_of_pos p + 1
let int_of_n = function N0 -> 0 | Npos p -> int_of_pos p

(* big naturals as decimal strings *)
let n_of_string s =
  if String.length s <= 17 then n_of_int (int_of_string s)
  else begin
    (* repeated division of a decimal string by 2 *)
    let digits = Array.init (String.length s) (fun i -> Char.code s.[i] - 48) in
    let is_zero () = Array.for_all (fun d -> d = 0) digits in
    let bits = ref [] in
    while not (is_zero ()) do
      let carry = ref 0 in
      Array.iteri (fun i d -> let v = !carry * 10 + d in digits.(i) <- v / 2; carry := v mod 2) digits;
      bits := !carry :: !bits
    done;
    (* bits: most significant first *)
    match !bits with
    | [] -> N0
    | _ :: rest -> Npos (List.fold_left (fun p b -> if b = 1 then XI p else XO p) XH rest)
  end

let string_of_n n =
  (* decimal rendering of arbitrarily large N via repeated doubling on a digit array *)
  match n with
  | N0 -> "0"
  | Npos p ->
    let rec bits p acc = match p with XH -> 1 :: acc | XO q -> bits q (0 :: acc) | XI q -> bits q (1 :: acc) in
    let bl = bits p [] in
    if List.length bl < 60 then string_of_int (int_of_pos p)
    else begin
      let digits = ref [0] in (* least significant first *)
      List.iter (fun b ->
        let carry = ref b in
        digits := List.map (fun d -> let v = d * 2 + !carry in carry := v / 10; v mod 10) !digits;
        if !carry > 0 then digits := !digits @ [!carry]) bl;
      String.concat "" (List.rev_map string_of_int !digits)
    end

let byte_tbl = Array.init 256 (fun i -> n2b (n_of_int i))
let hexval c = match c with '0'..'9' -> Char.code c - 48 | 'a'..'f' -> Char.code c - 87 | 'A'..'F' -> Char.code c - 55 | _ -> failwith "hex"
let bytes_of_hex s =
  let n = String.length s / 2 in
  let rec go i acc = if i < 0 then acc else go (i - 1) (byte_tbl.(hexval s.[2*i] * 16 + hexval s.[2*i+1]) :: acc) in
  go (n - 1) []

let parse line : sx =
  let n = String.length line in
  let pos = ref 0 in
  let rec skip () = if !pos < n && (line.[!pos] = ' ' || line.[!pos] = '\t' || line.[!pos] = '\r') then (incr pos; skip ()) in
  let token () = let st = !pos in
    while !pos < n && line.[!pos] <> ' ' && line.[!pos] <> '(' && line.[!pos] <> ')' do incr pos done;
    String.sub line st (!pos - st) in
  let rec one () =
    skip ();
    if !pos >= n then failwith "eol"
    else if line.[!pos] = '(' then begin
      incr pos;
      let items = ref [] in
      let fin = ref false in
      while not !fin do
        skip ();
        if !pos >= n then failwith "unclosed"
        else if line.[!pos] = ')' then (incr pos; fin := true)
        else items := one () :: !items
      done;
      L (List.rev !items) end
    else if line.[!pos] = '#' then (incr pos; B (bytes_of_hex (token ())))
    else A (n_of_string (token ()))
  in one ()

let hexdigits = "0123456789abcdef"
let rec print buf (s : sx) = match s with
  | A n -> Buffer.add_string buf (string_of_n n)
  | B bs -> Buffer.add_char buf '#';
      List.iter (fun b -> let v = int_of_n (b2n b) in
                  Buffer.add_char buf hexdigits.[v lsr 4]; Buffer.add_char buf hexdigits.[v land 15]) bs
  | L l -> Buffer.add_char buf '(';
      List.iteri (fun i x -> if i > 0 then Buffer.add_char buf ' '; print buf x) l;
      Buffer.add_char buf ')'

let () =
  let buf = Buffer.create 65536 in
  (try
    while true do
      let line = input_line stdin in
      if String.length line > 0 then begin
        Buffer.clear buf;
        (try print buf (run_sx (parse line)) with
         | Stack_overflow -> Buffer.add_string buf "(997)"
         | Failure m -> Buffer.add_string buf ("(996)"));
        print_string (Buffer.contents buf); print_newline ()
      end
    done
  with End_of_file -> ())
