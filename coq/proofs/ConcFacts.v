(* Invariants of the concurrency model, for EVERY schedule, any number of threads and calls. *)
From Coq Require Import List NArith Arith Lia Bool.
From Model Require Import Conc.
Import ListNotations.
Local Open Scope nat_scope.

(* ---------- vocabulary ---------- *)
Definition locked_pc (p : pc) : bool :=
  match p with
  | PReadSock | PReadClosing | PReadClosed | PSetClosing | PSend1 | PSend2 | PUnlock _ | PDiscClose | PDiscUnlock => true
  | _ => false
  end.

Definition is_p1 (x : wpart) : bool := match w_part x with P1 => true | P2 => false end.
Definition closes (w : list wpart) : nat := length (filter (fun x => w_close x && is_p1 x) w).

(* most recent first: every frame start has no Close frame before it *)
Fixpoint wire_ok (w : list wpart) : Prop :=
  match w with
  | [] => True
  | x :: r => (is_p1 x = true -> closes r = 0) /\ wire_ok r
  end.

Definition mkp (t : tid) (c : ccall) (p : part) : wpart :=
  {| w_tid := t; w_msg := msg_of c; w_close := is_close_call c;
     w_data := match c with KSend d _ _ => d | _ => false end; w_rsv1 := compressed c; w_part := p |}.

(* the wire as a sequence of whole frames: part 1 immediately followed by part 2 of the same frame *)
Inductive complete : list wpart -> Prop :=
| CNil : complete []
| CFrame t c r : complete r -> complete (mkp t c P2 :: mkp t c P1 :: r).

(* ---------- the invariant ---------- *)
(* what thread t, at program counter p of call c, knows about the shared state *)
Definition local (s : shared) (t : tid) (c : ccall) (p : pc) : Prop :=
  (locked_pc p = true -> s_lock s = Some t) /\
  (locked_pc p = true -> p <> PSend2 -> complete (s_wire s)) /\
  match p with
  | PReadClosed => 1 <= closes (s_wire s) -> s_closed s = true
  | PSetClosing => closes (s_wire s) = 0
  | PSend1 => closes (s_wire s) = 0 /\ (is_close_call c = true -> s_closing s || s_closed s = true)
  | PSend2 => exists r, s_wire s = mkp t c P1 :: r /\ complete r
  | PSrvClearClosing | PDiscClearClosing => s_closed s = true
  | _ => True
  end.

Definition th_local (s : shared) (t : tid) (th : thread) : Prop :=
  match th_cur th with Some (c, p) => local s t c p | None => True end.

Definition global (s : shared) : Prop :=
  wire_ok (s_wire s) /\
  (1 <= closes (s_wire s) -> s_closing s || s_closed s = true) /\
  (s_lock s = None -> complete (s_wire s)).

Definition inv (st : shared * threads) : Prop :=
  global (fst st) /\ forall t th, nth_error (snd st) t = Some th -> th_local (fst st) t th.

(* ---------- basic facts ---------- *)
Lemma closes_cons x r : closes (x :: r) = (if w_close x && is_p1 x then 1 else 0) + closes r.
Proof. unfold closes. cbn [filter]. destruct (w_close x && is_p1 x); reflexivity. Qed.

Lemma nth_upd_same ths t th : t < length ths -> nth_error (upd ths t th) t = Some th.
Proof.
  revert t; induction ths as [|x r IH]; intros t H; [simpl in H; lia|].
  destruct t; [reflexivity|]. simpl in *. apply IH. lia.
Qed.
Lemma nth_upd_other ths t u th : t <> u -> nth_error (upd ths t th) u = nth_error ths u.
Proof.
  revert t u; induction ths as [|x r IH]; intros t u H; [destruct t; reflexivity|].
  destruct t, u; try reflexivity; try congruence. simpl. apply IH. congruence.
Qed.
Lemma nth_some_lt {A} (l : list A) n x : nth_error l n = Some x -> n < length l.
Proof. intros H. apply nth_error_Some. congruence. Qed.

(* the shared-state changes a step can make, seen from another thread's local knowledge *)
Definition mono (s s' : shared) : Prop :=
  (s_closed s = true -> s_closed s' = true).

Lemma init_inv progs : inv (init_shared, map mk_thread progs).
Proof.
  split.
  - repeat split; cbn; auto; try constructor; try lia.
  - intros t th H. cbn in H. apply nth_error_In in H. apply in_map_iff in H as (calls & <- & _). exact I.
Qed.

(* ---------- one step preserves the invariant ---------- *)
(* the frame for the other threads: a step of t may change the lock (only between None and Some t), append to the
   wire (only while t holds the lock), set closed, or change closing (clearing it only when closed is set) *)
Definition step_frame (s s' : shared) (t : tid) : Prop :=
  (s_lock s' = s_lock s \/ (s_lock s = None /\ s_lock s' = Some t) \/ (s_lock s = Some t /\ s_lock s' = None)) /\
  (s_wire s' = s_wire s \/ s_lock s = Some t) /\
  (s_closed s = true -> s_closed s' = true) /\
  (s_closing s || s_closed s = true -> s_closing s' || s_closed s' = true).

Lemma other_thread_local s s' t u c p :
  u <> t -> step_frame s s' t -> local s u c p -> local s' u c p.
Proof.
  intros Hne (Hl & Hw & Hc & Hcc) (L1 & L2 & L3).
  assert (Hlock : locked_pc p = true -> s_lock s' = Some u /\ s_wire s' = s_wire s).
  { intros Hp. specialize (L1 Hp). split.
    - destruct Hl as [E|[[E _]|[E _]]]; congruence.
    - destruct Hw as [E|E]; [exact E|congruence]. }
  split; [intros Hp; apply Hlock; exact Hp|].
  split; [intros Hp Hn; destruct (Hlock Hp) as [_ Ew]; rewrite Ew; auto|].
  destruct p; cbn [locked_pc] in Hlock; try exact I;
    try (destruct (Hlock eq_refl) as [_ Ew]; rewrite Ew; exact L3);
    try (apply Hc; exact L3).
  - (* PReadClosed *) destruct (Hlock eq_refl) as [_ Ew]. rewrite Ew. intros H. apply Hc. apply L3. exact H.
  - (* PSend1 *) destruct (Hlock eq_refl) as [_ Ew]. rewrite Ew. destruct L3 as (A & C). split; auto.
Qed.

Lemma closes_app_p2 t c r : closes (mkp t c P2 :: r) = closes r.
Proof. rewrite closes_cons. unfold mkp, is_p1. cbn. rewrite andb_false_r. reflexivity. Qed.
Lemma closes_app_p1 t c r : closes (mkp t c P1 :: r) = (if is_close_call c then 1 else 0) + closes r.
Proof. rewrite closes_cons. unfold mkp, is_p1. cbn. rewrite andb_true_r. reflexivity. Qed.

Lemma complete_p2 t c r : complete r -> complete (mkp t c P2 :: mkp t c P1 :: r).
Proof. apply CFrame. Qed.

Lemma frame_refl s t : step_frame s s t.
Proof. unfold step_frame. tauto. Qed.

(* steps that leave the lock, the wire and the closed flag alone and can only SET the closing flag *)
Lemma frame_flags s s' t :
  s_lock s' = s_lock s -> s_wire s' = s_wire s -> s_closed s' = s_closed s ->
  (s_closing s = true -> s_closing s' = true) -> step_frame s s' t.
Proof.
  intros H1 H2 H3 H4. unfold step_frame. rewrite H1, H2, H3. repeat split; auto.
  intros H. apply orb_true_iff in H as [H|H]; apply orb_true_iff; auto.
Qed.
Lemma global_flags s s' :
  s_lock s' = s_lock s -> s_wire s' = s_wire s -> s_closed s' = s_closed s ->
  (s_closing s = true -> s_closing s' = true) -> global s -> global s'.
Proof.
  intros H1 H2 H3 H4 (G1 & G2 & G3). unfold global. rewrite H1, H2, H3. repeat split; auto.
  intros H. specialize (G2 H). apply orb_true_iff in G2 as [G|G]; apply orb_true_iff; auto.
Qed.

(* the step of thread t at (c, p): new local knowledge, frame for the others, global invariant *)
Ltac scbn := cbn [set_wire set_lock set_zlock set_closing set_closed set_sock set_z s_lock s_zlock s_sock s_closing s_closed s_wire s_zorder s_zhalf s_log orb andb].
Ltac scbn_in H := cbn [set_wire set_lock set_zlock set_closing set_closed set_sock set_z s_lock s_zlock s_sock s_closing s_closed s_wire s_zorder s_zhalf s_log orb andb] in H.
Ltac done_or_local :=
  cbn [locked_pc]; repeat split; intros; try exact I; try discriminate; try congruence; auto;
  try (match goal with H : _ -> _ -> complete _ |- complete _ => apply H; [reflexivity|discriminate] end);
  try (match goal with H : _ -> s_lock _ = _ |- s_lock _ = _ => apply H; reflexivity end).

Lemma cstep_preserves s t c p s' p' :
  cstep s t c p = (s', p') -> p <> PStart ->
  (p = PLock \/ p = PDiscLock -> s_lock s = None) ->
  global s -> local s t c p ->
  global s' /\ step_frame s s' t /\ (match p' with PDone _ => True | _ => local s' t c p' end).
Proof.
  intros E Hns Hen G L. pose proof G as (G1 & G2 & G3). pose proof L as (L1 & L2 & L3).
  destruct p; cbn [cstep] in E; cbn [locked_pc] in L1, L2; try congruence.
  - (* PZLock *) injection E as <- <-. split; [eapply global_flags; eauto|split; [apply frame_flags; auto|]]. all: unfold local; scbn; done_or_local.
  - (* PZCompress *) injection E as <- <-. split; [eapply global_flags; eauto|split; [apply frame_flags; auto|]]. all: unfold local; scbn; done_or_local.
  - (* PZFlush *) injection E as <- <-. split; [eapply global_flags; eauto|split; [apply frame_flags; auto|]]. all: unfold local; scbn; done_or_local.
  - (* PLock *) specialize (Hen (or_introl eq_refl)). specialize (G3 Hen).
    assert (Gs : global (set_lock s (Some t))) by (unfold global; scbn; repeat split; auto; discriminate).
    assert (Fs : step_frame s (set_lock s (Some t)) t) by (unfold step_frame; scbn; repeat split; auto).
    destruct (s_sock s); injection E as <- <-; (split; [exact Gs|split; [exact Fs|]]); unfold local; scbn; done_or_local.
  - (* PReadSock *) injection E as <- <-. split; [exact G|split; [apply frame_refl|]]. unfold local. done_or_local.
  - (* PReadClosing *) specialize (L1 eq_refl). specialize (L2 eq_refl ltac:(discriminate)).
    destruct (s_closing s) eqn:Ec; injection E as <- <-; (split; [exact G|split; [apply frame_refl|]]); unfold local; done_or_local.
    all: try (specialize (G2 ltac:(assumption)); rewrite Ec in G2; exact G2).
  - (* PReadClosed *) specialize (L1 eq_refl). specialize (L2 eq_refl ltac:(discriminate)).
    destruct (s_closed s) eqn:Ec; [injection E as <- <-; split; [exact G|split; [apply frame_refl|]]; unfold local; done_or_local|].
    assert (Hz : closes (s_wire s) = 0).
    { destruct (closes (s_wire s)) eqn:Ez; [reflexivity|]. assert (H : 1 <= S n) by lia. specialize (L3 H). congruence. }
    destruct (is_close_call c) eqn:Ecc; injection E as <- <-; (split; [exact G|split; [apply frame_refl|]]); unfold local; done_or_local.
  - (* PSetClosing *) specialize (L1 eq_refl). specialize (L2 eq_refl ltac:(discriminate)).
    injection E as <- <-. split; [eapply global_flags; eauto|split; [apply frame_flags; auto|]].
    all: unfold local; scbn; done_or_local.
  - (* PSend1 *) specialize (L1 eq_refl). specialize (L2 eq_refl ltac:(discriminate)). destruct L3 as (Hz & Hcc).
    injection E as <- <-. fold (mkp t c P1). split; [|split].
    + unfold global. cbn [set_wire s_wire s_lock s_closing s_closed]. split; [|split].
      * cbn [wire_ok]. split; [intros _; exact Hz|exact G1].
      * rewrite closes_app_p1, Hz. destruct (is_close_call c); [intros _; auto|simpl; lia].
      * rewrite L1. discriminate.
    + unfold step_frame. scbn. repeat split; auto.
    + unfold local. scbn. done_or_local. eexists. split; [reflexivity|exact L2].
  - (* PSend2 *) specialize (L1 eq_refl). destruct L3 as (r & Ew & Hr).
    injection E as <- <-. fold (mkp t c P2). split; [|split].
    + unfold global. cbn [set_wire s_wire s_lock s_closing s_closed]. split; [|split].
      * cbn [wire_ok]. split; [unfold mkp, is_p1; cbn; discriminate|exact G1].
      * rewrite closes_app_p2. exact G2.
      * rewrite L1. discriminate.
    + unfold step_frame. scbn. repeat split; auto.
    + unfold local. scbn. done_or_local. rewrite Ew. apply complete_p2. exact Hr.
  - (* PUnlock *) specialize (L1 eq_refl). specialize (L2 eq_refl ltac:(discriminate)).
    injection E as <- <-. split; [|split].
    + unfold global. scbn. repeat split; auto.
    + unfold step_frame. scbn. repeat split; auto.
    + unfold after_write. destruct c; try exact I; try (destruct (compressed _); try exact I); unfold local; scbn; done_or_local.
  - (* PZUnlock *) injection E as <- <-. split; [eapply global_flags; eauto|split; [apply frame_flags; auto|exact I]].
  - (* PCloseReadClosed *)
    destruct (s_closed s); injection E as <- <-; (split; [exact G|split; [apply frame_refl|]]); try (destruct c; try exact I); unfold local; done_or_local.
  - (* PCloseReadClosing *)
    destruct (s_closing s); injection E as <- <-; (split; [exact G|split; [apply frame_refl|]]); try (destruct c; try exact I); unfold local; done_or_local.
  - (* PCloseSetClosing *) injection E as <- <-. split; [eapply global_flags; eauto|split; [apply frame_flags; auto|]]. all: unfold local; scbn; done_or_local.
  - (* PCloseSetTime *) injection E as <- <-. split; [exact G|split; [apply frame_refl|]]. destruct c; try exact I; unfold local; done_or_local.
  - (* PSrvEntry *) destruct (s_closed s); injection E as <- <-; (split; [exact G|split; [apply frame_refl|]]); try exact I; unfold local; done_or_local.
  - (* PSrvReadClosed *) destruct (s_closed s); injection E as <- <-; (split; [exact G|split; [apply frame_refl|]]); unfold local; done_or_local.
  - (* PSrvReadClosing *) destruct (s_closing s); injection E as <- <-; (split; [exact G|split; [apply frame_refl|]]); unfold local; done_or_local.
  - (* PSrvSetClosed *) injection E as <- <-. split; [|split].
    + unfold global. scbn. repeat split; auto. all: try (intros; rewrite ?orb_true_r; reflexivity).
    + unfold step_frame. scbn. repeat split; auto. all: try (intros; rewrite ?orb_true_r; reflexivity).
    + unfold local. scbn. done_or_local.
  - (* PSrvClearClosing *) injection E as <- <-. split; [|split].
    + unfold global. scbn. repeat split; auto. all: try (intros; rewrite ?L3, ?orb_true_r; reflexivity).
    + unfold step_frame. scbn. repeat split; auto. all: try (intros; rewrite ?L3, ?orb_true_r; reflexivity).
    + unfold local. done_or_local.
  - (* PSrvSetClosing *) injection E as <- <-. split; [eapply global_flags; eauto|split; [apply frame_flags; auto|]]. all: unfold local; scbn; done_or_local.
  - (* PSrvFinalRead *) injection E as <- <-. split; [exact G|split; [apply frame_refl|exact I]].
  - (* PDiscLock *) specialize (Hen (or_intror eq_refl)). specialize (G3 Hen).
    injection E as <- <-. split; [|split].
    + unfold global; scbn; repeat split; auto; discriminate.
    + unfold step_frame; scbn; repeat split; auto.
    + unfold local; scbn; done_or_local.
  - (* PDiscClose *) specialize (L1 eq_refl). specialize (L2 eq_refl ltac:(discriminate)).
    injection E as <- <-. split; [eapply global_flags; eauto|split; [apply frame_flags; auto|]]. all: unfold local; scbn; done_or_local.
  - (* PDiscUnlock *) specialize (L1 eq_refl). specialize (L2 eq_refl ltac:(discriminate)).
    injection E as <- <-. split; [|split].
    + unfold global. scbn. repeat split; auto.
    + unfold step_frame. scbn. repeat split; auto.
    + unfold local. done_or_local.
  - (* PDiscSetClosed *) injection E as <- <-. split; [|split].
    + unfold global. scbn. repeat split; auto. all: try (intros; rewrite ?orb_true_r; reflexivity).
    + unfold step_frame. scbn. repeat split; auto. all: try (intros; rewrite ?orb_true_r; reflexivity).
    + unfold local. scbn. done_or_local.
  - (* PDiscClearClosing *) injection E as <- <-. split; [|split].
    + unfold global. scbn. repeat split; auto. all: try (intros; rewrite ?L3, ?orb_true_r; reflexivity).
    + unfold step_frame. scbn. repeat split; auto. all: try (intros; rewrite ?L3, ?orb_true_r; reflexivity).
    + exact I.
  - (* PDone *) injection E as <- <-. split; [exact G|split; [apply frame_refl|exact I]].
Qed.

(* who holds the lock is inside the locked region *)
Lemma cstep_owner s t c p s' p' :
  cstep s t c p = (s', p') -> (s_lock s = Some t -> locked_pc p = true) ->
  (p = PLock \/ p = PDiscLock -> s_lock s = None) -> s_lock s' = Some t ->
  match p' with PDone _ => False | _ => locked_pc p' = true end.
Proof.
  intros E Hown Hen Hs'.
  destruct p; cbn [cstep] in E; cbn [locked_pc] in Hown;
    repeat match type of E with
           | (if ?b then _ else _) = _ => destruct b
           | context [match ?x with KSend _ _ _ => _ | _ => _ end] => destruct x
           end;
    injection E as <- <-; scbn; cbn [after_write locked_pc] in *; scbn_in Hs';
    try reflexivity; try discriminate; try (specialize (Hown Hs'); discriminate);
    try (destruct (compressed _); cbn [locked_pc]; try discriminate; try (specialize (Hown Hs'); discriminate)).
  all: repeat match goal with |- context [if ?b then _ else _] => destruct b end; reflexivity.
Qed.

Lemma cstep_not_start s t c p : p <> PStart -> snd (cstep s t c p) <> PStart.
Proof.
  intros H. destruct p; cbn [cstep]; try congruence;
    repeat match goal with
           | |- context [if ?b then _ else _] => destruct b
           | |- context [match ?x with KSend _ _ _ => _ | _ => _ end] => destruct x
           end; cbn [snd after_write]; try discriminate;
    try (destruct (compressed _); discriminate).
  all: repeat match goal with |- context [if ?b then _ else _] => destruct b end; cbn [snd]; try discriminate.
  all: unfold after_write; destruct c; try discriminate; destruct (compressed _); discriminate.
Qed.

Lemma start_pc_not_start c : start_pc c <> PStart.
Proof. destruct c; cbn [start_pc]; try discriminate. destruct (compressed _); discriminate. Qed.

Lemma start_pc_local s t c : local s t c (start_pc c).
Proof.
  destruct c; cbn [start_pc]; try (destruct (compressed _)); unfold local; cbn [locked_pc]; repeat split; try discriminate; exact I.
Qed.
Lemma start_pc_unlocked c : locked_pc (start_pc c) = false.
Proof. destruct c; cbn [start_pc]; try (destruct (compressed _)); reflexivity. Qed.

(* logging does not touch anything the invariant mentions *)
Lemma global_add_log s t p : global (add_log s t p) <-> global s.
Proof. unfold global, add_log. cbn. tauto. Qed.
Lemma local_add_log s t0 p0 t c p : local (add_log s t0 p0) t c p <-> local s t c p.
Proof. unfold local, add_log. cbn. tauto. Qed.
Lemma frame_add_log s s' t t0 p0 : step_frame (add_log s t0 p0) s' t <-> step_frame s s' t.
Proof. unfold step_frame, add_log. cbn. tauto. Qed.

(* ---------- the invariant of the whole system ---------- *)
Definition th_inv (s : shared) (t : tid) (th : thread) : Prop :=
  match th_cur th with
  | Some (c, p) => p <> PStart /\ local s t c p /\ (s_lock s = Some t -> locked_pc p = true)
  | None => s_lock s <> Some t
  end.

Definition sys_inv (st : shared * threads) : Prop :=
  global (fst st) /\ (forall t th, nth_error (snd st) t = Some th -> th_inv (fst st) t th) /\
  (forall t, s_lock (fst st) = Some t -> t < length (snd st)).

Lemma init_sys_inv progs : sys_inv (init_shared, map mk_thread progs).
Proof.
  split; [|split].
  - repeat split; cbn; auto; try constructor; try lia.
  - intros t th H. cbn in H. apply nth_error_In in H. apply in_map_iff in H as (calls & <- & _). cbn. discriminate.
  - cbn. discriminate.
Qed.

Lemma upd_length ths t th : length (upd ths t th) = length ths.
Proof. revert t; induction ths as [|x r IH]; intros t; destruct t; simpl; auto. Qed.

Lemma enabled_lock s t c p rest res :
  enabled s t {| th_cur := Some (c, p); th_todo := rest; th_results := res |} = true ->
  p = PLock \/ p = PDiscLock -> s_lock s = None.
Proof.
  unfold enabled. cbn. intros H [-> | ->]; destruct (s_lock s); congruence.
Qed.

Theorem sched_step_inv st t : sys_inv st -> sys_inv (sched_step st t).
Proof.
  destruct st as [s ths]. intros (G & TH & LK). cbn [fst snd] in *. unfold sched_step.
  destruct (nth_error ths t) as [th|] eqn:Eth; [|split; [exact G|split; [exact TH|exact LK]]].
  destruct (enabled s t th) eqn:Een; [|split; [exact G|split; [exact TH|exact LK]]].
  pose proof (TH t th Eth) as Ht. unfold th_inv in Ht.
  pose proof (nth_some_lt _ _ _ Eth) as Hlt.
  unfold step_thread.
  (* a common continuation: given the step (s1 -> s', new pc p') of call c *)
  assert (K : forall c p rest res th',
             p <> PStart -> local s t c p -> (s_lock s = Some t -> locked_pc p = true) ->
             (p = PLock \/ p = PDiscLock -> s_lock s = None) ->
             (let '(s', p') := cstep (add_log s t p) t c p in
              match p' with
              | PDone r => (s', {| th_cur := None; th_todo := rest; th_results := (c, r) :: res |})
              | _ => (s', {| th_cur := Some (c, p'); th_todo := rest; th_results := res |})
              end) = th' ->
             sys_inv (fst th', upd ths t (snd th'))).
  { intros c p rest res th' Hns Hloc Hown Hen Eq.
    destruct (cstep (add_log s t p) t c p) as [s' p'] eqn:Ec.
    pose proof (cstep_preserves _ _ _ _ _ _ Ec Hns Hen (proj2 (global_add_log s t p) G) (proj2 (local_add_log s t p t c p) Hloc)) as (G' & F' & L').
    apply frame_add_log in F'.
    pose proof (cstep_owner _ _ _ _ _ _ Ec Hown Hen) as Own'.
    pose proof (cstep_not_start (add_log s t p) t c p Hns) as Hns'. rewrite Ec in Hns'. cbn [snd] in Hns'.
    assert (Hothers : forall u thu, u <> t -> nth_error ths u = Some thu -> th_inv s' u thu).
    { intros u thu Hne Hu. specialize (TH u thu Hu). unfold th_inv in *.
      destruct (th_cur thu) as [[cu pu]|].
      - destruct TH as (A & B & C). split; [exact A|]. split; [eapply other_thread_local; eauto|].
        intros Hl. apply C. destruct F' as (Fl & _). destruct Fl as [E|[[_ E]|[_ E]]]; congruence.
      - intros Hl. apply TH. destruct F' as (Fl & _). destruct Fl as [E|[[_ E]|[_ E]]]; congruence. }
    assert (Hlen : forall u, s_lock s' = Some u -> u < length ths).
    { intros u Hu. destruct F' as (Fl & _). destruct Fl as [E|[[_ E]|[_ E]]]; try congruence.
      apply LK. cbn. congruence. }
    destruct p'; subst th'; unfold sys_inv; cbn [fst snd];
      (split; [exact G'|split; [|intros u Hu; rewrite upd_length; apply Hlen; exact Hu]]);
      intros u thu Hu;
      (destruct (Nat.eq_dec u t) as [->|Hne];
       [rewrite nth_upd_same in Hu by exact Hlt; injection Hu as <-; unfold th_inv; cbn [th_cur];
        try (split; [congruence|split; [exact L'|intros Hl; exact (Own' Hl)]]);
        try (intros Hl; exact (Own' Hl))
       |rewrite nth_upd_other in Hu by congruence; apply Hothers; auto]). }
  destruct th as [cur todo res]. cbn [th_cur th_todo th_results] in *.
  destruct cur as [[c p]|].
  - destruct Ht as (Hns & Hloc & Hown).
    specialize (K c p todo res _ Hns Hloc Hown (enabled_lock s t c p todo res Een) eq_refl).
    destruct (cstep (add_log s t p) t c p) as [s' p']. destruct p'; exact K.
  - destruct todo as [|c rest]; [unfold enabled in Een; cbn in Een; discriminate|].
    assert (Hen : start_pc c = PLock \/ start_pc c = PDiscLock -> s_lock s = None).
    { unfold enabled in Een. cbn in Een. intros [E|E]; rewrite E in Een; destruct (s_lock s); congruence. }
    specialize (K c (start_pc c) rest res _ (start_pc_not_start c) (start_pc_local s t c)
                  (fun Hl => False_ind _ (Ht Hl)) Hen eq_refl).
    destruct (cstep (add_log s t (start_pc c)) t c (start_pc c)) as [s' p']. destruct p'; exact K.
Qed.

Theorem exec_inv sched : forall st, sys_inv st -> sys_inv (exec st sched).
Proof.
  unfold exec. induction sched as [|t rest IH]; intros st H; [exact H|].
  cbn [fold_left]. apply IH. apply sched_step_inv. exact H.
Qed.

(* ---------- what the invariant says about the wire ---------- *)
Lemma wire_ok_one_close w : wire_ok w -> closes w <= 1.
Proof.
  induction w as [|x r IH]; intros H; [cbn; lia|].
  destruct H as [H1 H2]. rewrite closes_cons.
  destruct (w_close x && is_p1 x) eqn:E.
  - apply andb_true_iff in E as [_ E]. rewrite (H1 E). lia.
  - specialize (IH H2). lia.
Qed.

(* w is most recent first: in  a ++ x :: b  the parts b were written before x *)
Lemma wire_ok_nothing_after_close w : wire_ok w -> forall a x b, w = a ++ x :: b -> is_p1 x = true -> closes b = 0.
Proof.
  induction w as [|y r IH]; intros H a x b E Hx.
  - destruct a; discriminate.
  - destruct H as [H1 H2]. destruct a as [|a0 a]; cbn in E; injection E as -> ->.
    + apply H1. exact Hx.
    + eapply IH; eauto.
Qed.

(* C12, for every set of programs and every schedule *)
Theorem at_most_one_close progs sched :
  closes (s_wire (fst (exec (init_shared, map mk_thread progs) sched))) <= 1.
Proof. apply wire_ok_one_close. apply (exec_inv sched _ (init_sys_inv progs)). Qed.

Theorem no_frame_after_close progs sched a x b :
  s_wire (fst (exec (init_shared, map mk_thread progs) sched)) = a ++ x :: b -> is_p1 x = true -> closes b = 0.
Proof. apply wire_ok_nothing_after_close. apply (exec_inv sched _ (init_sys_inv progs)). Qed.

(* C11: whenever no thread is inside the write's critical section the wire is a sequence of whole frames; inside it,
   at most the first half of the lock holder's own frame is outstanding *)
Theorem whole_frames progs sched :
  let st := exec (init_shared, map mk_thread progs) sched in
  complete (s_wire (fst st)) \/ exists t c r, s_lock (fst st) = Some t /\ s_wire (fst st) = mkp t c P1 :: r /\ complete r.
Proof.
  cbv zeta. pose proof (exec_inv sched _ (init_sys_inv progs)) as (G & TH & LK).
  destruct (exec (init_shared, map mk_thread progs) sched) as [s ths]. cbn [fst snd] in *.
  destruct G as (_ & _ & G3).
  destruct (s_lock s) as [t|] eqn:El; [|left; apply G3; reflexivity].
  specialize (LK t eq_refl). destruct (nth_error ths t) as [th|] eqn:Eth; [|apply nth_error_None in Eth; lia].
  specialize (TH t th Eth). unfold th_inv in TH. rewrite El in TH.
  destruct (th_cur th) as [[c p]|]; [|exfalso; apply TH; reflexivity].
  destruct TH as (_ & (L1 & L2 & L3) & Own). specialize (Own eq_refl).
  destruct p; cbn [locked_pc] in Own; try discriminate;
    try (left; apply L2; [reflexivity|discriminate]).
  right. destruct L3 as (r & Ew & Hr). exists t, c, r. auto.
Qed.
