(* C01: a conforming server stream is decoded frame by frame, in any legal length form. *)
From Coq Require Import List NArith ZArith Arith Lia Bool ZifyN ZifyNat.
From Coq.Strings Require Import Byte.
From RecordUpdate Require Import RecordSet.
From Model Require Import Bytes Utf8 Frame Parser FrameParser Response Conn.
From Proofs Require Import BytesFacts Utf8Facts ParserFacts FrameParserFacts FrameFacts ConnFacts ApiFacts.
Import ListNotations RecordSetNotations.
Open Scope N_scope.

(* ---------- reading an exact number of bytes ---------- *)
Lemma fp_pull_unfold s d : fp_ok s ->
  fp_pull s d = pull_body fpg pitem perr CRLFCRLF fp_resume fp_validate PE_Utf8 PE_HeaderTooLong fp_pull s d.
Proof.
  intros H. unfold fp_pull.
  eapply pullf_unfold; try exact fp_resume_ok; try exact crlfcrlf_nonempty; try exact fp_validate_app; try exact fp_validate_nil; try exact H.
Qed.

Lemma take_firstn' n d : take n d = firstn (N.to_nat n) d.
Proof.
  unfold take, blen. destruct (N.le_gt_cases n (N.of_nat (length d))) as [H|H].
  - rewrite N.min_l by exact H. reflexivity.
  - rewrite N.min_r by lia. rewrite Nnat.Nat2N.id. rewrite firstn_all. symmetry. apply firstn_all2. lia.
Qed.
Lemma drop_skipn' n d : drop n d = skipn (N.to_nat n) d.
Proof.
  unfold drop, blen. destruct (N.le_gt_cases n (N.of_nat (length d))) as [H|H].
  - rewrite N.min_l by exact H. reflexivity.
  - rewrite N.min_r by lia. rewrite Nnat.Nat2N.id. rewrite skipn_all. symmetry. apply skipn_all2. lia.
Qed.

Lemma read_exact g u a rest :
  a <> [] ->
  let s := {| pg := g; paw := AwBytes u; prem := blen a; pbuf := [] |} in
  fp_pull s (a ++ rest) =
    match (if u then fp_validate g a else Some g) with
    | None => Err PE_Utf8
    | Some g' => after_resume fpg pitem perr (fp_resume g' a) rest fp_pull
    end.
Proof.
  intros Ha s.
  assert (Hok : fp_ok s).
  { unfold fp_ok, st_ok, s. cbn. unfold blen. destruct a; [congruence|cbn; lia]. }
  rewrite fp_pull_unfold by exact Hok. unfold pull_body.
  destruct (a ++ rest) as [|x xs] eqn:Eax; [destruct a; [congruence|discriminate]|]. rewrite <- Eax. clear x xs Eax.
  cbn [paw prem pg pbuf s].
  rewrite take_firstn', drop_skipn'. unfold blen. rewrite Nnat.Nat2N.id.
  rewrite firstn_app, Nat.sub_diag, firstn_all. cbn [firstn]. rewrite app_nil_r.
  rewrite skipn_app, Nat.sub_diag, skipn_all. cbn [skipn app].
  destruct (if u then fp_validate g a else Some g) as [g'|]; [|reflexivity].
  replace (N.of_nat (length a) - N.of_nat (length a) =? 0) with true by (symmetry; apply N.eqb_eq; lia).
  reflexivity.
Qed.

(* ---------- the header bytes ---------- *)
Lemma byte0_plain fin op : op < 16 ->
  let n0 := b2n (byte0 fin false false false op) in
  (128 <=? n0) = fin /\ N.testbit n0 6 = false /\ N.testbit n0 5 = false /\ N.testbit n0 4 = false /\ n0 mod 16 = op.
Proof.
  intros H. apply op_cases in H. cbn [In] in H.
  destruct fin; repeat (destruct H as [<-|H]; [vm_compute; repeat split; reflexivity|]); contradiction.
Qed.

(* a frame as a conforming server sends it: unmasked, reserved bits clear *)
Definition plain (f : frame) : Prop :=
  f_rsv1 f = false /\ f_rsv2 f = false /\ f_rsv3 f = false /\ f_key f = None /\ f_op f < 16 /\
  blen (f_payload f) < 9223372036854775808.

Definition hdr_of (f : frame) : hinfo :=
  {| h_fin := f_fin f; h_r1 := false; h_r2 := false; h_r3 := false; h_op := f_op f; h_mask := false |}.

Lemma mk_frame_plain f : plain f -> mk_frame (hdr_of f) None (f_payload f) = f.
Proof. intros (A & B & C & D & _). destruct f; cbn in *; subst; reflexivity. Qed.

(* the parser at a frame boundary *)
Definition at_boundary (s : fpst) (t : bool) (u : ustate) : Prop :=
  s = {| pg := {| fp_phase := FHdr; fp_is_text := t; fp_u := u; fp_compression := false |};
         paw := AwBytes false; prem := 2; pbuf := [] |}.

Definition textual (f : frame) (t : bool) : bool := (f_op f =? OP_TEXT) || ((f_op f =? OP_CONT) && ((f_op f =? OP_TEXT) || t)).

(* state of the text bookkeeping after a frame *)
Definition is_text_after (f : frame) (t : bool) : bool :=
  let t1 := if f_op f =? OP_TEXT then true else t in
  if f_fin f && negb (is_control (f_op f)) then false else t1.
Definition u_after (f : frame) (t : bool) (u u' : ustate) : ustate :=
  let u1 := if textual f t && negb (blen (f_payload f) =? 0) then u' else u in
  if f_fin f && ((f_op f =? OP_TEXT) || (f_op f =? OP_CONT)) then UAcc else u1.

Lemma len_field_cases lf len : form_ok lf len = true ->
  (lf = L7 /\ len < 126 /\ len_field lf 0 len = [n2b len]) \/
  (lf = L16 /\ len < 65536 /\ len_field lf 0 len = n2b 126 :: be_encode 2 len) \/
  (lf = L64 /\ len < 9223372036854775808 /\ len_field lf 0 len = n2b 127 :: be_encode 8 len).
Proof.
  destruct lf; cbn; intros H; apply N.ltb_lt in H; [left|right; left|right; right]; repeat split; auto.
Qed.

(* one frame, in any legal length form, followed by anything *)
Theorem pull_one_frame s t u f lf rest u' :
  at_boundary s t u -> plain f -> form_ok lf (blen (f_payload f)) = true ->
  validate_err false (hdr_of f) (blen (f_payload f)) = false ->
  (textual f t = true -> uvalidate u (f_payload f) = Some u') ->
  exists s', fp_pull s (enc_frame f lf ++ rest) = Item (IFrame f) s' rest /\
             at_boundary s' (is_text_after f t) (u_after f t u u').
Proof.
  intros Hs Hp Hf Hv Hu. pose proof Hp as (P1 & P2 & P3 & P4 & P5 & P6).
  unfold enc_frame. rewrite P1, P2, P3, P4.
  set (len := blen (f_payload f)) in *.
  pose proof (byte0_plain (f_fin f) (f_op f) P5) as (B1 & B2 & B3 & B4 & B5). cbv zeta in *.
  (* the state after the payload, common to all three forms *)
  set (g0 := {| fp_phase := FHdr; fp_is_text := t; fp_u := u; fp_compression := false |}).
  assert (Tail : forall gph, fp_phase gph = fp_phase gph -> 
     fp_is_text gph = t -> fp_u gph = u -> fp_compression gph = false ->
     exists s', after_resume fpg pitem perr (after_len gph (hdr_of f) len) (f_payload f ++ rest) fp_pull = Item (IFrame f) s' rest /\
                at_boundary s' (is_text_after f t) (u_after f t u u')).
  { intros gph _ Et Eu Ec. unfold after_len.
    replace (9223372036854775807 <? len) with false by (symmetry; apply N.ltb_ge; lia).
    cbn [hdr_of h_mask]. unfold after_mask. rewrite Ec, Hv. cbn [hdr_of h_op].
    destruct (len =? 0) eqn:Ez.
    - (* empty payload *)
      apply N.eqb_eq in Ez. assert (Hnil : f_payload f = []) by (unfold len, blen in Ez; destruct (f_payload f); [reflexivity|cbn in Ez; lia]).
      unfold finish_frame. cbn [h_mask hdr_of h_fin h_op fp_compression fp_is_text fp_u fp_phase].
      rewrite ?Ec. cbn [negb andb]. cbn [after_resume]. rewrite Hnil. cbn [app].
      eexists. split; [rewrite <- Hnil at 1; rewrite (mk_frame_plain f Hp); reflexivity|].
      unfold at_boundary, is_text_after, u_after, textual. rewrite Et, Eu, Hnil. cbn [blen length N.of_nat]. cbn.
      rewrite andb_false_r. reflexivity.
    - apply N.eqb_neq in Ez.
      assert (Hne : f_payload f <> []) by (intros E; unfold len, blen in Ez; rewrite E in Ez; cbn in Ez; congruence).
      cbn [after_resume]. unfold set_phase. cbn [fp_phase fp_is_text fp_u fp_compression negb andb].
      rewrite andb_true_r.
      match goal with |- context [fp_pull {| pg := ?g1; paw := AwBytes ?u1; prem := len; pbuf := [] |} (f_payload f ++ rest)] =>
        pose proof (read_exact g1 u1 (f_payload f) rest Hne) as Hr; set (tx := u1) in * end.
      cbv zeta in Hr. fold len in Hr. rewrite Hr. clear Hr.
      assert (Etx : tx = textual f t).
      { unfold tx, textual. rewrite ?Et. destruct (f_op f =? OP_TEXT); reflexivity. }
      unfold fp_validate. cbn [fp_u fp_phase fp_is_text fp_compression]. rewrite ?Eu.
      destruct tx eqn:Etx2.
      + rewrite <- Etx in Hu. rewrite (Hu eq_refl).
        unfold fp_resume. cbn [fp_phase]. unfold finish_frame. cbn [hdr_of h_mask h_fin h_op fp_compression fp_is_text fp_u].
        rewrite ?Ec. cbn [negb andb after_resume]. rewrite (mk_frame_plain f Hp).
        eexists. split; [reflexivity|].
        unfold at_boundary, is_text_after, u_after. rewrite <- Etx, ?Et.
        fold len. replace (len =? 0) with false by (symmetry; apply N.eqb_neq; exact Ez). cbn [negb andb]. reflexivity.
      + unfold fp_resume. cbn [fp_phase]. unfold finish_frame. cbn [hdr_of h_mask h_fin h_op fp_compression fp_is_text fp_u].
        rewrite ?Ec. cbn [negb andb after_resume]. rewrite (mk_frame_plain f Hp).
        eexists. split; [reflexivity|].
        unfold at_boundary, is_text_after, u_after. rewrite <- Etx, ?Et, ?Eu. cbn [andb]. reflexivity. }
  unfold at_boundary in Hs. subst s. fold g0.
  destruct (len_field_cases lf len Hf) as [(-> & Hl & El)|[(-> & Hl & El)|(-> & Hl & El)]]; rewrite El.
  - (* 7-bit length *)
    change ((byte0 (f_fin f) false false false (f_op f) :: [n2b len] ++ f_payload f) ++ rest)
      with ([byte0 (f_fin f) false false false (f_op f); n2b len] ++ (f_payload f ++ rest)).
    pose proof (read_exact g0 false [byte0 (f_fin f) false false false (f_op f); n2b len] (f_payload f ++ rest) ltac:(discriminate)) as Hr.
    cbv zeta in Hr. change (blen [byte0 (f_fin f) false false false (f_op f); n2b len]) with 2 in Hr. rewrite Hr. clear Hr.
    unfold fp_resume. cbn [fp_phase g0 nth]. rewrite B1, B2, B3, B4, B5. rewrite (b2n_n2b len) by lia.
    replace (128 <=? len) with false by (symmetry; apply N.leb_gt; lia).
    rewrite (N.mod_small len 128) by lia.
    replace (len =? 126) with false by (symmetry; apply N.eqb_neq; lia).
    replace (len =? 127) with false by (symmetry; apply N.eqb_neq; lia).
    apply (Tail g0); reflexivity.
  - (* 16-bit length *)
    change ((byte0 (f_fin f) false false false (f_op f) :: (n2b 126 :: be_encode 2 len) ++ f_payload f) ++ rest)
      with ([byte0 (f_fin f) false false false (f_op f); n2b 126] ++ ((be_encode 2 len ++ f_payload f) ++ rest)).
    rewrite <- app_assoc.
    pose proof (read_exact g0 false [byte0 (f_fin f) false false false (f_op f); n2b 126] (be_encode 2 len ++ (f_payload f ++ rest)) ltac:(discriminate)) as Hr.
    cbv zeta in Hr. change (blen [byte0 (f_fin f) false false false (f_op f); n2b 126]) with 2 in Hr. rewrite Hr. clear Hr.
    unfold fp_resume at 1. cbn [fp_phase g0 nth]. rewrite B1, B2, B3, B4, B5.
    change (b2n (n2b 126)) with 126. change (128 <=? 126) with false. change (126 mod 128 =? 126) with true.
    cbn [after_resume set_phase].
    assert (Hbe : be_encode 2 len <> []) by (intros E; pose proof (be_encode_length 2 len) as L; rewrite E in L; discriminate).
    match goal with |- context [fp_pull {| pg := ?g1; paw := AwBytes false; prem := 2; pbuf := [] |} (be_encode 2 len ++ _)] =>
      pose proof (read_exact g1 false (be_encode 2 len) (f_payload f ++ rest) Hbe) as Hr end.
    cbv zeta in Hr. unfold blen in Hr at 1. rewrite be_encode_length in Hr. change (N.of_nat 2) with 2 in Hr. rewrite Hr. clear Hr.
    unfold fp_resume at 1. cbn [fp_phase set_phase]. rewrite be_roundtrip by (cbn; lia).
    match goal with |- context [after_len ?g1 ?hh len] => apply (Tail g1); reflexivity end.
  - (* 64-bit length *)
    change ((byte0 (f_fin f) false false false (f_op f) :: (n2b 127 :: be_encode 8 len) ++ f_payload f) ++ rest)
      with ([byte0 (f_fin f) false false false (f_op f); n2b 127] ++ ((be_encode 8 len ++ f_payload f) ++ rest)).
    rewrite <- app_assoc.
    pose proof (read_exact g0 false [byte0 (f_fin f) false false false (f_op f); n2b 127] (be_encode 8 len ++ (f_payload f ++ rest)) ltac:(discriminate)) as Hr.
    cbv zeta in Hr. change (blen [byte0 (f_fin f) false false false (f_op f); n2b 127]) with 2 in Hr. rewrite Hr. clear Hr.
    unfold fp_resume at 1. cbn [fp_phase g0 nth]. rewrite B1, B2, B3, B4, B5.
    change (b2n (n2b 127)) with 127. change (128 <=? 127) with false. change (127 mod 128 =? 126) with false. change (127 mod 128 =? 127) with true.
    cbn [after_resume set_phase].
    assert (Hbe : be_encode 8 len <> []) by (intros E; pose proof (be_encode_length 8 len) as L; rewrite E in L; discriminate).
    match goal with |- context [fp_pull {| pg := ?g1; paw := AwBytes false; prem := 8; pbuf := [] |} (be_encode 8 len ++ _)] =>
      pose proof (read_exact g1 false (be_encode 8 len) (f_payload f ++ rest) Hbe) as Hr end.
    cbv zeta in Hr. unfold blen in Hr at 1. rewrite be_encode_length in Hr. change (N.of_nat 8) with 8 in Hr. rewrite Hr. clear Hr.
    unfold fp_resume at 1. cbn [fp_phase set_phase]. rewrite be_roundtrip by (cbn; lia).
    match goal with |- context [after_len ?g1 ?hh len] => apply (Tail g1); reflexivity end.
Qed.

(* ====================================================================================================== *)
(* from frames to events: a passive application and no armed timeout (the quantifier of C01 is over server streams) *)

Definition passive (app : strategy) : Prop := forall tr, app tr = [].

(* the fields the receive path depends on *)
Definition same_core (c c' : conn) : Prop :=
  k_ps c' = k_ps c /\ k_frames c' = k_frames c /\ k_closing c' = k_closing c /\ k_closed c' = k_closed c /\
  k_deflate c' = k_deflate c /\ k_sent_close_time c' = k_sent_close_time c /\ k_ready c' = k_ready c.

Lemma same_core_refl c : same_core c c.
Proof. unfold same_core. tauto. Qed.
Lemma same_core_trans a b c : same_core a b -> same_core b c -> same_core a c.
Proof. unfold same_core. intros (A1&A2&A3&A4&A5&A6&A7) (B1&B2&B3&B4&B5&B6&B7). repeat split; congruence. Qed.

(* message events of a trace, most recent first *)
Definition is_msg_ev (e : ev) : bool :=
  match e with EvText _ | EvBinary _ | EvPing _ | EvPong _ | EvClosing _ _ | EvClosed _ _ => true | _ => false end.
Fixpoint msg_events (tr : list titem) : list ev :=
  match tr with
  | [] => []
  | TEv e :: r => if is_msg_ev e then e :: msg_events r else msg_events r
  | _ :: r => msg_events r
  end.

(* a data/control frame that is not a Close never touches the core fields *)
Lemma send_frame_core c op r p : op <> OP_CLOSE ->
  same_core c (fst (send_frame c op r p)) /\ msg_events (k_tr (fst (send_frame c op r p))) = msg_events (k_tr c).
Proof.
  intros Hop. unfold send_frame, pop_key.
  assert (Eo : (op =? OP_CLOSE) = false) by (apply N.eqb_neq; exact Hop).
  assert (W : forall c0 d, same_core c0 (fst (write c0 d false)) /\ msg_events (k_tr (fst (write c0 d false))) = msg_events (k_tr c0)).
  { intros c0 d. unfold write. destruct (negb (k_sock c0)); [split; [apply same_core_refl|reflexivity]|].
    destruct (k_closed c0); [split; [apply same_core_refl|reflexivity]|].
    destruct (k_closing c0); [split; [apply same_core_refl|reflexivity]|].
    unfold pop_wfault. destruct (k_wfaults c0) as [|w ws]; [split; [unfold same_core; cbn; tauto|reflexivity]|].
    destruct w; (split; [unfold same_core; cbn; tauto|reflexivity]). }
  rewrite Eo. destruct (k_keys c) as [|k ks]; [apply W|].
  destruct (W (c <| k_keys := ks |>) (build op r k p)) as [A B]. split.
  - eapply same_core_trans; [|exact A]. unfold same_core. cbn. tauto.
  - rewrite B. reflexivity.
Qed.

Section Delivery.
  Variable cf : cfg.
  Variable app : strategy.
  Hypothesis app_passive : passive app.
  Hypothesis no_ping_timeout : zpos (c_ping_timeout cf) = None.

  Lemma deliver_passive c e : deliver app c e = (emit (TEv e) c, SOk).
  Proof. unfold deliver. rewrite app_passive. reflexivity. Qed.

  (* housekeeping with no armed timeout: never raises, never touches the core, adds no message event *)
  Lemma regular_quiet c : k_sent_close_time c = None ->
    snd (regular cf app c) = SOk /\ same_core c (fst (regular cf app c)) /\
    msg_events (k_tr (fst (regular cf app c))) = msg_events (k_tr c).
  Proof.
    intros Hs. unfold regular. destruct (negb (k_ready c)); [repeat split; try reflexivity; apply same_core_refl|].
    rewrite !deliver_passive, no_ping_timeout.
    set (t := session_time c).
    assert (P : exists c1, (match k_poll_start c with
                 | Some ps => if (t - ps >=? c_poll cf)%Z then (emit (TEv EvPoll) (c <| k_poll_start := Some t |>), SOk) else (c, SOk)
                 | None => (emit (TEv EvPoll) (c <| k_poll_start := Some t |>), SOk) end) = (c1, SOk)
               /\ same_core c c1 /\ msg_events (k_tr c1) = msg_events (k_tr c)).
    { destruct (k_poll_start c) as [ps|]; [destruct (_ >=? _)%Z|]; eexists; (split; [reflexivity|]);
        (split; [unfold same_core; cbn; tauto|reflexivity]). }
    destruct P as (c1 & E1 & C1 & M1). rewrite E1.
    set (c2 := if _ && _ then _ else c1).
    assert (C2 : same_core c1 c2 /\ msg_events (k_tr c2) = msg_events (k_tr c1)).
    { unfold c2. destruct (_ && _); [|split; [apply same_core_refl|reflexivity]].
      destruct (send_frame_core (c1 <| k_next_ping := (Conn.ceil_div t (c_ping_rate cf) * c_ping_rate cf)%Z |>) OP_PING false [] ltac:(discriminate)) as [A B].
      split; [eapply same_core_trans; [|exact A]; unfold same_core; cbn; tauto|rewrite B; reflexivity]. }
    destruct C2 as [C2 M2].
    assert (Hs2 : k_sent_close_time c2 = None).
    { destruct C1 as (_&_&_&_&_&S1&_). destruct C2 as (_&_&_&_&_&S2&_). congruence. }
    rewrite Hs2. destruct (zpos (c_close_timeout cf)); cbn [fst snd];
      (split; [reflexivity|split; [eapply same_core_trans; eauto|congruence]]).
  Qed.

  (* what the session does around one message event that is not a Close *)
  Lemma in_feed_yield_msg c e :
    k_sent_close_time c = None ->
    (match e with EvPing p => blen p <= 125 | EvClosing _ _ | EvClosed _ _ | EvReady _ _ => False | _ => True end) ->
    snd (in_feed_yield cf app c e) = SOk /\ same_core c (fst (in_feed_yield cf app c e)) /\
    msg_events (k_tr (fst (in_feed_yield cf app c e))) = (if is_msg_ev e then [e] else []) ++ msg_events (k_tr c).
  Proof.
    intros Hs He. unfold in_feed_yield.
    assert (O : exists c0, on_event cf c e = (c0, SOk) /\ same_core c c0 /\ msg_events (k_tr c0) = msg_events (k_tr c)).
    { destruct e; cbn [on_event]; try (eexists; split; [reflexivity|split; [apply same_core_refl|reflexivity]]); try contradiction.
      - destruct (c_auto_pong cf); [|eexists; split; [reflexivity|split; [apply same_core_refl|reflexivity]]].
        cbn [api_call]. replace (125 <? blen payload) with false by (symmetry; apply N.ltb_ge; exact He).
        destruct (send_frame_core c OP_PONG false payload ltac:(discriminate)) as [A B].
        pose proof (send_frame_no_value_error c OP_PONG false payload) as NV.
        destruct (send_frame c OP_PONG false payload) as [c0 r]. cbn [fst snd] in *.
        exists c0. split; [|split; assumption].
        destruct r as [x|]; [|reflexivity]. destruct x; try reflexivity. congruence.
      - eexists. split; [reflexivity|]. split; [unfold same_core; cbn; tauto|reflexivity]. }
    destruct O as (c0 & E0 & C0 & M0). rewrite E0. rewrite deliver_passive.
    assert (Hs0 : k_sent_close_time (emit (TEv e) c0) = None).
    { destruct C0 as (_&_&_&_&_&S&_). cbn. congruence. }
    destruct (regular_quiet (emit (TEv e) c0) Hs0) as (R1 & R2 & R3).
    destruct (regular cf app (emit (TEv e) c0)) as [c2 st2]. cbn [fst snd] in *. subst st2.
    split; [reflexivity|]. split.
    - eapply same_core_trans; [exact C0|]. eapply same_core_trans; [|exact R2]. unfold same_core. cbn. tauto.
    - rewrite R3. cbn [msg_events k_tr emit]. change (k_tr (emit (TEv e) c0)) with (TEv e :: k_tr c0). cbn [msg_events].
      rewrite M0. destruct (is_msg_ev e); reflexivity.
  Qed.
End Delivery.

(* ====================================================================================================== *)
(* the reference reading of a conforming frame list *)
Inductive smsg := SText (p : bytes) | SBinary (p : bytes) | SPing (p : bytes) | SPong (p : bytes).
Definition ev_of (m : smsg) : ev :=
  match m with SText p => EvText p | SBinary p => EvBinary p | SPing p => EvPing p | SPong p => EvPong p end.

Definition payload_of (fs : list frame) : bytes := concat (map f_payload fs).
Definition is_text_msg (fs : list frame) : bool := match fs with f :: _ => f_op f =? OP_TEXT | [] => false end.

(* one conforming frame, given the fragments of the data message that is open (oldest first).
   None = this is not a conforming continuation of the stream. *)
Definition ref1 (open : list frame) (f : frame) : option (list smsg * list frame) :=
  if negb ((f_op f <? 16) && (blen (f_payload f) <? 9223372036854775808)) then None
  else if validate_err false (hdr_of f) (blen (f_payload f)) then None
  else if f_op f =? OP_PING then Some ([SPing (f_payload f)], open)
  else if f_op f =? OP_PONG then Some ([SPong (f_payload f)], open)
  else if is_control (f_op f) then None                      (* Close is not part of this theorem *)
  else
    let cont := f_op f =? OP_CONT in
    match open with
    | [] => if cont then None else
            let fs := [f] in
            if is_text_msg fs then
              match uvalidate UAcc (payload_of fs) with
              | None => None
              | Some _ => if f_fin f then (if utf8_validb (payload_of fs) then Some ([SText (payload_of fs)], []) else None)
                          else Some ([], fs)
              end
            else if f_fin f then Some ([SBinary (payload_of fs)], []) else Some ([], fs)
    | _ :: _ => if negb cont then None else
            let fs := open ++ [f] in
            if is_text_msg fs then
              match uvalidate UAcc (payload_of fs) with
              | None => None
              | Some _ => if f_fin f then (if utf8_validb (payload_of fs) then Some ([SText (payload_of fs)], []) else None)
                          else Some ([], fs)
              end
            else if f_fin f then Some ([SBinary (payload_of fs)], []) else Some ([], fs)
    end.

Fixpoint ref_messages (open : list frame) (fs : list frame) : option (list smsg * list frame) :=
  match fs with
  | [] => Some ([], open)
  | f :: rest =>
      match ref1 open f with
      | None => None
      | Some (ms, open1) =>
          match ref_messages open1 rest with
          | None => None
          | Some (ms2, open2) => Some (ms ++ ms2, open2)
          end
      end
  end.

Fixpoint encode_all (fs : list frame) (lfs : list lenform) : bytes :=
  match fs, lfs with
  | f :: fs', lf :: lfs' => enc_frame f lf ++ encode_all fs' lfs'
  | _, _ => []
  end.
Fixpoint forms_ok (fs : list frame) (lfs : list lenform) : Prop :=
  match fs, lfs with
  | [], [] => True
  | f :: fs', lf :: lfs' => form_ok lf (blen (f_payload f)) = true /\ forms_ok fs' lfs'
  | _, _ => False
  end.

(* ====================================================================================================== *)
Section Delivery2.
  Variable cf : cfg.
  Variable app : strategy.
  Hypothesis app_passive : passive app.
  Hypothesis no_ping_timeout : zpos (c_ping_timeout cf) = None.

  (* the connection between two frames of a conforming stream: [open] = fragments of the open data message *)
  Definition idle (c : conn) (open : list frame) : Prop :=
    k_closed c = false /\ k_closing c = false /\ k_deflate c = None /\ k_sent_close_time c = None /\
    k_frames c = open /\ Forall (fun f => f_rsv1 f = false) open /\
    exists u, at_boundary (k_ps c) (is_text_msg open) u /\
              (if is_text_msg open then uvalidate UAcc (payload_of open) = Some u else u = UAcc).

  Lemma payload_of_app a b : payload_of (a ++ b) = payload_of a ++ payload_of b.
  Proof. unfold payload_of. rewrite map_app, concat_app. reflexivity. Qed.
  Lemma payload_of_one f : payload_of [f] = f_payload f.
  Proof. unfold payload_of. cbn. apply app_nil_r. Qed.

  (* a message event is yielded and the loop over the stream goes on, the core untouched *)
  Lemma yield_plain c e :
    k_sent_close_time c = None ->
    (match e with EvPing p => blen p <= 125 | EvClosing _ _ | EvClosed _ _ | EvReady _ _ => False | _ => True end) ->
    exists c1, feed_yield cf app c e (fun c1 => (c1, SOk)) = (c1, SOk) /\ same_core c c1 /\
               msg_events (k_tr c1) = (if is_msg_ev e then [e] else []) ++ msg_events (k_tr c).
  Proof.
    intros Hs He. unfold feed_yield.
    destruct (in_feed_yield_msg cf app app_passive no_ping_timeout c e Hs He) as (A & B & C).
    destruct (in_feed_yield cf app c e) as [c1 st]. cbn [fst snd] in *. subst st. exists c1. auto.
  Qed.

  Lemma first_rsv1 fs f0 : Forall (fun f => f_rsv1 f = false) fs -> f_rsv1 (hd f0 fs) = f_rsv1 f0 \/ f_rsv1 (hd f0 fs) = false.
  Proof. intros H. destruct fs; [left; reflexivity|right; inversion H; auto]. Qed.

  (* build_message on uncompressed fragments *)
  Lemma build_plain c fs f0 rest : fs = f0 :: rest -> Forall (fun f => f_rsv1 f = false) fs ->
    build_message c fs =
      (c, let p := payload_of fs in
          let op := f_op f0 in
          if op =? OP_BINARY then inl (MBinary p)
          else if op =? OP_TEXT then (if utf8_validb p then inl (MText p) else inr MCritical)
          else if op =? OP_CLOSE then
            match p with
            | [] => inl (MClose None [])
            | [_] => inr MProtocol
            | a :: b :: reason => if utf8_validb reason then inl (MClose (Some (be_decode [a; b])) reason) else inr MCritical
            end
          else if op =? OP_PING then inl (MPing p)
          else if op =? OP_PONG then inl (MPong p)
          else inl MOther).
  Proof.
    intros -> H. inversion H as [|? ? H0 _]; subst. unfold build_message. cbn [hd]. rewrite H0.
    unfold payload_of. cbv zeta.
    repeat match goal with |- context [if ?b then _ else _] => destruct b end; try reflexivity;
      destruct (concat (map f_payload (f0 :: rest))) as [|a [|b r]]; try reflexivity; destruct (utf8_validb r); reflexivity.
  Qed.

  (* one conforming frame through WebsocketStream.feed and WebSocket.feed *)
  Definition data_head (open : list frame) : Prop :=
    match open with o :: _ => (f_op o =? OP_TEXT) || (f_op o =? OP_BINARY) = true | [] => True end.

  Theorem frame_step c open f ms open1 :
    k_closed c = false -> k_closing c = false -> k_deflate c = None -> k_sent_close_time c = None ->
    k_frames c = open -> Forall (fun f => f_rsv1 f = false) open -> data_head open -> f_rsv1 f = false ->
    ref1 open f = Some (ms, open1) ->
    exists c1, on_item cf app c (IFrame f) = (c1, SOk, FContinue) /\
               k_ps c1 = k_ps c /\ k_closed c1 = false /\ k_closing c1 = false /\ k_deflate c1 = None /\
               k_sent_close_time c1 = None /\ k_frames c1 = open1 /\ Forall (fun f => f_rsv1 f = false) open1 /\
               data_head open1 /\
               msg_events (k_tr c1) = rev (map ev_of ms) ++ msg_events (k_tr c).
  Proof.
    intros Hcl Hcg Hdf Hsc Hfr Hop Hdh Hr1 Href. unfold ref1 in Href.
    destruct (negb _) eqn:Eb; [discriminate|]. apply negb_false_iff in Eb. apply andb_true_iff in Eb as [Eop Elen].
    destruct (validate_err false (hdr_of f) (blen (f_payload f))) eqn:Ev; [discriminate|].
    assert (Control : forall e m, is_control (f_op f) = true -> build_message c [f] = (c, inl m) ->
              on_message cf app c m = (let '(c1, st) := feed_yield cf app c e (fun c1 => (c1, SOk)) in (c1, st, FContinue)) ->
              (match e with EvPing p => blen p <= 125 | EvClosing _ _ | EvClosed _ _ | EvReady _ _ => False | _ => True end) ->
              is_msg_ev e = true ->
              exists c1, on_item cf app c (IFrame f) = (c1, SOk, FContinue) /\
               k_ps c1 = k_ps c /\ k_closed c1 = false /\ k_closing c1 = false /\ k_deflate c1 = None /\
               k_sent_close_time c1 = None /\ k_frames c1 = open /\ Forall (fun f => f_rsv1 f = false) open /\
               data_head open /\
               msg_events (k_tr c1) = [e] ++ msg_events (k_tr c)).
    { intros e m Hc Hb Hm He Hme. unfold on_item, stream_frame. rewrite Hc, Hb, Hm.
      destruct (yield_plain c e Hsc He) as (c1 & E1 & (S1&S2&S3&S4&S5&S6&S7) & M1). rewrite E1, Hme in *.
      exists c1. repeat split; try congruence. }
    assert (Hctl125 : is_control (f_op f) = true -> blen (f_payload f) <= 125).
    { intros Hc. unfold validate_err in Ev. cbn [hdr_of h_op h_fin h_r1 h_r2 h_r3] in Ev. rewrite Hc in Ev.
      apply orb_false_iff in Ev as [_ Ev]. cbn [andb] in Ev. apply N.ltb_ge in Ev. exact Ev. }
    destruct (f_op f =? OP_PING) eqn:Eping.
    { apply N.eqb_eq in Eping. inversion Href; subst ms open1. clear Href.
      assert (Hc : is_control (f_op f) = true) by (rewrite Eping; reflexivity).
      destruct (Control (EvPing (f_payload f)) (MPing (f_payload f)) Hc) as (c1 & H); auto.
      - rewrite (build_plain c [f] f [] eq_refl ltac:(constructor; auto)). rewrite payload_of_one, Eping. reflexivity.
      - exists c1. exact H. }
    destruct (f_op f =? OP_PONG) eqn:Epong.
    { apply N.eqb_eq in Epong. inversion Href; subst ms open1. clear Href.
      assert (Hc : is_control (f_op f) = true) by (rewrite Epong; reflexivity).
      destruct (Control (EvPong (f_payload f)) (MPong (f_payload f)) Hc) as (c1 & H); auto.
      - rewrite (build_plain c [f] f [] eq_refl ltac:(constructor; auto)). rewrite payload_of_one, Epong. reflexivity.
      - exists c1. exact H. }
    destruct (is_control (f_op f)) eqn:Ectl; [discriminate|].
    (* data frames *)
    assert (Data : forall fs f0 rest0, fs = f0 :: rest0 -> Forall (fun f => f_rsv1 f = false) fs ->
              (f_op f0 =? OP_TEXT) = is_text_msg fs -> (f_op f0 =? OP_TEXT) || (f_op f0 =? OP_BINARY) = true ->
              forall c0, same_core c c0 -> k_tr c0 = k_tr c ->
              (if is_text_msg fs then
                 match uvalidate UAcc (payload_of fs) with
                 | None => None
                 | Some _ => if f_fin f then (if utf8_validb (payload_of fs) then Some ([SText (payload_of fs)], []) else None) else Some ([], fs)
                 end
               else if f_fin f then Some ([SBinary (payload_of fs)], []) else Some ([], fs)) = Some (ms, open1) ->
              f_fin f = true ->
              exists c1, (let '(c2, r) := build_message c0 fs in
                          match r with inl m => on_message cf app c2 m | inr e => let '(c3, st) := raise_in_feed cf app c2 e in (c3, st, FBreak) end)
                         = (c1, SOk, FContinue) /\ same_core c0 c1 /\ open1 = [] /\
                         msg_events (k_tr c1) = rev (map ev_of ms) ++ msg_events (k_tr c)).
    { intros fs f0 rest0 Efs Hfs Htx Hkind c0 Hc0 Htr Hrf Hfin. rewrite Hfin in Hrf.
      rewrite (build_plain c0 fs f0 rest0 Efs Hfs). cbv zeta.
      assert (Hs0 : k_sent_close_time c0 = None) by (destruct Hc0 as (_&_&_&_&_&S&_); congruence).
      destruct (is_text_msg fs) eqn:Et.
      - rewrite Htx. replace (OP_TEXT =? OP_BINARY) with false by reflexivity.
        assert (Eb2 : (f_op f0 =? OP_BINARY) = false).
        { apply N.eqb_eq in Htx. rewrite Htx. reflexivity. }
        rewrite Eb2. destruct (uvalidate UAcc (payload_of fs)); [|discriminate].
        destruct (utf8_validb (payload_of fs)); [|discriminate]. inversion Hrf; subst ms open1.
        unfold on_message.
        destruct (yield_plain c0 (EvText (payload_of fs)) Hs0 I) as (c1 & E1 & S1 & M1). rewrite E1.
        exists c1. split; [reflexivity|]. split; [exact S1|]. split; [reflexivity|]. rewrite M1, Htr. reflexivity.
      - rewrite Htx in Hkind. cbn [orb] in Hkind. rewrite Hkind. inversion Hrf; subst ms open1.
        unfold on_message.
        destruct (yield_plain c0 (EvBinary (payload_of fs)) Hs0 I) as (c1 & E1 & S1 & M1). rewrite E1.
        exists c1. split; [reflexivity|]. split; [exact S1|]. split; [reflexivity|]. rewrite M1, Htr. reflexivity. }
    unfold on_item, stream_frame. rewrite Ectl, Hfr.
    destruct open as [|o0 orest].
    - (* first frame of a data message *)
      destruct (f_op f =? OP_CONT) eqn:Econt; [discriminate|]. cbn [negb] in *.
      assert (Hkind : (f_op f =? OP_TEXT) || (f_op f =? OP_BINARY) = true).
      { (* a non-reserved, non-control, non-continuation opcode below 16 is TEXT or BINARY *)
        unfold validate_err in Ev. cbn [hdr_of h_op] in Ev. apply orb_false_iff in Ev as [Ev _]. apply orb_false_iff in Ev as [Ev _].
        apply orb_false_iff in Ev as [_ Ev]. unfold is_reserved in Ev. unfold is_control in Ectl.
        apply N.ltb_lt in Eop. apply N.eqb_neq in Econt. apply N.leb_gt in Ectl.
        apply orb_false_iff in Ev as [Ev1 _]. apply andb_false_iff in Ev1.
        assert (f_op f = 1 \/ f_op f = 2) as [->| ->]; [|reflexivity|reflexivity].
        destruct Ev1 as [Ev1|Ev1]; [apply N.leb_gt in Ev1|apply N.leb_gt in Ev1]; unfold OP_CONT in *; lia. }
      destruct (f_fin f) eqn:Efin.
      + destruct (Data [f] f [] eq_refl ltac:(constructor; auto) eq_refl Hkind c (same_core_refl c) eq_refl Href eq_refl)
          as (c1 & E1 & (S1&S2&S3&S4&S5&S6&S7) & -> & M1).
        exists c1. split; [exact E1|]. repeat split; try congruence; try constructor; try exact I.
      + (* a first fragment: parked, no event *)
        assert (Hopen : ms = [] /\ open1 = [f]).
        { cbn [is_text_msg] in Href. destruct (f_op f =? OP_TEXT); [destruct (uvalidate UAcc (payload_of [f])); [|discriminate]|];
            inversion Href; auto. }
        destruct Hopen as [-> ->]. eexists. split; [reflexivity|]. cbn. repeat split; auto.
    - (* a continuation frame *)
      destruct (f_op f =? OP_CONT) eqn:Econt; cbn [negb] in *; [|discriminate].
      inversion Hop as [|? ? Ho0 Horest]; subst.
      assert (Hall : Forall (fun f1 => f_rsv1 f1 = false) ((o0 :: orest) ++ [f])) by (apply Forall_app; split; [exact Hop|constructor; auto]).
      destruct (f_fin f) eqn:Efin.
      + (* the message completes *)
        set (c0 := c <| k_frames := [] |>).
        assert (Hc0 : same_core c c0 -> True) by auto.
        assert (Sc0 : k_ps c0 = k_ps c /\ k_closing c0 = k_closing c /\ k_closed c0 = k_closed c /\ k_deflate c0 = k_deflate c /\
                      k_sent_close_time c0 = k_sent_close_time c /\ k_ready c0 = k_ready c /\ k_tr c0 = k_tr c) by (cbn; tauto).
        (* Data is stated with same_core, which fixes k_frames: restate what it needs for c0 directly *)
        assert (Hs0 : k_sent_close_time c0 = None) by (cbn; exact Hsc).
        rewrite (build_plain c0 ((o0 :: orest) ++ [f]) o0 (orest ++ [f]) eq_refl Hall). cbv zeta.
        change (is_text_msg ((o0 :: orest) ++ [f])) with (f_op o0 =? OP_TEXT) in Href.
        cbn [data_head] in Hdh.
        destruct (f_op o0 =? OP_TEXT) eqn:Et.
        * assert (Eb2 : (f_op o0 =? OP_BINARY) = false) by (apply N.eqb_eq in Et; rewrite Et; reflexivity).
          rewrite Eb2. destruct (uvalidate UAcc (payload_of ((o0 :: orest) ++ [f]))); [|discriminate].
          destruct (utf8_validb (payload_of ((o0 :: orest) ++ [f]))); [|discriminate]. inversion Href; subst ms open1.
          unfold on_message.
          destruct (yield_plain c0 (EvText (payload_of ((o0 :: orest) ++ [f]))) Hs0 I) as (c1 & E1 & (S1&S2&S3&S4&S5&S6&S7) & M1). rewrite E1.
          exists c1. split; [reflexivity|]. cbn in S1, S2, S3, S4, S5, S6. repeat split; try congruence; try constructor; try exact I.
          rewrite M1. reflexivity.
        * cbn [orb] in Hdh. rewrite Hdh. inversion Href; subst ms open1.
          unfold on_message.
          destruct (yield_plain c0 (EvBinary (payload_of ((o0 :: orest) ++ [f]))) Hs0 I) as (c1 & E1 & (S1&S2&S3&S4&S5&S6&S7) & M1). rewrite E1.
          exists c1. split; [reflexivity|]. cbn in S1, S2, S3, S4, S5, S6. repeat split; try congruence; try constructor; try exact I.
          rewrite M1. reflexivity.
      + assert (Hopen : ms = [] /\ open1 = (o0 :: orest) ++ [f]).
        { change (is_text_msg ((o0 :: orest) ++ [f])) with (f_op o0 =? OP_TEXT) in Href.
          destruct (f_op o0 =? OP_TEXT); [destruct (uvalidate UAcc (payload_of ((o0 :: orest) ++ [f]))); [|discriminate]|];
            inversion Href; auto. }
        destruct Hopen as [-> ->]. eexists. split; [reflexivity|]. cbn. repeat split; auto.
  Qed.
End Delivery2.

(* ====================================================================================================== *)
(* the text bookkeeping of the parser follows the reference reading *)
Definition text_state (open : list frame) (u : ustate) : Prop :=
  if is_text_msg open then uvalidate UAcc (payload_of open) = Some u else u = UAcc.

Lemma payload_of_app' a b : payload_of (a ++ b) = payload_of a ++ payload_of b.
Proof. unfold payload_of. rewrite map_app, concat_app. reflexivity. Qed.
Lemma payload_of_one' f : payload_of [f] = f_payload f.
Proof. unfold payload_of. cbn. apply app_nil_r. Qed.

Lemma is_text_msg_app o rest f : is_text_msg ((o :: rest) ++ [f]) = is_text_msg (o :: rest).
Proof. reflexivity. Qed.

(* for a frame the reference accepts: the incremental validator accepts its payload from the current state, and the
   parser's flags after the frame describe the reference's new open message *)
Lemma ref1_parser open f ms open1 u :
  data_head open -> text_state open u -> ref1 open f = Some (ms, open1) ->
  exists u', (textual f (is_text_msg open) = true -> uvalidate u (f_payload f) = Some u') /\
             is_text_after f (is_text_msg open) = is_text_msg open1 /\
             text_state open1 (u_after f (is_text_msg open) u u').
Proof.
  intros Hdh Hts Href. unfold ref1 in Href.
  destruct (negb _) eqn:Eb; [discriminate|].
  destruct (validate_err false (hdr_of f) (blen (f_payload f))) eqn:Ev; [discriminate|].
  assert (Hfinctl : is_control (f_op f) = true -> f_fin f = true).
  { intros Hc. unfold validate_err in Ev. cbn [hdr_of h_op h_fin h_r1 h_r2 h_r3] in Ev. rewrite Hc in Ev.
    destruct (f_fin f); [reflexivity|]. cbn in Ev. rewrite orb_true_r in Ev. discriminate. }
  (* control frames: nothing changes *)
  assert (Ctl : is_control (f_op f) = true -> f_op f <> OP_TEXT -> f_op f <> OP_CONT -> open1 = open ->
          exists u', (textual f (is_text_msg open) = true -> uvalidate u (f_payload f) = Some u') /\
             is_text_after f (is_text_msg open) = is_text_msg open1 /\
             text_state open1 (u_after f (is_text_msg open) u u')).
  { intros Hc Hnt Hnc ->. exists u.
    assert (E1 : (f_op f =? OP_TEXT) = false) by (apply N.eqb_neq; exact Hnt).
    assert (E2 : (f_op f =? OP_CONT) = false) by (apply N.eqb_neq; exact Hnc).
    unfold textual, is_text_after, u_after, textual. rewrite E1, E2, Hc, (Hfinctl Hc). cbn [orb andb negb].
    split; [discriminate|]. split; [reflexivity|exact Hts]. }
  destruct (f_op f =? OP_PING) eqn:Eping.
  { apply N.eqb_eq in Eping. inversion Href; subst. apply Ctl; try reflexivity; rewrite Eping; try reflexivity; discriminate. }
  destruct (f_op f =? OP_PONG) eqn:Epong.
  { apply N.eqb_eq in Epong. inversion Href; subst. apply Ctl; try reflexivity; rewrite Epong; try reflexivity; discriminate. }
  destruct (is_control (f_op f)) eqn:Ectl; [discriminate|].
  (* the common tail of both data cases: fs = the fragments including this frame; prev = payload before this frame *)
  assert (Tail : forall (fs : list frame) (prev : bytes) (t : bool), payload_of fs = prev ++ f_payload f ->
            (if t then uvalidate UAcc prev = Some u else u = UAcc) ->
            t = is_text_msg fs -> fs <> [] ->
            (textual f (is_text_msg open) = t) ->
            (is_text_after f (is_text_msg open) = if f_fin f then false else t) ->
            (if is_text_msg fs then
               match uvalidate UAcc (payload_of fs) with
               | None => None
               | Some _ => if f_fin f then (if utf8_validb (payload_of fs) then Some ([SText (payload_of fs)], []) else None) else Some ([], fs)
               end
             else if f_fin f then Some ([SBinary (payload_of fs)], []) else Some ([], fs)) = Some (ms, open1) ->
            (f_fin f = true -> (f_op f =? OP_TEXT) || (f_op f =? OP_CONT) = true \/ t = false) ->
            exists u', (textual f (is_text_msg open) = true -> uvalidate u (f_payload f) = Some u') /\
               is_text_after f (is_text_msg open) = is_text_msg open1 /\
               text_state open1 (u_after f (is_text_msg open) u u')).
  { intros fs prev t Hpay Hu Ht Hne Htx Hita Hrf Hreset. rewrite <- Ht in Hrf. rewrite Htx, Hita.
    destruct t.
    - (* a text message *)
      rewrite Hpay, uvalidate_app, Hu in Hrf.
      destruct (uvalidate u (f_payload f)) as [u'|] eqn:Ev2; [|discriminate].
      exists u'. split; [intros _; reflexivity|].
      unfold u_after. rewrite Htx. destruct (f_fin f) eqn:Efin.
      + destruct (utf8_validb (prev ++ f_payload f)); [|discriminate]. inversion Hrf; subst.
        split; [reflexivity|]. unfold text_state. cbn [is_text_msg].
        destruct (Hreset eq_refl) as [Hr|Hr]; [rewrite Hr; reflexivity|discriminate].
      + inversion Hrf; subst. split; [exact Ht|].
        unfold text_state. rewrite <- Ht. cbn [andb]. rewrite Hpay, uvalidate_app, Hu.
        destruct (blen (f_payload f) =? 0) eqn:Ez; cbn [negb].
        * apply N.eqb_eq in Ez. assert (f_payload f = []) as -> by (unfold blen in Ez; destruct (f_payload f); [reflexivity|cbn in Ez; lia]).
          reflexivity.
        * exact Ev2.
    - (* a binary message *)
      exists u. split; [discriminate|]. unfold u_after. rewrite Htx. cbn [andb].
      destruct (f_fin f) eqn:Efin; inversion Hrf; subst.
      + split; [reflexivity|]. unfold text_state. cbn [is_text_msg].
        destruct ((f_op f =? OP_TEXT) || (f_op f =? OP_CONT)); reflexivity.
      + split; [exact Ht|]. unfold text_state. rewrite <- Ht. reflexivity. }
  destruct open as [|o0 orest].
  - destruct (f_op f =? OP_CONT) eqn:Econt; [discriminate|]. cbn [negb] in *.
    unfold text_state in Hts. cbn [is_text_msg] in Hts. subst u.
    apply (Tail [f] [] (f_op f =? OP_TEXT)); auto.
    + rewrite payload_of_one'. reflexivity.
    + destruct (f_op f =? OP_TEXT); reflexivity.
    + discriminate.
    + unfold textual. cbn [is_text_msg]. rewrite Econt. cbn [andb]. rewrite orb_false_r. reflexivity.
    + unfold is_text_after. cbn [is_text_msg]. rewrite Ectl. cbn [negb]. rewrite andb_true_r.
      destruct (f_fin f); [reflexivity|]. destruct (f_op f =? OP_TEXT); reflexivity.
    + intros _. destruct (f_op f =? OP_TEXT); [left; reflexivity|right; reflexivity].
  - destruct (f_op f =? OP_CONT) eqn:Econt; cbn [negb] in *; [|discriminate].
    assert (Hnt : (f_op f =? OP_TEXT) = false) by (apply N.eqb_eq in Econt; rewrite Econt; reflexivity).
    apply (Tail ((o0 :: orest) ++ [f]) (payload_of (o0 :: orest)) (is_text_msg (o0 :: orest))); auto.
    + rewrite payload_of_app', payload_of_one'. reflexivity.
    + discriminate.
    + unfold textual. rewrite Hnt, Econt. cbn [orb andb]. reflexivity.
    + unfold is_text_after. rewrite Hnt, Ectl. cbn [negb]. rewrite andb_true_r. destruct (f_fin f); reflexivity.
    + intros _. left. rewrite ?Econt. apply orb_true_r.
Qed.

(* ====================================================================================================== *)
(* C01, the whole stream: any sequence of frames the reference reading accepts, each in any legal length form *)
Section Delivery3.
  Variable cf : cfg.
  Variable app : strategy.
  Hypothesis app_passive : passive app.
  Hypothesis no_ping_timeout : zpos (c_ping_timeout cf) = None.

  Lemma at_boundary_ok s t u : at_boundary s t u -> fp_ok s.
  Proof. intros ->. unfold fp_ok, st_ok. cbn. lia. Qed.

  Lemma set_ps_same (c : conn) : c <| k_ps := k_ps c |> = c.
  Proof. destruct c; reflexivity. Qed.

  Lemma ref1_valid open f r : ref1 open f = Some r -> validate_err false (hdr_of f) (blen (f_payload f)) = false.
  Proof.
    unfold ref1. destruct (negb _); [discriminate|].
    destruct (validate_err false (hdr_of f) (blen (f_payload f))); [discriminate|reflexivity].
  Qed.

  Theorem deliver_frames fs : forall lfs c open ms open',
    idle c open -> data_head open -> Forall plain fs -> forms_ok fs lfs ->
    ref_messages open fs = Some (ms, open') ->
    exists c', feedf cf app c (encode_all fs lfs) = (c', SOk) /\ idle c' open' /\ data_head open' /\
               msg_events (k_tr c') = rev (map ev_of ms) ++ msg_events (k_tr c).
  Proof.
    induction fs as [|f rest IH]; intros lfs c open ms open' Hidle Hdh Hpl Hforms Href.
    - destruct lfs; [|contradiction]. cbn in Href. inversion Href; subst ms open'. cbn [encode_all].
      pose proof Hidle as (Hcl & _ & _ & _ & _ & _ & u & Hab & _).
      rewrite feedf_unfold by (eapply at_boundary_ok; exact Hab). unfold feed_body. rewrite Hcl.
      rewrite fp_pull_unfold by (eapply at_boundary_ok; exact Hab). unfold pull_body.
      rewrite set_ps_same. exists c. auto.
    - destruct lfs as [|lf lfs]; [contradiction|]. destruct Hforms as [Hform Hforms].
      inversion Hpl as [|? ? Hpf Hprest]; subst.
      cbn [ref_messages] in Href.
      destruct (ref1 open f) as [[ms1 open1]|] eqn:E1; [|discriminate].
      destruct (ref_messages open1 rest) as [[ms2 open2]|] eqn:E2; [|discriminate].
      inversion Href; subst ms open'. clear Href.
      destruct Hidle as (Hcl & Hcg & Hdf & Hsc & Hfr & Hrs & u & Hab & Hu).
      destruct (ref1_parser open f ms1 open1 u Hdh Hu E1) as (u' & Hval & Hita & Hts).
      destruct (pull_one_frame (k_ps c) (is_text_msg open) u f lf (encode_all rest lfs) u' Hab Hpf Hform
                  (ref1_valid _ _ _ E1) Hval) as (s' & Hpull & Hab').
      cbn [encode_all].
      rewrite feedf_unfold by (eapply at_boundary_ok; exact Hab). unfold feed_body. rewrite Hcl, Hpull.
      destruct (frame_step cf app app_passive no_ping_timeout (c <| k_ps := s' |>) open f ms1 open1)
        as (c1 & Eitem & S1 & S2 & S3 & S4 & S5 & S6 & S7 & S8 & S9); auto.
      { destruct Hpf as (A & _). exact A. }
      rewrite Eitem.
      destruct (IH lfs c1 open1 ms2 open2) as (c' & Efeed & Hidle' & Hdh' & Hmsgs); auto.
      { unfold idle. repeat split; auto. exists (u_after f (is_text_msg open) u u'). split.
        - rewrite S1. cbn. rewrite <- Hita. exact Hab'.
        - exact Hts. }
      exists c'. split; [exact Efeed|]. split; [exact Hidle'|]. split; [exact Hdh'|].
      rewrite Hmsgs, S9. cbn. rewrite map_app, rev_app_distr, app_assoc. reflexivity.
  Qed.

  Lemma idle_ok c open : idle c open -> fp_ok (k_ps c).
  Proof. intros (_ & _ & _ & _ & _ & _ & u & Hab & _). eapply at_boundary_ok; exact Hab. Qed.

  (* ... and however the bytes are cut into reads *)
  Corollary deliver_frames_chunked fs lfs ds c open ms open' :
    idle c open -> data_head open -> Forall plain fs -> forms_ok fs lfs ->
    ref_messages open fs = Some (ms, open') -> concat ds = encode_all fs lfs ->
    exists c', feed_chunks cf app c ds = (c', SOk) /\ idle c' open' /\ data_head open' /\
               msg_events (k_tr c') = rev (map ev_of ms) ++ msg_events (k_tr c).
  Proof.
    intros Hi Hd Hp Hf Hr Hc. rewrite feed_chunks_concat by (eapply idle_ok; exact Hi). rewrite Hc.
    eapply deliver_frames; eauto.
  Qed.
End Delivery3.
