(* C01: a conforming server stream is decoded frame by frame, in any legal length form. *)
From Coq Require Import List NArith Arith Lia Bool ZifyN ZifyNat.
From Coq.Strings Require Import Byte.
From RecordUpdate Require Import RecordSet.
From Model Require Import Bytes Utf8 Frame Parser FrameParser Response Conn.
From Proofs Require Import BytesFacts Utf8Facts ParserFacts FrameParserFacts FrameFacts ConnFacts.
Import ListNotations RecordSetNotations.
Open Scope N_scope.

(* ---------- reading an exact number of bytes ---------- *)
Lemma fp_pull_unfold s d : fp_ok s ->
  fp_pull s d = pull_body fpg pitem perr CRLFCRLF fp_resume fp_validate PE_Utf8 PE_HeaderTooLong fp_pull s d.
Proof.
  intros H. unfold fp_pull.
  eapply pullf_unfold; try exact fp_resume_ok; try exact crlfcrlf_nonempty; try exact fp_validate_app; try exact fp_validate_nil; try exact H.
Qed.

Lemma take_firstn' n d : take n d = firstn (N.to_nat n) d.
Proof.
  unfold take, blen. destruct (N.le_gt_cases n (N.of_nat (length d))) as [H|H].
  - rewrite N.min_l by exact H. reflexivity.
  - rewrite N.min_r by lia. rewrite Nnat.Nat2N.id. rewrite firstn_all. symmetry. apply firstn_all2. lia.
Qed.
Lemma drop_skipn' n d : drop n d = skipn (N.to_nat n) d.
Proof.
  unfold drop, blen. destruct (N.le_gt_cases n (N.of_nat (length d))) as [H|H].
  - rewrite N.min_l by exact H. reflexivity.
  - rewrite N.min_r by lia. rewrite Nnat.Nat2N.id. rewrite skipn_all. symmetry. apply skipn_all2. lia.
Qed.

Lemma read_exact g u a rest :
  a <> [] ->
  let s := {| pg := g; paw := AwBytes u; prem := blen a; pbuf := [] |} in
  fp_pull s (a ++ rest) =
    match (if u then fp_validate g a else Some g) with
    | None => Err PE_Utf8
    | Some g' => after_resume fpg pitem perr (fp_resume g' a) rest fp_pull
    end.
Proof.
  intros Ha s.
  assert (Hok : fp_ok s).
  { unfold fp_ok, st_ok, s. cbn. unfold blen. destruct a; [congruence|cbn; lia]. }
  rewrite fp_pull_unfold by exact Hok. unfold pull_body.
  destruct (a ++ rest) as [|x xs] eqn:Eax; [destruct a; [congruence|discriminate]|]. rewrite <- Eax. clear x xs Eax.
  cbn [paw prem pg pbuf s].
  rewrite take_firstn', drop_skipn'. unfold blen. rewrite Nnat.Nat2N.id.
  rewrite firstn_app, Nat.sub_diag, firstn_all. cbn [firstn]. rewrite app_nil_r.
  rewrite skipn_app, Nat.sub_diag, skipn_all. cbn [skipn app].
  destruct (if u then fp_validate g a else Some g) as [g'|]; [|reflexivity].
  replace (N.of_nat (length a) - N.of_nat (length a) =? 0) with true by (symmetry; apply N.eqb_eq; lia).
  reflexivity.
Qed.

(* ---------- the header bytes ---------- *)
Lemma byte0_plain fin op : op < 16 ->
  let n0 := b2n (byte0 fin false false false op) in
  (128 <=? n0) = fin /\ N.testbit n0 6 = false /\ N.testbit n0 5 = false /\ N.testbit n0 4 = false /\ n0 mod 16 = op.
Proof.
  intros H. apply op_cases in H. cbn [In] in H.
  destruct fin; repeat (destruct H as [<-|H]; [vm_compute; repeat split; reflexivity|]); contradiction.
Qed.

(* a frame as a conforming server sends it: unmasked, reserved bits clear *)
Definition plain (f : frame) : Prop :=
  f_rsv1 f = false /\ f_rsv2 f = false /\ f_rsv3 f = false /\ f_key f = None /\ f_op f < 16 /\
  blen (f_payload f) < 9223372036854775808.

Definition hdr_of (f : frame) : hinfo :=
  {| h_fin := f_fin f; h_r1 := false; h_r2 := false; h_r3 := false; h_op := f_op f; h_mask := false |}.

Lemma mk_frame_plain f : plain f -> mk_frame (hdr_of f) None (f_payload f) = f.
Proof. intros (A & B & C & D & _). destruct f; cbn in *; subst; reflexivity. Qed.

(* the parser at a frame boundary *)
Definition at_boundary (s : fpst) (t : bool) (u : ustate) : Prop :=
  s = {| pg := {| fp_phase := FHdr; fp_is_text := t; fp_u := u; fp_compression := false |};
         paw := AwBytes false; prem := 2; pbuf := [] |}.

Definition textual (f : frame) (t : bool) : bool := (f_op f =? OP_TEXT) || ((f_op f =? OP_CONT) && ((f_op f =? OP_TEXT) || t)).

(* state of the text bookkeeping after a frame *)
Definition is_text_after (f : frame) (t : bool) : bool :=
  let t1 := if f_op f =? OP_TEXT then true else t in
  if f_fin f && negb (is_control (f_op f)) then false else t1.
Definition u_after (f : frame) (t : bool) (u u' : ustate) : ustate :=
  let u1 := if textual f t && negb (blen (f_payload f) =? 0) then u' else u in
  if f_fin f && ((f_op f =? OP_TEXT) || (f_op f =? OP_CONT)) then UAcc else u1.

Lemma len_field_cases lf len : form_ok lf len = true ->
  (lf = L7 /\ len < 126 /\ len_field lf 0 len = [n2b len]) \/
  (lf = L16 /\ len < 65536 /\ len_field lf 0 len = n2b 126 :: be_encode 2 len) \/
  (lf = L64 /\ len < 9223372036854775808 /\ len_field lf 0 len = n2b 127 :: be_encode 8 len).
Proof.
  destruct lf; cbn; intros H; apply N.ltb_lt in H; [left|right; left|right; right]; repeat split; auto.
Qed.

(* one frame, in any legal length form, followed by anything *)
Theorem pull_one_frame s t u f lf rest u' :
  at_boundary s t u -> plain f -> form_ok lf (blen (f_payload f)) = true ->
  validate_err false (hdr_of f) (blen (f_payload f)) = false ->
  (textual f t = true -> uvalidate u (f_payload f) = Some u') ->
  exists s', fp_pull s (enc_frame f lf ++ rest) = Item (IFrame f) s' rest /\
             at_boundary s' (is_text_after f t) (u_after f t u u').
Proof.
  intros Hs Hp Hf Hv Hu. pose proof Hp as (P1 & P2 & P3 & P4 & P5 & P6).
  unfold enc_frame. rewrite P1, P2, P3, P4.
  set (len := blen (f_payload f)) in *.
  pose proof (byte0_plain (f_fin f) (f_op f) P5) as (B1 & B2 & B3 & B4 & B5). cbv zeta in *.
  (* the state after the payload, common to all three forms *)
  set (g0 := {| fp_phase := FHdr; fp_is_text := t; fp_u := u; fp_compression := false |}).
  assert (Tail : forall gph, fp_phase gph = fp_phase gph -> 
     fp_is_text gph = t -> fp_u gph = u -> fp_compression gph = false ->
     exists s', after_resume fpg pitem perr (after_len gph (hdr_of f) len) (f_payload f ++ rest) fp_pull = Item (IFrame f) s' rest /\
                at_boundary s' (is_text_after f t) (u_after f t u u')).
  { intros gph _ Et Eu Ec. unfold after_len.
    replace (9223372036854775807 <? len) with false by (symmetry; apply N.ltb_ge; lia).
    cbn [hdr_of h_mask]. unfold after_mask. rewrite Ec, Hv. cbn [hdr_of h_op].
    destruct (len =? 0) eqn:Ez.
    - (* empty payload *)
      apply N.eqb_eq in Ez. assert (Hnil : f_payload f = []) by (unfold len, blen in Ez; destruct (f_payload f); [reflexivity|cbn in Ez; lia]).
      unfold finish_frame. cbn [h_mask hdr_of h_fin h_op fp_compression fp_is_text fp_u fp_phase].
      rewrite ?Ec. cbn [negb andb]. cbn [after_resume]. rewrite Hnil. cbn [app].
      eexists. split; [rewrite <- Hnil at 1; rewrite (mk_frame_plain f Hp); reflexivity|].
      unfold at_boundary, is_text_after, u_after, textual. rewrite Et, Eu, Hnil. cbn [blen length N.of_nat]. cbn.
      rewrite andb_false_r. reflexivity.
    - apply N.eqb_neq in Ez.
      assert (Hne : f_payload f <> []) by (intros E; unfold len, blen in Ez; rewrite E in Ez; cbn in Ez; congruence).
      cbn [after_resume]. unfold set_phase. cbn [fp_phase fp_is_text fp_u fp_compression negb andb].
      rewrite andb_true_r.
      match goal with |- context [fp_pull {| pg := ?g1; paw := AwBytes ?u1; prem := len; pbuf := [] |} (f_payload f ++ rest)] =>
        pose proof (read_exact g1 u1 (f_payload f) rest Hne) as Hr; set (tx := u1) in * end.
      cbv zeta in Hr. fold len in Hr. rewrite Hr. clear Hr.
      assert (Etx : tx = textual f t).
      { unfold tx, textual. rewrite ?Et. destruct (f_op f =? OP_TEXT); reflexivity. }
      unfold fp_validate. cbn [fp_u fp_phase fp_is_text fp_compression]. rewrite ?Eu.
      destruct tx eqn:Etx2.
      + rewrite <- Etx in Hu. rewrite (Hu eq_refl).
        unfold fp_resume. cbn [fp_phase]. unfold finish_frame. cbn [hdr_of h_mask h_fin h_op fp_compression fp_is_text fp_u].
        rewrite ?Ec. cbn [negb andb after_resume]. rewrite (mk_frame_plain f Hp).
        eexists. split; [reflexivity|].
        unfold at_boundary, is_text_after, u_after. rewrite <- Etx, ?Et.
        fold len. replace (len =? 0) with false by (symmetry; apply N.eqb_neq; exact Ez). cbn [negb andb]. reflexivity.
      + unfold fp_resume. cbn [fp_phase]. unfold finish_frame. cbn [hdr_of h_mask h_fin h_op fp_compression fp_is_text fp_u].
        rewrite ?Ec. cbn [negb andb after_resume]. rewrite (mk_frame_plain f Hp).
        eexists. split; [reflexivity|].
        unfold at_boundary, is_text_after, u_after. rewrite <- Etx, ?Et, ?Eu. cbn [andb]. reflexivity. }
  unfold at_boundary in Hs. subst s. fold g0.
  destruct (len_field_cases lf len Hf) as [(-> & Hl & El)|[(-> & Hl & El)|(-> & Hl & El)]]; rewrite El.
  - (* 7-bit length *)
    change ((byte0 (f_fin f) false false false (f_op f) :: [n2b len] ++ f_payload f) ++ rest)
      with ([byte0 (f_fin f) false false false (f_op f); n2b len] ++ (f_payload f ++ rest)).
    pose proof (read_exact g0 false [byte0 (f_fin f) false false false (f_op f); n2b len] (f_payload f ++ rest) ltac:(discriminate)) as Hr.
    cbv zeta in Hr. change (blen [byte0 (f_fin f) false false false (f_op f); n2b len]) with 2 in Hr. rewrite Hr. clear Hr.
    unfold fp_resume. cbn [fp_phase g0 nth]. rewrite B1, B2, B3, B4, B5. rewrite (b2n_n2b len) by lia.
    replace (128 <=? len) with false by (symmetry; apply N.leb_gt; lia).
    rewrite (N.mod_small len 128) by lia.
    replace (len =? 126) with false by (symmetry; apply N.eqb_neq; lia).
    replace (len =? 127) with false by (symmetry; apply N.eqb_neq; lia).
    apply (Tail g0); reflexivity.
  - (* 16-bit length *)
    change ((byte0 (f_fin f) false false false (f_op f) :: (n2b 126 :: be_encode 2 len) ++ f_payload f) ++ rest)
      with ([byte0 (f_fin f) false false false (f_op f); n2b 126] ++ ((be_encode 2 len ++ f_payload f) ++ rest)).
    rewrite <- app_assoc.
    pose proof (read_exact g0 false [byte0 (f_fin f) false false false (f_op f); n2b 126] (be_encode 2 len ++ (f_payload f ++ rest)) ltac:(discriminate)) as Hr.
    cbv zeta in Hr. change (blen [byte0 (f_fin f) false false false (f_op f); n2b 126]) with 2 in Hr. rewrite Hr. clear Hr.
    unfold fp_resume at 1. cbn [fp_phase g0 nth]. rewrite B1, B2, B3, B4, B5.
    change (b2n (n2b 126)) with 126. change (128 <=? 126) with false. change (126 mod 128 =? 126) with true.
    cbn [after_resume set_phase].
    assert (Hbe : be_encode 2 len <> []) by (intros E; pose proof (be_encode_length 2 len) as L; rewrite E in L; discriminate).
    match goal with |- context [fp_pull {| pg := ?g1; paw := AwBytes false; prem := 2; pbuf := [] |} (be_encode 2 len ++ _)] =>
      pose proof (read_exact g1 false (be_encode 2 len) (f_payload f ++ rest) Hbe) as Hr end.
    cbv zeta in Hr. unfold blen in Hr at 1. rewrite be_encode_length in Hr. change (N.of_nat 2) with 2 in Hr. rewrite Hr. clear Hr.
    unfold fp_resume at 1. cbn [fp_phase set_phase]. rewrite be_roundtrip by (cbn; lia).
    match goal with |- context [after_len ?g1 ?hh len] => apply (Tail g1); reflexivity end.
  - (* 64-bit length *)
    change ((byte0 (f_fin f) false false false (f_op f) :: (n2b 127 :: be_encode 8 len) ++ f_payload f) ++ rest)
      with ([byte0 (f_fin f) false false false (f_op f); n2b 127] ++ ((be_encode 8 len ++ f_payload f) ++ rest)).
    rewrite <- app_assoc.
    pose proof (read_exact g0 false [byte0 (f_fin f) false false false (f_op f); n2b 127] (be_encode 8 len ++ (f_payload f ++ rest)) ltac:(discriminate)) as Hr.
    cbv zeta in Hr. change (blen [byte0 (f_fin f) false false false (f_op f); n2b 127]) with 2 in Hr. rewrite Hr. clear Hr.
    unfold fp_resume at 1. cbn [fp_phase g0 nth]. rewrite B1, B2, B3, B4, B5.
    change (b2n (n2b 127)) with 127. change (128 <=? 127) with false. change (127 mod 128 =? 126) with false. change (127 mod 128 =? 127) with true.
    cbn [after_resume set_phase].
    assert (Hbe : be_encode 8 len <> []) by (intros E; pose proof (be_encode_length 8 len) as L; rewrite E in L; discriminate).
    match goal with |- context [fp_pull {| pg := ?g1; paw := AwBytes false; prem := 8; pbuf := [] |} (be_encode 8 len ++ _)] =>
      pose proof (read_exact g1 false (be_encode 8 len) (f_payload f ++ rest) Hbe) as Hr end.
    cbv zeta in Hr. unfold blen in Hr at 1. rewrite be_encode_length in Hr. change (N.of_nat 8) with 8 in Hr. rewrite Hr. clear Hr.
    unfold fp_resume at 1. cbn [fp_phase set_phase]. rewrite be_roundtrip by (cbn; lia).
    match goal with |- context [after_len ?g1 ?hh len] => apply (Tail g1); reflexivity end.
Qed.
