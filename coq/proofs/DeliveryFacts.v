(* C01: a conforming server stream is decoded frame by frame, in any legal length form. *)
From Coq Require Import List NArith ZArith Arith Lia Bool ZifyN ZifyNat.
From Coq.Strings Require Import Byte.
From RecordUpdate Require Import RecordSet.
From Model Require Import Bytes Utf8 Frame Parser FrameParser Response Conn.
From Proofs Require Import BytesFacts Utf8Facts ParserFacts FrameParserFacts FrameFacts ConnFacts ApiFacts TraceFacts.
Import ListNotations RecordSetNotations.
Open Scope N_scope.

(* ---------- reading an exact number of bytes ---------- *)
Lemma fp_pull_unfold s d : fp_ok s ->
  fp_pull s d = pull_body fpg pitem perr CRLFCRLF fp_resume fp_validate PE_Utf8 PE_HeaderTooLong fp_pull s d.
Proof.
  intros H. unfold fp_pull.
  eapply pullf_unfold; try exact fp_resume_ok; try exact crlfcrlf_nonempty; try exact fp_validate_app; try exact fp_validate_nil; try exact H.
Qed.

Lemma take_firstn' n d : take n d = firstn (N.to_nat n) d.
Proof.
  unfold take, blen. destruct (N.le_gt_cases n (N.of_nat (length d))) as [H|H].
  - rewrite N.min_l by exact H. reflexivity.
  - rewrite N.min_r by lia. rewrite Nnat.Nat2N.id. rewrite firstn_all. symmetry. apply firstn_all2. lia.
Qed.
Lemma drop_skipn' n d : drop n d = skipn (N.to_nat n) d.
Proof.
  unfold drop, blen. destruct (N.le_gt_cases n (N.of_nat (length d))) as [H|H].
  - rewrite N.min_l by exact H. reflexivity.
  - rewrite N.min_r by lia. rewrite Nnat.Nat2N.id. rewrite skipn_all. symmetry. apply skipn_all2. lia.
Qed.

Lemma read_exact g u a rest :
  a <> [] ->
  let s := {| pg := g; paw := AwBytes u; prem := blen a; pbuf := [] |} in
  fp_pull s (a ++ rest) =
    match (if u then fp_validate g a else Some g) with
    | None => Err PE_Utf8
    | Some g' => after_resume fpg pitem perr (fp_resume g' a) rest fp_pull
    end.
Proof.
  intros Ha s.
  assert (Hok : fp_ok s).
  { unfold fp_ok, st_ok, s. cbn. unfold blen. destruct a; [congruence|cbn; lia]. }
  rewrite fp_pull_unfold by exact Hok. unfold pull_body.
  destruct (a ++ rest) as [|x xs] eqn:Eax; [destruct a; [congruence|discriminate]|]. rewrite <- Eax. clear x xs Eax.
  cbn [paw prem pg pbuf s].
  rewrite take_firstn', drop_skipn'. unfold blen. rewrite Nnat.Nat2N.id.
  rewrite firstn_app, Nat.sub_diag, firstn_all. cbn [firstn]. rewrite app_nil_r.
  rewrite skipn_app, Nat.sub_diag, skipn_all. cbn [skipn app].
  destruct (if u then fp_validate g a else Some g) as [g'|]; [|reflexivity].
  replace (N.of_nat (length a) - N.of_nat (length a) =? 0) with true by (symmetry; apply N.eqb_eq; lia).
  reflexivity.
Qed.

(* ---------- the header bytes ---------- *)
Lemma byte0_plain fin op : op < 16 ->
  let n0 := b2n (byte0 fin false false false op) in
  (128 <=? n0) = fin /\ N.testbit n0 6 = false /\ N.testbit n0 5 = false /\ N.testbit n0 4 = false /\ n0 mod 16 = op.
Proof.
  intros H. apply op_cases in H. cbn [In] in H.
  destruct fin; repeat (destruct H as [<-|H]; [vm_compute; repeat split; reflexivity|]); contradiction.
Qed.

(* a frame as a conforming server sends it: unmasked, reserved bits clear *)
Definition plain (f : frame) : Prop :=
  f_rsv1 f = false /\ f_rsv2 f = false /\ f_rsv3 f = false /\ f_key f = None /\ f_op f < 16 /\
  blen (f_payload f) < 9223372036854775808.

Definition hdr_of (f : frame) : hinfo :=
  {| h_fin := f_fin f; h_r1 := false; h_r2 := false; h_r3 := false; h_op := f_op f; h_mask := false |}.

Lemma mk_frame_plain f : plain f -> mk_frame (hdr_of f) None (f_payload f) = f.
Proof. intros (A & B & C & D & _). destruct f; cbn in *; subst; reflexivity. Qed.

(* the parser at a frame boundary *)
Definition at_boundary (s : fpst) (t : bool) (u : ustate) : Prop :=
  s = {| pg := {| fp_phase := FHdr; fp_is_text := t; fp_u := u; fp_compression := false |};
         paw := AwBytes false; prem := 2; pbuf := [] |}.

Definition textual (f : frame) (t : bool) : bool := (f_op f =? OP_TEXT) || ((f_op f =? OP_CONT) && ((f_op f =? OP_TEXT) || t)).

(* state of the text bookkeeping after a frame *)
Definition is_text_after (f : frame) (t : bool) : bool :=
  let t1 := if f_op f =? OP_TEXT then true else t in
  if f_fin f && negb (is_control (f_op f)) then false else t1.
Definition u_after (f : frame) (t : bool) (u u' : ustate) : ustate :=
  let u1 := if textual f t && negb (blen (f_payload f) =? 0) then u' else u in
  if f_fin f && ((f_op f =? OP_TEXT) || (f_op f =? OP_CONT)) then UAcc else u1.

Lemma len_field_cases lf len : form_ok lf len = true ->
  (lf = L7 /\ len < 126 /\ len_field lf 0 len = [n2b len]) \/
  (lf = L16 /\ len < 65536 /\ len_field lf 0 len = n2b 126 :: be_encode 2 len) \/
  (lf = L64 /\ len < 9223372036854775808 /\ len_field lf 0 len = n2b 127 :: be_encode 8 len).
Proof.
  destruct lf; cbn; intros H; apply N.ltb_lt in H; [left|right; left|right; right]; repeat split; auto.
Qed.

(* one frame, in any legal length form, followed by anything *)
Theorem pull_one_frame s t u f lf rest u' :
  at_boundary s t u -> plain f -> form_ok lf (blen (f_payload f)) = true ->
  validate_err false (hdr_of f) (blen (f_payload f)) = false ->
  (textual f t = true -> uvalidate u (f_payload f) = Some u') ->
  exists s', fp_pull s (enc_frame f lf ++ rest) = Item (IFrame f) s' rest /\
             at_boundary s' (is_text_after f t) (u_after f t u u').
Proof.
  intros Hs Hp Hf Hv Hu. pose proof Hp as (P1 & P2 & P3 & P4 & P5 & P6).
  unfold enc_frame. rewrite P1, P2, P3, P4.
  set (len := blen (f_payload f)) in *.
  pose proof (byte0_plain (f_fin f) (f_op f) P5) as (B1 & B2 & B3 & B4 & B5). cbv zeta in *.
  (* the state after the payload, common to all three forms *)
  set (g0 := {| fp_phase := FHdr; fp_is_text := t; fp_u := u; fp_compression := false |}).
  assert (Tail : forall gph, fp_phase gph = fp_phase gph -> 
     fp_is_text gph = t -> fp_u gph = u -> fp_compression gph = false ->
     exists s', after_resume fpg pitem perr (after_len gph (hdr_of f) len) (f_payload f ++ rest) fp_pull = Item (IFrame f) s' rest /\
                at_boundary s' (is_text_after f t) (u_after f t u u')).
  { intros gph _ Et Eu Ec. unfold after_len.
    replace (9223372036854775807 <? len) with false by (symmetry; apply N.ltb_ge; lia).
    cbn [hdr_of h_mask]. unfold after_mask. rewrite Ec, Hv. cbn [hdr_of h_op].
    destruct (len =? 0) eqn:Ez.
    - (* empty payload *)
      apply N.eqb_eq in Ez. assert (Hnil : f_payload f = []) by (unfold len, blen in Ez; destruct (f_payload f); [reflexivity|cbn in Ez; lia]).
      unfold finish_frame. cbn [h_mask hdr_of h_fin h_op fp_compression fp_is_text fp_u fp_phase].
      rewrite ?Ec. cbn [negb andb]. cbn [after_resume]. rewrite Hnil. cbn [app].
      eexists. split; [rewrite <- Hnil at 1; rewrite (mk_frame_plain f Hp); reflexivity|].
      unfold at_boundary, is_text_after, u_after, textual. rewrite Et, Eu, Hnil. cbn [blen length N.of_nat]. cbn.
      rewrite andb_false_r. reflexivity.
    - apply N.eqb_neq in Ez.
      assert (Hne : f_payload f <> []) by (intros E; unfold len, blen in Ez; rewrite E in Ez; cbn in Ez; congruence).
      cbn [after_resume]. unfold set_phase. cbn [fp_phase fp_is_text fp_u fp_compression negb andb].
      rewrite andb_true_r.
      match goal with |- context [fp_pull {| pg := ?g1; paw := AwBytes ?u1; prem := len; pbuf := [] |} (f_payload f ++ rest)] =>
        pose proof (read_exact g1 u1 (f_payload f) rest Hne) as Hr; set (tx := u1) in * end.
      cbv zeta in Hr. fold len in Hr. rewrite Hr. clear Hr.
      assert (Etx : tx = textual f t).
      { unfold tx, textual. rewrite ?Et. destruct (f_op f =? OP_TEXT); reflexivity. }
      unfold fp_validate. cbn [fp_u fp_phase fp_is_text fp_compression]. rewrite ?Eu.
      destruct tx eqn:Etx2.
      + rewrite <- Etx in Hu. rewrite (Hu eq_refl).
        unfold fp_resume. cbn [fp_phase]. unfold finish_frame. cbn [hdr_of h_mask h_fin h_op fp_compression fp_is_text fp_u].
        rewrite ?Ec. cbn [negb andb after_resume]. rewrite (mk_frame_plain f Hp).
        eexists. split; [reflexivity|].
        unfold at_boundary, is_text_after, u_after. rewrite <- Etx, ?Et.
        fold len. replace (len =? 0) with false by (symmetry; apply N.eqb_neq; exact Ez). cbn [negb andb]. reflexivity.
      + unfold fp_resume. cbn [fp_phase]. unfold finish_frame. cbn [hdr_of h_mask h_fin h_op fp_compression fp_is_text fp_u].
        rewrite ?Ec. cbn [negb andb after_resume]. rewrite (mk_frame_plain f Hp).
        eexists. split; [reflexivity|].
        unfold at_boundary, is_text_after, u_after. rewrite <- Etx, ?Et, ?Eu. cbn [andb]. reflexivity. }
  unfold at_boundary in Hs. subst s. fold g0.
  destruct (len_field_cases lf len Hf) as [(-> & Hl & El)|[(-> & Hl & El)|(-> & Hl & El)]]; rewrite El.
  - (* 7-bit length *)
    change ((byte0 (f_fin f) false false false (f_op f) :: [n2b len] ++ f_payload f) ++ rest)
      with ([byte0 (f_fin f) false false false (f_op f); n2b len] ++ (f_payload f ++ rest)).
    pose proof (read_exact g0 false [byte0 (f_fin f) false false false (f_op f); n2b len] (f_payload f ++ rest) ltac:(discriminate)) as Hr.
    cbv zeta in Hr. change (blen [byte0 (f_fin f) false false false (f_op f); n2b len]) with 2 in Hr. rewrite Hr. clear Hr.
    unfold fp_resume. cbn [fp_phase g0 nth]. rewrite B1, B2, B3, B4, B5. rewrite (b2n_n2b len) by lia.
    replace (128 <=? len) with false by (symmetry; apply N.leb_gt; lia).
    rewrite (N.mod_small len 128) by lia.
    replace (len =? 126) with false by (symmetry; apply N.eqb_neq; lia).
    replace (len =? 127) with false by (symmetry; apply N.eqb_neq; lia).
    apply (Tail g0); reflexivity.
  - (* 16-bit length *)
    change ((byte0 (f_fin f) false false false (f_op f) :: (n2b 126 :: be_encode 2 len) ++ f_payload f) ++ rest)
      with ([byte0 (f_fin f) false false false (f_op f); n2b 126] ++ ((be_encode 2 len ++ f_payload f) ++ rest)).
    rewrite <- app_assoc.
    pose proof (read_exact g0 false [byte0 (f_fin f) false false false (f_op f); n2b 126] (be_encode 2 len ++ (f_payload f ++ rest)) ltac:(discriminate)) as Hr.
    cbv zeta in Hr. change (blen [byte0 (f_fin f) false false false (f_op f); n2b 126]) with 2 in Hr. rewrite Hr. clear Hr.
    unfold fp_resume at 1. cbn [fp_phase g0 nth]. rewrite B1, B2, B3, B4, B5.
    change (b2n (n2b 126)) with 126. change (128 <=? 126) with false. change (126 mod 128 =? 126) with true.
    cbn [after_resume set_phase].
    assert (Hbe : be_encode 2 len <> []) by (intros E; pose proof (be_encode_length 2 len) as L; rewrite E in L; discriminate).
    match goal with |- context [fp_pull {| pg := ?g1; paw := AwBytes false; prem := 2; pbuf := [] |} (be_encode 2 len ++ _)] =>
      pose proof (read_exact g1 false (be_encode 2 len) (f_payload f ++ rest) Hbe) as Hr end.
    cbv zeta in Hr. unfold blen in Hr at 1. rewrite be_encode_length in Hr. change (N.of_nat 2) with 2 in Hr. rewrite Hr. clear Hr.
    unfold fp_resume at 1. cbn [fp_phase set_phase]. rewrite be_roundtrip by (cbn; lia).
    match goal with |- context [after_len ?g1 ?hh len] => apply (Tail g1); reflexivity end.
  - (* 64-bit length *)
    change ((byte0 (f_fin f) false false false (f_op f) :: (n2b 127 :: be_encode 8 len) ++ f_payload f) ++ rest)
      with ([byte0 (f_fin f) false false false (f_op f); n2b 127] ++ ((be_encode 8 len ++ f_payload f) ++ rest)).
    rewrite <- app_assoc.
    pose proof (read_exact g0 false [byte0 (f_fin f) false false false (f_op f); n2b 127] (be_encode 8 len ++ (f_payload f ++ rest)) ltac:(discriminate)) as Hr.
    cbv zeta in Hr. change (blen [byte0 (f_fin f) false false false (f_op f); n2b 127]) with 2 in Hr. rewrite Hr. clear Hr.
    unfold fp_resume at 1. cbn [fp_phase g0 nth]. rewrite B1, B2, B3, B4, B5.
    change (b2n (n2b 127)) with 127. change (128 <=? 127) with false. change (127 mod 128 =? 126) with false. change (127 mod 128 =? 127) with true.
    cbn [after_resume set_phase].
    assert (Hbe : be_encode 8 len <> []) by (intros E; pose proof (be_encode_length 8 len) as L; rewrite E in L; discriminate).
    match goal with |- context [fp_pull {| pg := ?g1; paw := AwBytes false; prem := 8; pbuf := [] |} (be_encode 8 len ++ _)] =>
      pose proof (read_exact g1 false (be_encode 8 len) (f_payload f ++ rest) Hbe) as Hr end.
    cbv zeta in Hr. unfold blen in Hr at 1. rewrite be_encode_length in Hr. change (N.of_nat 8) with 8 in Hr. rewrite Hr. clear Hr.
    unfold fp_resume at 1. cbn [fp_phase set_phase]. rewrite be_roundtrip by (cbn; lia).
    match goal with |- context [after_len ?g1 ?hh len] => apply (Tail g1); reflexivity end.
Qed.

(* ====================================================================================================== *)
(* from frames to events: a passive application and no armed timeout (the quantifier of C01 is over server streams) *)

Definition passive (app : strategy) : Prop := forall tr, app tr = [].

(* the fields the receive path depends on *)
Definition same_core (c c' : conn) : Prop :=
  k_ps c' = k_ps c /\ k_frames c' = k_frames c /\ k_closing c' = k_closing c /\ k_closed c' = k_closed c /\
  k_deflate c' = k_deflate c /\ k_sent_close_time c' = k_sent_close_time c /\ k_ready c' = k_ready c /\
  k_sock c' = k_sock c.

Lemma same_core_refl c : same_core c c.
Proof. unfold same_core. tauto. Qed.
Lemma same_core_trans a b c : same_core a b -> same_core b c -> same_core a c.
Proof. unfold same_core. intros (A1&A2&A3&A4&A5&A6&A7&A8) (B1&B2&B3&B4&B5&B6&B7&B8). repeat split; congruence. Qed.

(* message events of a trace, most recent first *)
Definition is_msg_ev (e : ev) : bool :=
  match e with EvText _ | EvBinary _ | EvPing _ | EvPong _ | EvClosing _ _ | EvClosed _ _ => true | _ => false end.
Fixpoint msg_events (tr : list titem) : list ev :=
  match tr with
  | [] => []
  | TEv e :: r => if is_msg_ev e then e :: msg_events r else msg_events r
  | _ :: r => msg_events r
  end.

(* a data/control frame that is not a Close never touches the core fields *)
Lemma send_frame_core c op r p : op <> OP_CLOSE ->
  same_core c (fst (send_frame c op r p)) /\ msg_events (k_tr (fst (send_frame c op r p))) = msg_events (k_tr c).
Proof.
  intros Hop. unfold send_frame, pop_key.
  assert (Eo : (op =? OP_CLOSE) = false) by (apply N.eqb_neq; exact Hop).
  assert (W : forall c0 d, same_core c0 (fst (write c0 d false)) /\ msg_events (k_tr (fst (write c0 d false))) = msg_events (k_tr c0)).
  { intros c0 d. unfold write. destruct (negb (k_sock c0)); [split; [apply same_core_refl|reflexivity]|].
    destruct (k_closed c0); [split; [apply same_core_refl|reflexivity]|].
    destruct (k_closing c0); [split; [apply same_core_refl|reflexivity]|].
    unfold pop_wfault. destruct (k_wfaults c0) as [|w ws]; [split; [unfold same_core; cbn; tauto|reflexivity]|].
    destruct w; (split; [unfold same_core; cbn; tauto|reflexivity]). }
  rewrite Eo. destruct (k_keys c) as [|k ks]; [apply W|].
  destruct (W (c <| k_keys := ks |>) (build op r k p)) as [A B]. split.
  - eapply same_core_trans; [|exact A]. unfold same_core. cbn. tauto.
  - rewrite B. reflexivity.
Qed.

(* ---------- what goes out: the frames written, as the reference server of RFC 6455 decodes them (most recent first) ---------- *)
Definition wview (w : bytes) : N * bytes :=
  match server_decode w with Some (f, []) => (f_op f, f_payload f) | _ => (255, w) end.
(* ... by the LIBRARY: the trace is most recent first, and do_actions puts the marker TCall r right behind (= in front of, in
   this order) whatever the application's call wrote; a write reported by such a marker is the application's and is skipped *)
Fixpoint lw (after_call : bool) (tr : list titem) : list (N * bytes) :=
  match tr with
  | [] => []
  | TCall _ :: r => lw true r
  | TWrite w :: r => if after_call then lw false r else wview w :: lw false r
  | _ :: r => lw false r
  end.
Definition writes (tr : list titem) : list (N * bytes) := lw false tr.
Lemma writes_write w r : writes (TWrite w :: r) = wview w :: writes r.
Proof. reflexivity. Qed.
Lemma writes_call x r : writes (TCall x :: r) = lw true r.
Proof. reflexivity. Qed.
(* behind a call marker: the call's own write (and the deflate record of a compressed send) is not the library's *)
Definition no_write_head (tr : list titem) : Prop := match tr with TWrite _ :: _ => False | _ => True end.
Lemma lw_true_no_write tr : no_write_head tr -> lw true tr = writes tr.
Proof. destruct tr as [|[] r]; cbn; intros H; try reflexivity; contradiction. Qed.
(* every write, the application's included; the library's writes are a subsequence of it, in the same order *)
Fixpoint all_writes (tr : list titem) : list (N * bytes) :=
  match tr with [] => [] | TWrite w :: r => wview w :: all_writes r | _ :: r => all_writes r end.
Inductive subseq {A : Type} : list A -> list A -> Prop :=
| subseq_nil : subseq [] []
| subseq_skip x l m : subseq l m -> subseq l (x :: m)
| subseq_keep x l m : subseq l m -> subseq (x :: l) (x :: m).
Lemma lw_subseq tr : forall b, subseq (lw b tr) (all_writes tr).
Proof.
  induction tr as [|i r IH]; intros b; [constructor|].
  destruct i; cbn [lw all_writes]; try apply IH.
  destruct b; [apply subseq_skip|apply subseq_keep]; apply IH.
Qed.
Lemma writes_subseq tr : subseq (writes tr) (all_writes tr).
Proof. apply lw_subseq. Qed.
(* an application that made no call: nothing is skipped *)
Lemma writes_all_without_calls tr : Forall (fun i => match i with TCall _ => False | _ => True end) tr -> writes tr = all_writes tr.
Proof.
  unfold writes. induction 1 as [|i r Hi _ IH]; [reflexivity|]. destruct i; cbn [lw all_writes]; try exact IH; try contradiction.
  rewrite IH. reflexivity.
Qed.

(* the transport works: the socket is open, no write fault is scheduled, masking keys are 4 bytes *)
Definition wok (c : conn) : Prop := k_sock c = true /\ k_wfaults c = [] /\ keys_ok c.

Lemma wview_build op key p : length key = 4%nat -> op < 16 -> blen p < 9223372036854775808 -> wview (build op false key p) = (op, p).
Proof. intros Hk Ho Hp. unfold wview. rewrite (build_roundtrip op false key p Hk Ho Hp). reflexivity. Qed.

(* a frame that is not a Close, on a working transport: written, the transport still works *)
Lemma send_frame_ok c op p : op <> OP_CLOSE -> op < 16 -> blen p < 9223372036854775808 ->
  k_closed c = false -> k_closing c = false -> wok c ->
  exists c1, send_frame c op false p = (c1, None) /\ writes (k_tr c1) = (op, p) :: writes (k_tr c) /\ wok c1.
Proof.
  intros Hop Ho Hp Hcl Hcg (Hs & Hw & Hk).
  assert (Eo : (op =? OP_CLOSE) = false) by (apply N.eqb_neq; exact Hop).
  unfold send_frame, pop_key. rewrite Eo.
  assert (W : forall c0 key, k_sock c0 = true -> k_closed c0 = false -> k_closing c0 = false -> k_wfaults c0 = [] -> length key = 4%nat ->
            exists c1, write c0 (build op false key p) false = (c1, None) /\ writes (k_tr c1) = (op, p) :: writes (k_tr c0) /\
                       k_sock c1 = true /\ k_wfaults c1 = [] /\ k_keys c1 = k_keys c0).
  { intros c0 key A B C D E. unfold write, pop_wfault. rewrite A, B, C, D. cbn [negb].
    exists (emit (TWrite (build op false key p)) c0). split; [reflexivity|]. split.
    - change (k_tr (emit (TWrite (build op false key p)) c0)) with (TWrite (build op false key p) :: k_tr c0).
      rewrite writes_write. rewrite (wview_build op key p E Ho Hp). reflexivity.
    - repeat split; auto. }
  destruct (k_keys c) as [|k ks] eqn:Ek.
  - destruct (W c [x00; x00; x00; x00] Hs Hcl Hcg Hw eq_refl) as (c1 & E1 & W1 & S1 & F1 & K1).
    exists c1. split; [exact E1|]. split; [exact W1|]. unfold wok, keys_ok. rewrite S1, F1, K1, Ek. repeat split; auto.
  - unfold keys_ok in Hk. rewrite Ek in Hk. inversion Hk as [|? ? Hk1 Hk2]; subst.
    destruct (W (c <| k_keys := ks |>) k) as (c1 & E1 & W1 & S1 & F1 & K1); try assumption.
    exists c1. split; [exact E1|]. split; [exact W1|]. unfold wok, keys_ok. rewrite S1, F1, K1. cbn. repeat split; auto.
Qed.

(* an application that only sends -- text, binary, ping, pong, in reaction to anything -- and never calls close() or leaves
   the loop *)
Definition send_action (a : action) : Prop :=
  match a with ACall (CClose _ _) => False | AAbandon _ => False | _ => True end.
Definition benign (app : strategy) : Prop := forall tr, Forall send_action (app tr).
Lemma passive_benign app : passive app -> benign app.
Proof. intros H tr. rewrite H. constructor. Qed.

Lemma send_data_core c op p z : op <> OP_CLOSE ->
  same_core c (fst (send_data c op p z)) /\ msg_events (k_tr (fst (send_data c op p z))) = msg_events (k_tr c).
Proof.
  intros Hop. unfold send_data. destruct (k_deflate c) as [d|]; [|apply send_frame_core; exact Hop].
  destruct z; [|apply send_frame_core; exact Hop].
  destruct (k_ctape c) as [|z0 zs]; cbv zeta; destruct (c_reset d);
    match goal with |- context [send_frame ?c3 op true ?zz] =>
      destruct (send_frame_core c3 op true zz Hop) as [A B];
      (split; [eapply same_core_trans; [|exact A]; unfold same_core; cbn; tauto|rewrite B; reflexivity])
    end.
Qed.

Lemma api_send_core c a : send_action (ACall a) ->
  same_core c (fst (api_call c a)) /\ msg_events (k_tr (fst (api_call c a))) = msg_events (k_tr c).
Proof.
  intros Ha. destruct a; cbn [api_call send_action] in *; try contradiction;
    try (apply send_data_core; discriminate);
    (destruct (125 <? blen payload); [split; [apply same_core_refl|reflexivity]|apply send_frame_core; discriminate]).
Qed.

Lemma do_actions_benign acts : Forall send_action acts -> forall c,
  snd (do_actions c acts) = SOk /\ same_core c (fst (do_actions c acts)) /\
  msg_events (k_tr (fst (do_actions c acts))) = msg_events (k_tr c).
Proof.
  induction 1 as [|a acts Ha _ IH]; intros c; [repeat split; try reflexivity; apply same_core_refl|].
  destruct a as [cl|w]; [|contradiction]. cbn [do_actions].
  destruct (api_send_core c cl Ha) as [A B]. destruct (api_call c cl) as [c1 r]. cbn [fst] in *.
  destruct (IH (emit (TCall r) c1)) as (S1 & S2 & S3).
  split; [exact S1|]. split.
  - eapply same_core_trans; [exact A|]. eapply same_core_trans; [|exact S2]. unfold same_core. cbn. tauto.
  - rewrite S3. cbn. exact B.
Qed.

(* ---------- what a sending application adds to the trace: never a write of the library's ---------- *)
Lemma send_frame_trace3 c op r p :
  exists w, k_tr (fst (send_frame c op r p)) = k_tr c \/ k_tr (fst (send_frame c op r p)) = TWrite w :: k_tr c \/
            k_tr (fst (send_frame c op r p)) = TWriteFail w :: k_tr c.
Proof.
  unfold send_frame, pop_key. destruct (k_keys c) as [|k ks].
  - exists (build op r [x00; x00; x00; x00] p).
    destruct (write_cases c (build op r [x00; x00; x00; x00] p) (op =? OP_CLOSE)) as [(x & E & _)|[(c2 & E & Ht & _)|(c2 & E & Ht)]];
      rewrite E; cbn [fst]; auto.
  - exists (build op r k p). set (c1 := c <| k_keys := ks |>).
    destruct (write_cases c1 (build op r k p) (op =? OP_CLOSE)) as [(x & E & _)|[(c2 & E & Ht & _)|(c2 & E & Ht)]];
      rewrite E; cbn [fst]; auto.
Qed.

Lemma lw_true_after_send tr tr' : no_write_head tr ->
  (exists w, tr' = tr \/ tr' = TWrite w :: tr \/ tr' = TWriteFail w :: tr) -> lw true tr' = writes tr.
Proof.
  intros H (w & [->|[->| ->]]); [apply lw_true_no_write; exact H|reflexivity|reflexivity].
Qed.

Lemma api_send_writes c a : send_action (ACall a) -> no_write_head (k_tr c) ->
  lw true (k_tr (fst (api_call c a))) = writes (k_tr c).
Proof.
  intros Ha Hh. destruct a as [p z|p z|p|p|code reason]; cbn [api_call send_action] in *; try contradiction.
  - unfold send_data. destruct (k_deflate c) as [d|]; [|apply lw_true_after_send; [exact Hh|apply send_frame_trace3]].
    destruct z; [|apply lw_true_after_send; [exact Hh|apply send_frame_trace3]].
    destruct (k_ctape c) as [|z0 zs]; cbv zeta; destruct (c_reset d);
      match goal with |- context [send_frame ?c3 OP_TEXT true ?zz] =>
        destruct (send_frame_trace3 c3 OP_TEXT true zz) as (w & [E|[E|E]]); rewrite E; cbn; try reflexivity end.
  - unfold send_data. destruct (k_deflate c) as [d|]; [|apply lw_true_after_send; [exact Hh|apply send_frame_trace3]].
    destruct z; [|apply lw_true_after_send; [exact Hh|apply send_frame_trace3]].
    destruct (k_ctape c) as [|z0 zs]; cbv zeta; destruct (c_reset d);
      match goal with |- context [send_frame ?c3 OP_BINARY true ?zz] =>
        destruct (send_frame_trace3 c3 OP_BINARY true zz) as (w & [E|[E|E]]); rewrite E; cbn; try reflexivity end.
  - destruct (125 <? blen p); [apply lw_true_no_write; exact Hh|apply lw_true_after_send; [exact Hh|apply send_frame_trace3]].
  - destruct (125 <? blen p); [apply lw_true_no_write; exact Hh|apply lw_true_after_send; [exact Hh|apply send_frame_trace3]].
Qed.

Lemma do_actions_writes acts : Forall send_action acts -> forall c, no_write_head (k_tr c) ->
  writes (k_tr (fst (do_actions c acts))) = writes (k_tr c).
Proof.
  induction 1 as [|a acts Ha _ IH]; intros c Hh; [reflexivity|].
  destruct a as [cl|w]; [|contradiction]. cbn [do_actions].
  pose proof (api_send_writes c cl Ha Hh) as A. destruct (api_call c cl) as [c1 r]. cbn [fst] in A.
  rewrite IH by exact I. change (k_tr (emit (TCall r) c1)) with (TCall r :: k_tr c1). rewrite writes_call. exact A.
Qed.

(* the transport keeps working under a sending application *)
Lemma send_frame_wok c op r p : wok c -> wok (fst (send_frame c op r p)).
Proof.
  intros (Hs & Hw & Hk). unfold send_frame, pop_key.
  assert (W : forall c0 d fl, k_sock c0 = true -> k_wfaults c0 = [] -> keys_ok c0 -> wok (fst (write c0 d fl))).
  { intros c0 d fl A B C. unfold write. rewrite A. cbn [negb].
    destruct (k_closed c0); [repeat split; assumption|]. destruct (k_closing c0); [repeat split; assumption|].
    unfold pop_wfault. destruct fl; cbn; rewrite ?B; cbn; repeat split; assumption. }
  destruct (k_keys c) as [|k ks] eqn:Ek; [apply W; assumption|].
  apply W; cbn; try assumption. unfold keys_ok in *. rewrite Ek in Hk. inversion Hk; assumption.
Qed.

Lemma api_send_wok c a : send_action (ACall a) -> wok c -> wok (fst (api_call c a)).
Proof.
  intros Ha Hw. destruct a as [p z|p z|p|p|code reason]; cbn [api_call send_action] in *; try contradiction.
  - unfold send_data. destruct (k_deflate c) as [d|]; [|apply send_frame_wok; exact Hw].
    destruct z; [|apply send_frame_wok; exact Hw].
    destruct Hw as (A & B & C). destruct (k_ctape c) as [|z0 zs]; cbv zeta; destruct (c_reset d); apply send_frame_wok; repeat split; assumption.
  - unfold send_data. destruct (k_deflate c) as [d|]; [|apply send_frame_wok; exact Hw].
    destruct z; [|apply send_frame_wok; exact Hw].
    destruct Hw as (A & B & C). destruct (k_ctape c) as [|z0 zs]; cbv zeta; destruct (c_reset d); apply send_frame_wok; repeat split; assumption.
  - destruct (125 <? blen p); [exact Hw|apply send_frame_wok; exact Hw].
  - destruct (125 <? blen p); [exact Hw|apply send_frame_wok; exact Hw].
Qed.

Lemma do_actions_wok acts : Forall send_action acts -> forall c, wok c -> wok (fst (do_actions c acts)).
Proof.
  induction 1 as [|a acts Ha _ IH]; intros c Hw; [exact Hw|].
  destruct a as [cl|w]; [|contradiction]. cbn [do_actions].
  pose proof (api_send_wok c cl Ha Hw) as A. destruct (api_call c cl) as [c1 r]. cbn [fst] in A.
  apply IH. exact A.
Qed.

Section Delivery.
  Variable cf : cfg.
  Variable app : strategy.
  Hypothesis app_benign : benign app.
  Hypothesis no_ping_timeout : zpos (c_ping_timeout cf) = None.

  (* handing an event to a sending application: the library's writes are what they were, the transport still works *)
  Lemma deliver_writes c e : writes (k_tr (fst (deliver app c e))) = writes (k_tr c).
  Proof.
    unfold deliver. rewrite do_actions_writes; [reflexivity|apply app_benign|exact I].
  Qed.
  Lemma deliver_wok c e : wok c -> wok (fst (deliver app c e)).
  Proof. intros Hw. unfold deliver. apply do_actions_wok; [apply app_benign|exact Hw]. Qed.

  (* handing an event to a sending application: the event, then its sends; the core is untouched *)
  Lemma deliver_benign c e : exists c1, deliver app c e = (c1, SOk) /\ same_core c c1 /\
    msg_events (k_tr c1) = (if is_msg_ev e then [e] else []) ++ msg_events (k_tr c).
  Proof.
    unfold deliver. set (c0 := emit (TEv e) c).
    destruct (do_actions_benign (app (k_tr c0)) (app_benign _) c0) as (S1 & S2 & S3).
    destruct (do_actions c0 (app (k_tr c0))) as [c1 st]. cbn [fst snd] in *. subst st.
    exists c1. split; [reflexivity|]. split.
    - eapply same_core_trans; [|exact S2]. unfold same_core, c0. cbn. tauto.
    - rewrite S3. unfold c0. cbn. destruct (is_msg_ev e); reflexivity.
  Qed.

  (* housekeeping with no armed timeout: never raises, never touches the core, adds no message event *)
  Lemma regular_quiet c : k_sent_close_time c = None ->
    snd (regular cf app c) = SOk /\ same_core c (fst (regular cf app c)) /\
    msg_events (k_tr (fst (regular cf app c))) = msg_events (k_tr c).
  Proof.
    intros Hs. unfold regular. destruct (negb (k_ready c)); [repeat split; try reflexivity; apply same_core_refl|].
    rewrite no_ping_timeout.
    set (t := session_time c).
    assert (P : exists c1, (match k_poll_start c with
                 | Some ps => if (t - ps >=? c_poll cf)%Z then deliver app (c <| k_poll_start := Some t |>) EvPoll else (c, SOk)
                 | None => deliver app (c <| k_poll_start := Some t |>) EvPoll end) = (c1, SOk)
               /\ same_core c c1 /\ msg_events (k_tr c1) = msg_events (k_tr c)).
    { assert (D : exists c1, deliver app (c <| k_poll_start := Some t |>) EvPoll = (c1, SOk) /\ same_core c c1 /\ msg_events (k_tr c1) = msg_events (k_tr c)).
      { destruct (deliver_benign (c <| k_poll_start := Some t |>) EvPoll) as (c1 & E1 & C1 & M1). exists c1. split; [exact E1|].
        split; [eapply same_core_trans; [|exact C1]; unfold same_core; cbn; tauto|exact M1]. }
      destruct (k_poll_start c) as [ps|]; [destruct (_ >=? _)%Z|]; try exact D.
      exists c. repeat split; try reflexivity. }
    destruct P as (c1 & E1 & C1 & M1). rewrite E1.
    set (c2 := if _ && _ then _ else c1).
    assert (C2 : same_core c1 c2 /\ msg_events (k_tr c2) = msg_events (k_tr c1)).
    { unfold c2. destruct (_ && _); [|split; [apply same_core_refl|reflexivity]].
      destruct (send_frame_core (c1 <| k_next_ping := (Conn.ceil_div t (c_ping_rate cf) * c_ping_rate cf)%Z |>) OP_PING false [] ltac:(discriminate)) as [A B].
      split; [eapply same_core_trans; [|exact A]; unfold same_core; cbn; tauto|rewrite B; reflexivity]. }
    destruct C2 as [C2 M2].
    assert (Hs2 : k_sent_close_time c2 = None).
    { destruct C1 as (_&_&_&_&_&S1&_). destruct C2 as (_&_&_&_&_&S2&_). congruence. }
    rewrite Hs2. destruct (zpos (c_close_timeout cf)); cbn [fst snd];
      (split; [reflexivity|split; [eapply same_core_trans; eauto|congruence]]).
  Qed.

  (* what the session does around one message event that is not a Close *)
  Lemma in_feed_yield_msg c e :
    k_sent_close_time c = None ->
    (match e with EvPing p => blen p <= 125 | EvClosing _ _ | EvClosed _ _ | EvReady _ _ => False | _ => True end) ->
    snd (in_feed_yield cf app c e) = SOk /\ same_core c (fst (in_feed_yield cf app c e)) /\
    msg_events (k_tr (fst (in_feed_yield cf app c e))) = (if is_msg_ev e then [e] else []) ++ msg_events (k_tr c).
  Proof.
    intros Hs He. unfold in_feed_yield.
    assert (O : exists c0, on_event cf c e = (c0, SOk) /\ same_core c c0 /\ msg_events (k_tr c0) = msg_events (k_tr c)).
    { destruct e; cbn [on_event]; try (eexists; split; [reflexivity|split; [apply same_core_refl|reflexivity]]); try contradiction.
      - destruct (c_auto_pong cf); [|eexists; split; [reflexivity|split; [apply same_core_refl|reflexivity]]].
        cbn [api_call]. replace (125 <? blen payload) with false by (symmetry; apply N.ltb_ge; exact He).
        destruct (send_frame_core c OP_PONG false payload ltac:(discriminate)) as [A B].
        pose proof (send_frame_no_value_error c OP_PONG false payload) as NV.
        destruct (send_frame c OP_PONG false payload) as [c0 r]. cbn [fst snd] in *.
        exists c0. split; [|split; assumption].
        destruct r as [x|]; [|reflexivity]. destruct x; try reflexivity. congruence.
      - eexists. split; [reflexivity|]. split; [unfold same_core; cbn; tauto|reflexivity]. }
    destruct O as (c0 & E0 & C0 & M0). rewrite E0.
    destruct (deliver_benign c0 e) as (c1 & E1 & C1 & M1). rewrite E1.
    assert (Hs1 : k_sent_close_time c1 = None).
    { destruct C0 as (_&_&_&_&_&S0&_). destruct C1 as (_&_&_&_&_&S1&_). congruence. }
    destruct (regular_quiet c1 Hs1) as (R1 & R2 & R3).
    destruct (regular cf app c1) as [c2 st2]. cbn [fst snd] in *. subst st2.
    split; [reflexivity|]. split.
    - eapply same_core_trans; [exact C0|]. eapply same_core_trans; [exact C1|exact R2].
    - rewrite R3, M1, M0. reflexivity.
  Qed.

  (* ---------- the same steps seen from the wire -- the frames the LIBRARY writes -- for an application that may send whatever
     it likes, when no automatic Ping is due (ping_rate = 0) ---------- *)
  Section Wire.
  Hypothesis rate0 : c_ping_rate cf = 0%Z.

  (* (kept for the proofs about applications that do nothing at all) *)
  Lemma deliver_passive (Pa : passive app) c e : deliver app c e = (emit (TEv e) c, SOk).
  Proof. unfold deliver. rewrite Pa. reflexivity. Qed.

  Lemma regular_writes c : k_sent_close_time c = None ->
    writes (k_tr (fst (regular cf app c))) = writes (k_tr c) /\ (wok c -> wok (fst (regular cf app c))).
  Proof.
    intros Hs. unfold regular. destruct (negb (k_ready c)); [auto|].
    rewrite no_ping_timeout, rate0. cbn [Z.eqb negb andb].
    set (t := session_time c).
    set (cp := c <| k_poll_start := Some t |>).
    assert (Dp : writes (k_tr (fst (deliver app cp EvPoll))) = writes (k_tr c) /\ (wok c -> wok (fst (deliver app cp EvPoll)))).
    { split; [rewrite deliver_writes; reflexivity|intros Hw; apply deliver_wok; exact Hw]. }
    assert (Sp : snd (deliver app cp EvPoll) = SOk /\ k_sent_close_time (fst (deliver app cp EvPoll)) = None).
    { destruct (deliver_benign cp EvPoll) as (c1 & E1 & (_&_&_&_&_&S6&_) & _). rewrite E1. cbn [fst snd]. split; [reflexivity|]. rewrite S6. exact Hs. }
    destruct (k_poll_start c) as [ps|]; [destruct (_ >=? _)%Z|].
    - destruct Dp as [D1 D2]. destruct Sp as [S1 S2]. destruct (deliver app cp EvPoll) as [c1 st1]. cbn [fst snd] in *. subst st1.
      rewrite S2. destruct (zpos (c_close_timeout cf)); cbn [fst]; auto.
    - rewrite Hs. destruct (zpos (c_close_timeout cf)); cbn [fst]; auto.
    - destruct Dp as [D1 D2]. destruct Sp as [S1 S2]. destruct (deliver app cp EvPoll) as [c1 st1]. cbn [fst snd] in *. subst st1.
      rewrite S2. destruct (zpos (c_close_timeout cf)); cbn [fst]; auto.
  Qed.

  Definition ev_reply (e : ev) : list (N * bytes) := match e with EvPing p => [(OP_PONG, p)] | _ => [] end.

  Lemma in_feed_yield_writes c e :
    c_auto_pong cf = true -> k_closed c = false -> k_closing c = false -> k_sent_close_time c = None -> wok c ->
    (match e with EvPing p => blen p <= 125 | EvClosing _ _ | EvClosed _ _ | EvReady _ _ => False | _ => True end) ->
    wok (fst (in_feed_yield cf app c e)) /\ writes (k_tr (fst (in_feed_yield cf app c e))) = ev_reply e ++ writes (k_tr c).
  Proof.
    intros Hauto Hcl Hcg Hs Hw He. unfold in_feed_yield.
    assert (O : exists c0, on_event cf c e = (c0, SOk) /\ wok c0 /\ writes (k_tr c0) = ev_reply e ++ writes (k_tr c) /\ k_sent_close_time c0 = None).
    { destruct e; cbn [on_event ev_reply]; try (eexists; split; [reflexivity|split; [exact Hw|split; [reflexivity|exact Hs]]]); try contradiction.
      - rewrite Hauto. cbn [api_call]. replace (125 <? blen payload) with false by (symmetry; apply N.ltb_ge; exact He).
        destruct (send_frame_ok c OP_PONG payload ltac:(discriminate) ltac:(reflexivity) ltac:(lia) Hcl Hcg Hw) as (c0 & E0 & W0 & K0).
        destruct (send_frame_core c OP_PONG false payload ltac:(discriminate)) as [(_&_&_&_&_&S6&_) _].
        rewrite E0 in *. cbn [fst] in S6. exists c0. split; [reflexivity|]. split; [exact K0|]. split; [exact W0|congruence]. }
    destruct O as (c0 & E0 & K0 & W0 & S0). rewrite E0.
    destruct (deliver_benign c0 e) as (c1 & E1 & (_&_&_&_&_&S6&_) & _).
    pose proof (deliver_writes c0 e) as DW. pose proof (deliver_wok c0 e K0) as DK. rewrite E1 in *. cbn [fst] in DW, DK.
    assert (Hs1 : k_sent_close_time c1 = None) by congruence.
    destruct (regular_writes c1 Hs1) as [R1 R2].
    destruct (regular_quiet c1 Hs1) as (Q1 & _).
    destruct (regular cf app c1) as [c2 st2]. cbn [fst snd] in *. subst st2.
    split; [apply R2; exact DK|]. rewrite R1, DW. exact W0.
  Qed.
  End Wire.
End Delivery.

(* ====================================================================================================== *)
(* the reference reading of a conforming frame list *)
Inductive smsg := SText (p : bytes) | SBinary (p : bytes) | SPing (p : bytes) | SPong (p : bytes).
Definition ev_of (m : smsg) : ev :=
  match m with SText p => EvText p | SBinary p => EvBinary p | SPing p => EvPing p | SPong p => EvPong p end.

(* the Pongs a message list calls for, and the statement "exactly these were written, the transport still works" *)
Definition pong_replies (ms : list smsg) : list (N * bytes) :=
  flat_map (fun m => match m with SPing p => [(OP_PONG, p)] | _ => [] end) ms.
Definition wfacts (cf : cfg) (c c1 : conn) (ms : list smsg) : Prop :=
  c_ping_rate cf = 0%Z -> c_auto_pong cf = true -> wok c ->
  wok c1 /\ writes (k_tr c1) = rev (pong_replies ms) ++ writes (k_tr c).
Lemma wfacts_refl cf c : wfacts cf c c [].
Proof. intros _ _ H. split; [exact H|reflexivity]. Qed.
Lemma wfacts_trans cf a b c ms1 ms2 : wfacts cf a b ms1 -> wfacts cf b c ms2 -> wfacts cf a c (ms1 ++ ms2).
Proof.
  intros H1 H2 R A W. destruct (H1 R A W) as [W1 E1]. destruct (H2 R A W1) as [W2 E2]. split; [exact W2|].
  rewrite E2, E1. unfold pong_replies. rewrite flat_map_app, rev_app_distr, app_assoc. reflexivity.
Qed.

Definition payload_of (fs : list frame) : bytes := concat (map f_payload fs).
Definition is_text_msg (fs : list frame) : bool := match fs with f :: _ => f_op f =? OP_TEXT | [] => false end.

(* one conforming frame, given the fragments of the data message that is open (oldest first).
   None = this is not a conforming continuation of the stream. *)
Definition ref1 (open : list frame) (f : frame) : option (list smsg * list frame) :=
  if negb ((f_op f <? 16) && (blen (f_payload f) <? 9223372036854775808)) then None
  else if validate_err false (hdr_of f) (blen (f_payload f)) then None
  else if f_op f =? OP_PING then Some ([SPing (f_payload f)], open)
  else if f_op f =? OP_PONG then Some ([SPong (f_payload f)], open)
  else if is_control (f_op f) then None                      (* Close is not part of this theorem *)
  else
    let cont := f_op f =? OP_CONT in
    match open with
    | [] => if cont then None else
            let fs := [f] in
            if is_text_msg fs then
              match uvalidate UAcc (payload_of fs) with
              | None => None
              | Some _ => if f_fin f then (if utf8_validb (payload_of fs) then Some ([SText (payload_of fs)], []) else None)
                          else Some ([], fs)
              end
            else if f_fin f then Some ([SBinary (payload_of fs)], []) else Some ([], fs)
    | _ :: _ => if negb cont then None else
            let fs := open ++ [f] in
            if is_text_msg fs then
              match uvalidate UAcc (payload_of fs) with
              | None => None
              | Some _ => if f_fin f then (if utf8_validb (payload_of fs) then Some ([SText (payload_of fs)], []) else None)
                          else Some ([], fs)
              end
            else if f_fin f then Some ([SBinary (payload_of fs)], []) else Some ([], fs)
    end.

Fixpoint ref_messages (open : list frame) (fs : list frame) : option (list smsg * list frame) :=
  match fs with
  | [] => Some ([], open)
  | f :: rest =>
      match ref1 open f with
      | None => None
      | Some (ms, open1) =>
          match ref_messages open1 rest with
          | None => None
          | Some (ms2, open2) => Some (ms ++ ms2, open2)
          end
      end
  end.

Fixpoint encode_all (fs : list frame) (lfs : list lenform) : bytes :=
  match fs, lfs with
  | f :: fs', lf :: lfs' => enc_frame f lf ++ encode_all fs' lfs'
  | _, _ => []
  end.
Fixpoint forms_ok (fs : list frame) (lfs : list lenform) : Prop :=
  match fs, lfs with
  | [], [] => True
  | f :: fs', lf :: lfs' => form_ok lf (blen (f_payload f)) = true /\ forms_ok fs' lfs'
  | _, _ => False
  end.

(* ====================================================================================================== *)
Section Delivery2.
  Variable cf : cfg.
  Variable app : strategy.
  Hypothesis app_benign : benign app.
  Hypothesis no_ping_timeout : zpos (c_ping_timeout cf) = None.

  (* the connection between two frames of a conforming stream: [open] = fragments of the open data message *)
  Definition idle (c : conn) (open : list frame) : Prop :=
    k_closed c = false /\ k_closing c = false /\ k_deflate c = None /\ k_sent_close_time c = None /\
    k_frames c = open /\ Forall (fun f => f_rsv1 f = false) open /\
    exists u, at_boundary (k_ps c) (is_text_msg open) u /\
              (if is_text_msg open then uvalidate UAcc (payload_of open) = Some u else u = UAcc).

  Lemma payload_of_app a b : payload_of (a ++ b) = payload_of a ++ payload_of b.
  Proof. unfold payload_of. rewrite map_app, concat_app. reflexivity. Qed.
  Lemma payload_of_one f : payload_of [f] = f_payload f.
  Proof. unfold payload_of. cbn. apply app_nil_r. Qed.

  (* a message event is yielded and the loop over the stream goes on, the core untouched *)
  Lemma yield_plain c e :
    k_sent_close_time c = None ->
    (match e with EvPing p => blen p <= 125 | EvClosing _ _ | EvClosed _ _ | EvReady _ _ => False | _ => True end) ->
    exists c1, feed_yield cf app c e (fun c1 => (c1, SOk)) = (c1, SOk) /\ same_core c c1 /\
               msg_events (k_tr c1) = (if is_msg_ev e then [e] else []) ++ msg_events (k_tr c) /\
               (c_ping_rate cf = 0%Z -> c_auto_pong cf = true -> k_closed c = false -> k_closing c = false -> wok c ->
                wok c1 /\ writes (k_tr c1) = ev_reply e ++ writes (k_tr c)).
  Proof.
    intros Hs He. unfold feed_yield.
    destruct (in_feed_yield_msg cf app app_benign no_ping_timeout c e Hs He) as (A & B & C).
    pose proof (fun r a cl cg w => in_feed_yield_writes cf app app_benign no_ping_timeout r c e a cl cg Hs w He) as D.
    destruct (in_feed_yield cf app c e) as [c1 st]. cbn [fst snd] in *. subst st. exists c1. auto.
  Qed.

  Lemma first_rsv1 fs f0 : Forall (fun f => f_rsv1 f = false) fs -> f_rsv1 (hd f0 fs) = f_rsv1 f0 \/ f_rsv1 (hd f0 fs) = false.
  Proof. intros H. destruct fs; [left; reflexivity|right; inversion H; auto]. Qed.

  (* build_message on uncompressed fragments *)
  Lemma build_plain c fs f0 rest : fs = f0 :: rest -> Forall (fun f => f_rsv1 f = false) fs ->
    build_message c fs =
      (c, let p := payload_of fs in
          let op := f_op f0 in
          if op =? OP_BINARY then inl (MBinary p)
          else if op =? OP_TEXT then (if utf8_validb p then inl (MText p) else inr MCritical)
          else if op =? OP_CLOSE then
            match p with
            | [] => inl (MClose None [])
            | [_] => inr MProtocol
            | a :: b :: reason => if utf8_validb reason then inl (MClose (Some (be_decode [a; b])) reason) else inr MCritical
            end
          else if op =? OP_PING then inl (MPing p)
          else if op =? OP_PONG then inl (MPong p)
          else inl MOther).
  Proof.
    intros -> H. inversion H as [|? ? H0 _]; subst. unfold build_message. cbn [hd]. rewrite H0.
    unfold payload_of. cbv zeta.
    repeat match goal with |- context [if ?b then _ else _] => destruct b end; try reflexivity;
      destruct (concat (map f_payload (f0 :: rest))) as [|a [|b r]]; try reflexivity; destruct (utf8_validb r); reflexivity.
  Qed.

  (* one conforming frame through WebsocketStream.feed and WebSocket.feed *)
  Definition data_head (open : list frame) : Prop :=
    match open with o :: _ => (f_op o =? OP_TEXT) || (f_op o =? OP_BINARY) = true | [] => True end.

  Theorem frame_step c open f ms open1 :
    k_closed c = false -> k_closing c = false -> k_deflate c = None -> k_sent_close_time c = None ->
    k_frames c = open -> Forall (fun f => f_rsv1 f = false) open -> data_head open -> f_rsv1 f = false ->
    ref1 open f = Some (ms, open1) ->
    exists c1, on_item cf app c (IFrame f) = (c1, SOk, FContinue) /\
               k_ps c1 = k_ps c /\ k_closed c1 = false /\ k_closing c1 = false /\ k_deflate c1 = None /\
               k_sent_close_time c1 = None /\ k_frames c1 = open1 /\ Forall (fun f => f_rsv1 f = false) open1 /\
               data_head open1 /\
               msg_events (k_tr c1) = rev (map ev_of ms) ++ msg_events (k_tr c) /\ k_sock c1 = k_sock c /\
               (wfacts cf c c1 ms).
  Proof.
    intros Hcl Hcg Hdf Hsc Hfr Hop Hdh Hr1 Href. unfold ref1 in Href.
    destruct (negb _) eqn:Eb; [discriminate|]. apply negb_false_iff in Eb. apply andb_true_iff in Eb as [Eop Elen].
    destruct (validate_err false (hdr_of f) (blen (f_payload f))) eqn:Ev; [discriminate|].
    assert (Control : forall e m, is_control (f_op f) = true -> build_message c [f] = (c, inl m) ->
              on_message cf app c m = (let '(c1, st) := feed_yield cf app c e (fun c1 => (c1, SOk)) in (c1, st, FContinue)) ->
              (match e with EvPing p => blen p <= 125 | EvClosing _ _ | EvClosed _ _ | EvReady _ _ => False | _ => True end) ->
              is_msg_ev e = true ->
              exists c1, on_item cf app c (IFrame f) = (c1, SOk, FContinue) /\
               k_ps c1 = k_ps c /\ k_closed c1 = false /\ k_closing c1 = false /\ k_deflate c1 = None /\
               k_sent_close_time c1 = None /\ k_frames c1 = open /\ Forall (fun f => f_rsv1 f = false) open /\
               data_head open /\
               msg_events (k_tr c1) = [e] ++ msg_events (k_tr c) /\ k_sock c1 = k_sock c /\
               (c_ping_rate cf = 0%Z -> c_auto_pong cf = true -> wok c -> wok c1 /\ writes (k_tr c1) = ev_reply e ++ writes (k_tr c))).
    { intros e m Hc Hb Hm He Hme. unfold on_item, stream_frame. rewrite Hc, Hb, Hm.
      destruct (yield_plain c e Hsc He) as (c1 & E1 & (S1&S2&S3&S4&S5&S6&S7&S8) & M1 & W1). rewrite E1, Hme in *.
      exists c1. split; [reflexivity|].
      assert (Wf : c_ping_rate cf = 0%Z -> c_auto_pong cf = true -> wok c -> wok c1 /\ writes (k_tr c1) = ev_reply e ++ writes (k_tr c))
        by (intros R A W; exact (W1 R A Hcl Hcg W)).
      repeat (split; [first [congruence | assumption]|]). exact Wf. }
    assert (Hctl125 : is_control (f_op f) = true -> blen (f_payload f) <= 125).
    { intros Hc. unfold validate_err in Ev. cbn [hdr_of h_op h_fin h_r1 h_r2 h_r3] in Ev. rewrite Hc in Ev.
      apply orb_false_iff in Ev as [_ Ev]. cbn [andb] in Ev. apply N.ltb_ge in Ev. exact Ev. }
    destruct (f_op f =? OP_PING) eqn:Eping.
    { apply N.eqb_eq in Eping. inversion Href; subst ms open1. clear Href.
      assert (Hc : is_control (f_op f) = true) by (rewrite Eping; reflexivity).
      destruct (Control (EvPing (f_payload f)) (MPing (f_payload f)) Hc) as (c1 & H); auto.
      - rewrite (build_plain c [f] f [] eq_refl ltac:(constructor; auto)). rewrite payload_of_one, Eping. reflexivity.
      - exists c1. exact H. }
    destruct (f_op f =? OP_PONG) eqn:Epong.
    { apply N.eqb_eq in Epong. inversion Href; subst ms open1. clear Href.
      assert (Hc : is_control (f_op f) = true) by (rewrite Epong; reflexivity).
      destruct (Control (EvPong (f_payload f)) (MPong (f_payload f)) Hc) as (c1 & H); auto.
      - rewrite (build_plain c [f] f [] eq_refl ltac:(constructor; auto)). rewrite payload_of_one, Epong. reflexivity.
      - exists c1. exact H. }
    destruct (is_control (f_op f)) eqn:Ectl; [discriminate|].
    (* data frames *)
    assert (Data : forall fs f0 rest0, fs = f0 :: rest0 -> Forall (fun f => f_rsv1 f = false) fs ->
              (f_op f0 =? OP_TEXT) = is_text_msg fs -> (f_op f0 =? OP_TEXT) || (f_op f0 =? OP_BINARY) = true ->
              forall c0, same_core c c0 -> k_tr c0 = k_tr c ->
              (if is_text_msg fs then
                 match uvalidate UAcc (payload_of fs) with
                 | None => None
                 | Some _ => if f_fin f then (if utf8_validb (payload_of fs) then Some ([SText (payload_of fs)], []) else None) else Some ([], fs)
                 end
               else if f_fin f then Some ([SBinary (payload_of fs)], []) else Some ([], fs)) = Some (ms, open1) ->
              f_fin f = true ->
              exists c1, (let '(c2, r) := build_message c0 fs in
                          match r with inl m => on_message cf app c2 m | inr e => let '(c3, st) := raise_in_feed cf app c2 e in (c3, st, FBreak) end)
                         = (c1, SOk, FContinue) /\ same_core c0 c1 /\ open1 = [] /\
                         msg_events (k_tr c1) = rev (map ev_of ms) ++ msg_events (k_tr c) /\ (wfacts cf c0 c1 ms)).
    { intros fs f0 rest0 Efs Hfs Htx Hkind c0 Hc0 Htr Hrf Hfin. rewrite Hfin in Hrf.
      rewrite (build_plain c0 fs f0 rest0 Efs Hfs). cbv zeta.
      assert (Hs0 : k_sent_close_time c0 = None) by (destruct Hc0 as (_&_&_&_&_&S&_); congruence).
      assert (Hcl0 : k_closed c0 = false) by (destruct Hc0 as (_&_&_&S&_); congruence).
      assert (Hcg0 : k_closing c0 = false) by (destruct Hc0 as (_&_&S&_); congruence).
      destruct (is_text_msg fs) eqn:Et.
      - rewrite Htx. replace (OP_TEXT =? OP_BINARY) with false by reflexivity.
        assert (Eb2 : (f_op f0 =? OP_BINARY) = false).
        { apply N.eqb_eq in Htx. rewrite Htx. reflexivity. }
        rewrite Eb2. destruct (uvalidate UAcc (payload_of fs)); [|discriminate].
        destruct (utf8_validb (payload_of fs)); [|discriminate]. inversion Hrf; subst ms open1.
        unfold on_message.
        destruct (yield_plain c0 (EvText (payload_of fs)) Hs0 I) as (c1 & E1 & S1 & M1 & W1). rewrite E1.
        exists c1. split; [reflexivity|]. split; [exact S1|]. split; [reflexivity|]. split; [rewrite M1, Htr; reflexivity|].
        intros R A W. exact (W1 R A Hcl0 Hcg0 W).
      - rewrite Htx in Hkind. cbn [orb] in Hkind. rewrite Hkind. inversion Hrf; subst ms open1.
        unfold on_message.
        destruct (yield_plain c0 (EvBinary (payload_of fs)) Hs0 I) as (c1 & E1 & S1 & M1 & W1). rewrite E1.
        exists c1. split; [reflexivity|]. split; [exact S1|]. split; [reflexivity|]. split; [rewrite M1, Htr; reflexivity|].
        intros R A W. exact (W1 R A Hcl0 Hcg0 W). }
    unfold on_item, stream_frame. rewrite Ectl, Hfr.
    destruct open as [|o0 orest].
    - (* first frame of a data message *)
      destruct (f_op f =? OP_CONT) eqn:Econt; [discriminate|]. cbn [negb] in *.
      assert (Hkind : (f_op f =? OP_TEXT) || (f_op f =? OP_BINARY) = true).
      { (* a non-reserved, non-control, non-continuation opcode below 16 is TEXT or BINARY *)
        unfold validate_err in Ev. cbn [hdr_of h_op] in Ev. apply orb_false_iff in Ev as [Ev _]. apply orb_false_iff in Ev as [Ev _].
        apply orb_false_iff in Ev as [_ Ev]. unfold is_reserved in Ev. unfold is_control in Ectl.
        apply N.ltb_lt in Eop. apply N.eqb_neq in Econt. apply N.leb_gt in Ectl.
        apply orb_false_iff in Ev as [Ev1 _]. apply andb_false_iff in Ev1.
        assert (f_op f = 1 \/ f_op f = 2) as [->| ->]; [|reflexivity|reflexivity].
        destruct Ev1 as [Ev1|Ev1]; [apply N.leb_gt in Ev1|apply N.leb_gt in Ev1]; unfold OP_CONT in *; lia. }
      destruct (f_fin f) eqn:Efin.
      + destruct (Data [f] f [] eq_refl ltac:(constructor; auto) eq_refl Hkind c (same_core_refl c) eq_refl Href eq_refl)
          as (c1 & E1 & (S1&S2&S3&S4&S5&S6&S7&S8) & -> & M1 & W1).
        exists c1. split; [exact E1|].
        repeat split; try congruence; try constructor; try exact I; try exact M1; try (apply W1; assumption).
      + (* a first fragment: parked, no event *)
        assert (Hopen : ms = [] /\ open1 = [f]).
        { cbn [is_text_msg] in Href. destruct (f_op f =? OP_TEXT); [destruct (uvalidate UAcc (payload_of [f])); [|discriminate]|];
            inversion Href; auto. }
        destruct Hopen as [-> ->]. eexists. split; [reflexivity|]. cbn. repeat split; auto; try (unfold wok, keys_ok in *; cbn; tauto).
    - (* a continuation frame *)
      destruct (f_op f =? OP_CONT) eqn:Econt; cbn [negb] in *; [|discriminate].
      inversion Hop as [|? ? Ho0 Horest]; subst.
      assert (Hall : Forall (fun f1 => f_rsv1 f1 = false) ((o0 :: orest) ++ [f])) by (apply Forall_app; split; [exact Hop|constructor; auto]).
      destruct (f_fin f) eqn:Efin.
      + (* the message completes *)
        set (c0 := c <| k_frames := [] |>).
        assert (Hc0 : same_core c c0 -> True) by auto.
        assert (Sc0 : k_ps c0 = k_ps c /\ k_closing c0 = k_closing c /\ k_closed c0 = k_closed c /\ k_deflate c0 = k_deflate c /\
                      k_sent_close_time c0 = k_sent_close_time c /\ k_ready c0 = k_ready c /\ k_tr c0 = k_tr c) by (cbn; tauto).
        (* Data is stated with same_core, which fixes k_frames: restate what it needs for c0 directly *)
        assert (Hs0 : k_sent_close_time c0 = None) by (cbn; exact Hsc).
        rewrite (build_plain c0 ((o0 :: orest) ++ [f]) o0 (orest ++ [f]) eq_refl Hall). cbv zeta.
        change (is_text_msg ((o0 :: orest) ++ [f])) with (f_op o0 =? OP_TEXT) in Href.
        cbn [data_head] in Hdh.
        destruct (f_op o0 =? OP_TEXT) eqn:Et.
        * assert (Eb2 : (f_op o0 =? OP_BINARY) = false) by (apply N.eqb_eq in Et; rewrite Et; reflexivity).
          rewrite Eb2. destruct (uvalidate UAcc (payload_of ((o0 :: orest) ++ [f]))); [|discriminate].
          destruct (utf8_validb (payload_of ((o0 :: orest) ++ [f]))); [|discriminate]. inversion Href; subst ms open1.
          unfold on_message.
          destruct (yield_plain c0 (EvText (payload_of ((o0 :: orest) ++ [f]))) Hs0 I) as (c1 & E1 & (S1&S2&S3&S4&S5&S6&S7&S8) & M1 & W1). rewrite E1.
          exists c1. split; [reflexivity|]. cbn in S1, S2, S3, S4, S5, S6, S8.
          assert (Wf : wok c -> c_ping_rate cf = 0%Z -> c_auto_pong cf = true -> wok c1 /\ writes (k_tr c1) = writes (k_tr c))
            by (intros W R A; exact (W1 R A Hcl Hcg W)).
          repeat split; try congruence; try constructor; try exact I; try (rewrite M1; reflexivity); try (apply Wf; assumption).
        * cbn [orb] in Hdh. rewrite Hdh. inversion Href; subst ms open1.
          unfold on_message.
          destruct (yield_plain c0 (EvBinary (payload_of ((o0 :: orest) ++ [f]))) Hs0 I) as (c1 & E1 & (S1&S2&S3&S4&S5&S6&S7&S8) & M1 & W1). rewrite E1.
          exists c1. split; [reflexivity|]. cbn in S1, S2, S3, S4, S5, S6, S8.
          assert (Wf : wok c -> c_ping_rate cf = 0%Z -> c_auto_pong cf = true -> wok c1 /\ writes (k_tr c1) = writes (k_tr c))
            by (intros W R A; exact (W1 R A Hcl Hcg W)).
          repeat split; try congruence; try constructor; try exact I; try (rewrite M1; reflexivity); try (apply Wf; assumption).
      + assert (Hopen : ms = [] /\ open1 = (o0 :: orest) ++ [f]).
        { change (is_text_msg ((o0 :: orest) ++ [f])) with (f_op o0 =? OP_TEXT) in Href.
          destruct (f_op o0 =? OP_TEXT); [destruct (uvalidate UAcc (payload_of ((o0 :: orest) ++ [f]))); [|discriminate]|];
            inversion Href; auto. }
        destruct Hopen as [-> ->]. eexists. split; [reflexivity|]. cbn. repeat split; auto; try (unfold wok, keys_ok in *; cbn; tauto).
  Qed.
End Delivery2.

(* ====================================================================================================== *)
(* the text bookkeeping of the parser follows the reference reading *)
Definition text_state (open : list frame) (u : ustate) : Prop :=
  if is_text_msg open then uvalidate UAcc (payload_of open) = Some u else u = UAcc.

Lemma payload_of_app' a b : payload_of (a ++ b) = payload_of a ++ payload_of b.
Proof. unfold payload_of. rewrite map_app, concat_app. reflexivity. Qed.
Lemma payload_of_one' f : payload_of [f] = f_payload f.
Proof. unfold payload_of. cbn. apply app_nil_r. Qed.

Lemma is_text_msg_app o rest f : is_text_msg ((o :: rest) ++ [f]) = is_text_msg (o :: rest).
Proof. reflexivity. Qed.

(* for a frame the reference accepts: the incremental validator accepts its payload from the current state, and the
   parser's flags after the frame describe the reference's new open message *)
Lemma ref1_parser open f ms open1 u :
  data_head open -> text_state open u -> ref1 open f = Some (ms, open1) ->
  exists u', (textual f (is_text_msg open) = true -> uvalidate u (f_payload f) = Some u') /\
             is_text_after f (is_text_msg open) = is_text_msg open1 /\
             text_state open1 (u_after f (is_text_msg open) u u').
Proof.
  intros Hdh Hts Href. unfold ref1 in Href.
  destruct (negb _) eqn:Eb; [discriminate|].
  destruct (validate_err false (hdr_of f) (blen (f_payload f))) eqn:Ev; [discriminate|].
  assert (Hfinctl : is_control (f_op f) = true -> f_fin f = true).
  { intros Hc. unfold validate_err in Ev. cbn [hdr_of h_op h_fin h_r1 h_r2 h_r3] in Ev. rewrite Hc in Ev.
    destruct (f_fin f); [reflexivity|]. cbn in Ev. rewrite orb_true_r in Ev. discriminate. }
  (* control frames: nothing changes *)
  assert (Ctl : is_control (f_op f) = true -> f_op f <> OP_TEXT -> f_op f <> OP_CONT -> open1 = open ->
          exists u', (textual f (is_text_msg open) = true -> uvalidate u (f_payload f) = Some u') /\
             is_text_after f (is_text_msg open) = is_text_msg open1 /\
             text_state open1 (u_after f (is_text_msg open) u u')).
  { intros Hc Hnt Hnc ->. exists u.
    assert (E1 : (f_op f =? OP_TEXT) = false) by (apply N.eqb_neq; exact Hnt).
    assert (E2 : (f_op f =? OP_CONT) = false) by (apply N.eqb_neq; exact Hnc).
    unfold textual, is_text_after, u_after, textual. rewrite E1, E2, Hc, (Hfinctl Hc). cbn [orb andb negb].
    split; [discriminate|]. split; [reflexivity|exact Hts]. }
  destruct (f_op f =? OP_PING) eqn:Eping.
  { apply N.eqb_eq in Eping. inversion Href; subst. apply Ctl; try reflexivity; rewrite Eping; try reflexivity; discriminate. }
  destruct (f_op f =? OP_PONG) eqn:Epong.
  { apply N.eqb_eq in Epong. inversion Href; subst. apply Ctl; try reflexivity; rewrite Epong; try reflexivity; discriminate. }
  destruct (is_control (f_op f)) eqn:Ectl; [discriminate|].
  (* the common tail of both data cases: fs = the fragments including this frame; prev = payload before this frame *)
  assert (Tail : forall (fs : list frame) (prev : bytes) (t : bool), payload_of fs = prev ++ f_payload f ->
            (if t then uvalidate UAcc prev = Some u else u = UAcc) ->
            t = is_text_msg fs -> fs <> [] ->
            (textual f (is_text_msg open) = t) ->
            (is_text_after f (is_text_msg open) = if f_fin f then false else t) ->
            (if is_text_msg fs then
               match uvalidate UAcc (payload_of fs) with
               | None => None
               | Some _ => if f_fin f then (if utf8_validb (payload_of fs) then Some ([SText (payload_of fs)], []) else None) else Some ([], fs)
               end
             else if f_fin f then Some ([SBinary (payload_of fs)], []) else Some ([], fs)) = Some (ms, open1) ->
            (f_fin f = true -> (f_op f =? OP_TEXT) || (f_op f =? OP_CONT) = true \/ t = false) ->
            exists u', (textual f (is_text_msg open) = true -> uvalidate u (f_payload f) = Some u') /\
               is_text_after f (is_text_msg open) = is_text_msg open1 /\
               text_state open1 (u_after f (is_text_msg open) u u')).
  { intros fs prev t Hpay Hu Ht Hne Htx Hita Hrf Hreset. rewrite <- Ht in Hrf. rewrite Htx, Hita.
    destruct t.
    - (* a text message *)
      rewrite Hpay, uvalidate_app, Hu in Hrf.
      destruct (uvalidate u (f_payload f)) as [u'|] eqn:Ev2; [|discriminate].
      exists u'. split; [intros _; reflexivity|].
      unfold u_after. rewrite Htx. destruct (f_fin f) eqn:Efin.
      + destruct (utf8_validb (prev ++ f_payload f)); [|discriminate]. inversion Hrf; subst.
        split; [reflexivity|]. unfold text_state. cbn [is_text_msg].
        destruct (Hreset eq_refl) as [Hr|Hr]; [rewrite Hr; reflexivity|discriminate].
      + inversion Hrf; subst. split; [exact Ht|].
        unfold text_state. rewrite <- Ht. cbn [andb]. rewrite Hpay, uvalidate_app, Hu.
        destruct (blen (f_payload f) =? 0) eqn:Ez; cbn [negb].
        * apply N.eqb_eq in Ez. assert (f_payload f = []) as -> by (unfold blen in Ez; destruct (f_payload f); [reflexivity|cbn in Ez; lia]).
          reflexivity.
        * exact Ev2.
    - (* a binary message *)
      exists u. split; [discriminate|]. unfold u_after. rewrite Htx. cbn [andb].
      destruct (f_fin f) eqn:Efin; inversion Hrf; subst.
      + split; [reflexivity|]. unfold text_state. cbn [is_text_msg].
        destruct ((f_op f =? OP_TEXT) || (f_op f =? OP_CONT)); reflexivity.
      + split; [exact Ht|]. unfold text_state. rewrite <- Ht. reflexivity. }
  destruct open as [|o0 orest].
  - destruct (f_op f =? OP_CONT) eqn:Econt; [discriminate|]. cbn [negb] in *.
    unfold text_state in Hts. cbn [is_text_msg] in Hts. subst u.
    apply (Tail [f] [] (f_op f =? OP_TEXT)); auto.
    + rewrite payload_of_one'. reflexivity.
    + destruct (f_op f =? OP_TEXT); reflexivity.
    + discriminate.
    + unfold textual. cbn [is_text_msg]. rewrite Econt. cbn [andb]. rewrite orb_false_r. reflexivity.
    + unfold is_text_after. cbn [is_text_msg]. rewrite Ectl. cbn [negb]. rewrite andb_true_r.
      destruct (f_fin f); [reflexivity|]. destruct (f_op f =? OP_TEXT); reflexivity.
    + intros _. destruct (f_op f =? OP_TEXT); [left; reflexivity|right; reflexivity].
  - destruct (f_op f =? OP_CONT) eqn:Econt; cbn [negb] in *; [|discriminate].
    assert (Hnt : (f_op f =? OP_TEXT) = false) by (apply N.eqb_eq in Econt; rewrite Econt; reflexivity).
    apply (Tail ((o0 :: orest) ++ [f]) (payload_of (o0 :: orest)) (is_text_msg (o0 :: orest))); auto.
    + rewrite payload_of_app', payload_of_one'. reflexivity.
    + discriminate.
    + unfold textual. rewrite Hnt, Econt. cbn [orb andb]. reflexivity.
    + unfold is_text_after. rewrite Hnt, Ectl. cbn [negb]. rewrite andb_true_r. destruct (f_fin f); reflexivity.
    + intros _. left. rewrite ?Econt. apply orb_true_r.
Qed.

(* ====================================================================================================== *)
(* C01, the whole stream: any sequence of frames the reference reading accepts, each in any legal length form *)
Section Delivery3.
  Variable cf : cfg.
  Variable app : strategy.
  Hypothesis app_benign : benign app.
  Hypothesis no_ping_timeout : zpos (c_ping_timeout cf) = None.

  Lemma at_boundary_ok s t u : at_boundary s t u -> fp_ok s.
  Proof. intros ->. unfold fp_ok, st_ok. cbn. lia. Qed.

  Lemma set_ps_same (c : conn) : c <| k_ps := k_ps c |> = c.
  Proof. destruct c; reflexivity. Qed.

  Lemma ref1_valid open f r : ref1 open f = Some r -> validate_err false (hdr_of f) (blen (f_payload f)) = false.
  Proof.
    unfold ref1. destruct (negb _); [discriminate|].
    destruct (validate_err false (hdr_of f) (blen (f_payload f))); [discriminate|reflexivity].
  Qed.

  Theorem deliver_frames fs : forall lfs c open ms open',
    idle c open -> data_head open -> Forall plain fs -> forms_ok fs lfs ->
    ref_messages open fs = Some (ms, open') ->
    exists c', feedf cf app c (encode_all fs lfs) = (c', SOk) /\ idle c' open' /\ data_head open' /\
               msg_events (k_tr c') = rev (map ev_of ms) ++ msg_events (k_tr c) /\ k_sock c' = k_sock c /\
               (wfacts cf c c' ms).
  Proof.
    induction fs as [|f rest IH]; intros lfs c open ms open' Hidle Hdh Hpl Hforms Href.
    - destruct lfs; [|contradiction]. cbn in Href. inversion Href; subst ms open'. cbn [encode_all].
      pose proof Hidle as (Hcl & _ & _ & _ & _ & _ & u & Hab & _).
      rewrite feedf_unfold by (eapply at_boundary_ok; exact Hab). unfold feed_body. rewrite Hcl.
      rewrite fp_pull_unfold by (eapply at_boundary_ok; exact Hab). unfold pull_body.
      rewrite set_ps_same. exists c. split; [reflexivity|]. split; [exact Hidle|]. split; [exact Hdh|].
      split; [reflexivity|]. split; [reflexivity|apply wfacts_refl].
    - destruct lfs as [|lf lfs]; [contradiction|]. destruct Hforms as [Hform Hforms].
      inversion Hpl as [|? ? Hpf Hprest]; subst.
      cbn [ref_messages] in Href.
      destruct (ref1 open f) as [[ms1 open1]|] eqn:E1; [|discriminate].
      destruct (ref_messages open1 rest) as [[ms2 open2]|] eqn:E2; [|discriminate].
      inversion Href; subst ms open'. clear Href.
      destruct Hidle as (Hcl & Hcg & Hdf & Hsc & Hfr & Hrs & u & Hab & Hu).
      destruct (ref1_parser open f ms1 open1 u Hdh Hu E1) as (u' & Hval & Hita & Hts).
      destruct (pull_one_frame (k_ps c) (is_text_msg open) u f lf (encode_all rest lfs) u' Hab Hpf Hform
                  (ref1_valid _ _ _ E1) Hval) as (s' & Hpull & Hab').
      cbn [encode_all].
      rewrite feedf_unfold by (eapply at_boundary_ok; exact Hab). unfold feed_body. rewrite Hcl, Hpull.
      destruct (frame_step cf app app_benign no_ping_timeout (c <| k_ps := s' |>) open f ms1 open1)
        as (c1 & Eitem & S1 & S2 & S3 & S4 & S5 & S6 & S7 & S8 & S9 & S10 & S11); auto.
      { destruct Hpf as (A & _). exact A. }
      rewrite Eitem.
      destruct (IH lfs c1 open1 ms2 open2) as (c' & Efeed & Hidle' & Hdh' & Hmsgs & Hsock & Hw'); auto.
      { unfold idle. repeat split; auto. exists (u_after f (is_text_msg open) u u'). split.
        - rewrite S1. cbn. rewrite <- Hita. exact Hab'.
        - exact Hts. }
      assert (S11' : wfacts cf c c1 ms1) by exact S11.
      exists c'. split; [exact Efeed|]. split; [exact Hidle'|]. split; [exact Hdh'|].
      split; [|split; [rewrite Hsock, S10; reflexivity|eapply wfacts_trans; [exact S11'|exact Hw']]].
      rewrite Hmsgs, S9. cbn. rewrite map_app, rev_app_distr, app_assoc. reflexivity.
  Qed.

  Lemma idle_ok c open : idle c open -> fp_ok (k_ps c).
  Proof. intros (_ & _ & _ & _ & _ & _ & u & Hab & _). eapply at_boundary_ok; exact Hab. Qed.

  (* ... and however the bytes are cut into reads *)
  Corollary deliver_frames_chunked fs lfs ds c open ms open' :
    idle c open -> data_head open -> Forall plain fs -> forms_ok fs lfs ->
    ref_messages open fs = Some (ms, open') -> concat ds = encode_all fs lfs ->
    exists c', feed_chunks cf app c ds = (c', SOk) /\ idle c' open' /\ data_head open' /\
               msg_events (k_tr c') = rev (map ev_of ms) ++ msg_events (k_tr c) /\ k_sock c' = k_sock c /\
               (wfacts cf c c' ms).
  Proof.
    intros Hi Hd Hp Hf Hr Hc. rewrite feed_chunks_concat by (eapply idle_ok; exact Hi). rewrite Hc.
    eapply deliver_frames; eauto.
  Qed.
  (* C14 for a whole stream: exactly one Pong per Ping, with the Ping's payload, in the order the Pings arrived, and nothing
     else is written by the library -- whatever the fragmentation, the interleaving and the cut into reads *)
  Corollary pongs_in_order fs lfs ds c open ms open' :
    c_auto_pong cf = true -> c_ping_rate cf = 0%Z ->
    idle c open -> data_head open -> Forall plain fs -> forms_ok fs lfs ->
    ref_messages open fs = Some (ms, open') -> concat ds = encode_all fs lfs -> wok c ->
    exists c', feed_chunks cf app c ds = (c', SOk) /\ wok c' /\ writes (k_tr c') = rev (pong_replies ms) ++ writes (k_tr c).
  Proof.
    intros Ha Hr Hi Hd Hp Hf Href Hc Hw.
    destruct (deliver_frames_chunked fs lfs ds c open ms open' Hi Hd Hp Hf Href Hc) as (c' & E & _ & _ & _ & _ & W).
    destruct (W Hr Ha Hw) as [W1 W2]. exists c'. auto.
  Qed.
End Delivery3.

Corollary pongs_in_order_passive cf app : passive app -> zpos (c_ping_timeout cf) = None ->
  forall fs lfs ds c open ms open',
  c_auto_pong cf = true -> c_ping_rate cf = 0%Z ->
  idle c open -> data_head open -> Forall plain fs -> forms_ok fs lfs ->
  ref_messages open fs = Some (ms, open') -> concat ds = encode_all fs lfs -> wok c ->
  exists c', feed_chunks cf app c ds = (c', SOk) /\ wok c' /\ writes (k_tr c') = rev (pong_replies ms) ++ writes (k_tr c).
Proof.
  intros Pa Hz fs lfs ds c open ms open' Ha Hr Hi Hd Hp Hf Href Hc Hw.
  exact (pongs_in_order cf app (passive_benign app Pa) Hz fs lfs ds c open ms open' Ha Hr Hi Hd Hp Hf Href Hc Hw).
Qed.

(* ... hence, in everything the client put on the wire -- the application's own frames included -- the Pongs are there, in the
   order of the Pings *)
Corollary pongs_among_all_writes cf app : benign app -> zpos (c_ping_timeout cf) = None ->
  forall fs lfs ds c open ms open',
  c_auto_pong cf = true -> c_ping_rate cf = 0%Z ->
  idle c open -> data_head open -> Forall plain fs -> forms_ok fs lfs ->
  ref_messages open fs = Some (ms, open') -> concat ds = encode_all fs lfs -> wok c ->
  exists c', feed_chunks cf app c ds = (c', SOk) /\ subseq (rev (pong_replies ms) ++ writes (k_tr c)) (all_writes (k_tr c')).
Proof.
  intros Hb Hz fs lfs ds c open ms open' Ha Hr Hi Hd Hp Hf Href Hc Hw.
  destruct (pongs_in_order cf app Hb Hz fs lfs ds c open ms open' Ha Hr Hi Hd Hp Hf Href Hc Hw) as (c' & E & _ & W).
  exists c'. split; [exact E|]. rewrite <- W. apply writes_subseq.
Qed.

(* an application that answers every text message with two frames of its own and every Ping with a Ping is such an application *)
Definition chatty : strategy := fun tr =>
  match tr with
  | TEv (EvText p) :: _ => [ACall (CSendText p false); ACall (CSendBinary p true)]
  | TEv (EvPing p) :: _ => [ACall (CSendPing p)]
  | _ => []
  end.
Lemma chatty_benign : benign chatty.
Proof.
  intros tr. unfold chatty. destruct tr as [|[e| | | | | | | | | |] r]; try constructor.
  destruct e; repeat constructor.
Qed.
Lemma chatty_not_passive : ~ passive chatty.
Proof. intros H. specialize (H [TEv (EvPing [])]). discriminate. Qed.


(* ====================================================================================================== *)
(* C01 at the level of the event loop: reads that cut the stream anywhere (also inside a frame), any waiting times,
   idle timeouts, polls and automatic pings in between *)

(* a proper prefix of a frame's bytes parks the parser *)
Lemma pull_prefix_needmore s0 t u f lf a b u' :
  at_boundary s0 t u -> plain f -> form_ok lf (blen (f_payload f)) = true ->
  validate_err false (hdr_of f) (blen (f_payload f)) = false ->
  (textual f t = true -> uvalidate u (f_payload f) = Some u') ->
  enc_frame f lf = a ++ b -> b <> [] ->
  exists sa, fp_pull s0 a = NeedMore sa.
Proof.
  intros Hb Hp Hf Hv Hu E Hne.
  destruct (pull_one_frame s0 t u f lf [] u' Hb Hp Hf Hv Hu) as (s' & Hpull & _).
  rewrite app_nil_r, E in Hpull.
  assert (Hok : fp_ok s0) by (rewrite Hb; unfold fp_ok, st_ok; cbn; lia).
  rewrite fp_pull_split in Hpull by exact Hok.
  destruct (fp_pull s0 a) as [x s1 r1|sa|e]; cbn [out_app] in Hpull.
  - injection Hpull as _ _ Hr. destruct r1; [|discriminate]. cbn in Hr. congruence.
  - eauto.
  - discriminate.
Qed.

Lemma pull_resume s0 a sa x : fp_ok s0 -> fp_pull s0 a = NeedMore sa -> fp_pull sa x = fp_pull s0 (a ++ x).
Proof. intros Hok H. rewrite fp_pull_split by exact Hok. rewrite H. reflexivity. Qed.

Section Delivery4.
  Variable cf : cfg.
  Variable app : strategy.
  Hypothesis app_benign : benign app.
  Hypothesis no_ping_timeout : zpos (c_ping_timeout cf) = None.

  (* the connection somewhere in a conforming stream: [a] = the bytes of the first remaining frame already consumed *)
  Definition mid (c : conn) (open : list frame) (fs : list frame) (lfs : list lenform) (a : bytes) : Prop :=
    k_closed c = false /\ k_closing c = false /\ k_deflate c = None /\ k_sent_close_time c = None /\
    k_frames c = open /\ Forall (fun f => f_rsv1 f = false) open /\
    exists s0 u, at_boundary s0 (is_text_msg open) u /\ text_state open u /\ fp_pull s0 a = NeedMore (k_ps c) /\
                 (a = [] \/ exists f lf fs' lfs' b, fs = f :: fs' /\ lfs = lf :: lfs' /\ enc_frame f lf = a ++ b /\ b <> []).

  Lemma mid_of_idle c open fs lfs : idle c open -> mid c open fs lfs [].
  Proof.
    intros (A1 & A2 & A3 & A4 & A5 & A6 & u & Hb & Hu). unfold mid. repeat (split; [assumption|]).
    exists (k_ps c), u. repeat split; auto.
  Qed.
  Lemma idle_of_mid c open fs lfs : mid c open fs lfs [] -> idle c open.
  Proof.
    intros (A1 & A2 & A3 & A4 & A5 & A6 & s0 & u & Hb & Hu & Hp & _). unfold idle. repeat (split; [assumption|]).
    exists u. split; [|exact Hu]. change (fp_pull s0 []) with (NeedMore (item:=pitem) (err:=perr) s0) in Hp. injection Hp as <-. exact Hb.
  Qed.

  Lemma mid_same_core c c' open fs lfs a : same_core c c' -> mid c open fs lfs a -> mid c' open fs lfs a.
  Proof.
    intros (S1&S2&S3&S4&S5&S6&S7&S8) (A1 & A2 & A3 & A4 & A5 & A6 & s0 & u & Hb & Hu & Hp & Ha). unfold mid.
    repeat split; try congruence. exists s0, u. rewrite S1. auto.
  Qed.

  Definition remaining (fs : list frame) (lfs : list lenform) (a : bytes) : bytes := skipn (length a) (encode_all fs lfs).

  Theorem feed_chunk fs : forall lfs d c open a ms open' rem',
    mid c open fs lfs a -> data_head open -> Forall plain fs -> forms_ok fs lfs ->
    ref_messages open fs = Some (ms, open') -> remaining fs lfs a = d ++ rem' ->
    exists c' open1 fs1 lfs1 a1 ms1 ms2,
      feedf cf app c d = (c', SOk) /\ mid c' open1 fs1 lfs1 a1 /\ data_head open1 /\ Forall plain fs1 /\ forms_ok fs1 lfs1 /\
      ref_messages open1 fs1 = Some (ms2, open') /\ ms = ms1 ++ ms2 /\ remaining fs1 lfs1 a1 = rem' /\
      msg_events (k_tr c') = rev (map ev_of ms1) ++ msg_events (k_tr c) /\ k_sock c' = k_sock c.
  Proof.
    induction fs as [|f fs' IH]; intros lfs d c open a ms open' rem' Hmid Hdh Hpl Hforms Href Hrem.
    - (* nothing is left of the stream *)
      destruct lfs; [|contradiction].
      assert (Ha : a = []).
      { destruct Hmid as (_&_&_&_&_&_&s0&u&_&_&_&[Ha|(f&lf&fs'&lfs'&b&E&_)]); [exact Ha|discriminate]. }
      subst a. unfold remaining in Hrem. cbn in Hrem. destruct d; [|discriminate]. cbn in Hrem. subst rem'.
      pose proof (idle_of_mid _ _ _ _ Hmid) as Hidle.
      exists c, open, [], [], [], [], ms.
      split.
      { rewrite feedf_unfold by (eapply idle_ok; exact Hidle). unfold feed_body.
        destruct Hidle as (Hcl & _). rewrite Hcl. change (fp_pull (k_ps c) []) with (NeedMore (item:=pitem) (err:=perr) (k_ps c)). cbv beta iota.
        rewrite set_ps_same. reflexivity. }
      split; [exact Hmid|]. split; [exact Hdh|]. split; [constructor|]. split; [exact I|]. split; [exact Href|].
      repeat split; reflexivity.
    - destruct lfs as [|lf lfs']; [contradiction|]. destruct Hforms as [Hform Hforms].
      inversion Hpl as [|? ? Hpf Hprest]; subst.
      cbn [ref_messages] in Href.
      destruct (ref1 open f) as [[ms1 open1]|] eqn:E1; [|discriminate].
      destruct (ref_messages open1 fs') as [[ms2 open2]|] eqn:E2; [|discriminate].
      inversion Href; subst ms open'. clear Href.
      destruct Hmid as (Hcl & Hcg & Hdf & Hsc & Hfr & Hrs & s0 & u & Hb & Hu & Hp & Ha).
      destruct (ref1_parser open f ms1 open1 u Hdh Hu E1) as (u' & Hval & Hita & Hts).
      assert (Hok0 : fp_ok s0) by (rewrite Hb; unfold fp_ok, st_ok; cbn; lia).
      pose proof (ref1_valid _ _ _ E1) as Hv.
      (* b = what is left of the first frame *)
      assert (Hb' : exists b, enc_frame f lf = a ++ b /\ b <> []).
      { destruct Ha as [->|(f0&lf0&fs0&lfs0&b&Ef&El&Eb&Hne)].
        - exists (enc_frame f lf). split; [reflexivity|]. unfold enc_frame. discriminate.
        - injection Ef as <- <-. injection El as <- <-. exists b. auto. }
      destruct Hb' as (b & Eb & Hbne).
      assert (Hrem' : b ++ encode_all fs' lfs' = d ++ rem').
      { unfold remaining in Hrem. cbn [encode_all] in Hrem. rewrite Eb, <- app_assoc, skipn_app, skipn_all, Nat.sub_diag in Hrem. exact Hrem. }
      apply app_eq_app in Hrem' as (l & [[Ebd Erem]|[Edb Eenc]]).
      + destruct l as [|l0 l].
        * (* the read ends exactly at the end of the frame *)
          rewrite app_nil_r in Ebd. subst d. cbn [List.app] in Erem. subst rem'.
          destruct (pull_one_frame s0 (is_text_msg open) u f lf [] u' Hb Hpf Hform Hv Hval) as (s' & Hpull & Hab').
          rewrite app_nil_r, Eb in Hpull. rewrite <- (pull_resume s0 a (k_ps c) b Hok0 Hp) in Hpull.
          assert (Hokc : fp_ok (k_ps c)) by (pose proof (fp_pull_ok s0 a Hok0) as H; rewrite Hp in H; exact H).
          rewrite feedf_unfold by exact Hokc. unfold feed_body. rewrite Hcl, Hpull.
          destruct (frame_step cf app app_benign no_ping_timeout (c <| k_ps := s' |>) open f ms1 open1)
            as (c1 & Eitem & S1 & S2 & S3 & S4 & S5 & S6 & S7 & S8 & S9 & S10 & _); auto.
          { destruct Hpf as (A & _). exact A. }
          rewrite Eitem.
          assert (Hidle1 : idle c1 open1).
          { unfold idle. repeat split; auto. exists (u_after f (is_text_msg open) u u'). split; [|exact Hts].
            rewrite S1. cbn. rewrite <- Hita. exact Hab'. }
          exists c1, open1, fs', lfs', [], ms1, ms2.
          split.
          { rewrite feedf_unfold by (eapply idle_ok; exact Hidle1). unfold feed_body. rewrite S2.
            change (fp_pull (k_ps c1) []) with (NeedMore (item:=pitem) (err:=perr) (k_ps c1)). cbv beta iota. rewrite set_ps_same. reflexivity. }
          split; [apply mid_of_idle; exact Hidle1|]. repeat split; auto.
        * (* the read ends inside the frame *)
          assert (Eenc : enc_frame f lf = (a ++ d) ++ (l0 :: l)) by (rewrite Eb, Ebd, app_assoc; reflexivity).
          destruct (pull_prefix_needmore s0 (is_text_msg open) u f lf (a ++ d) (l0 :: l) u' Hb Hpf Hform Hv Hval Eenc ltac:(discriminate)) as (sa & Hsa).
          rewrite <- (pull_resume s0 a (k_ps c) d Hok0 Hp) in Hsa.
          assert (Hokc : fp_ok (k_ps c)) by (pose proof (fp_pull_ok s0 a Hok0) as H; rewrite Hp in H; exact H).
          exists (c <| k_ps := sa |>), open, (f :: fs'), (lf :: lfs'), (a ++ d), [], (ms1 ++ ms2).
          split; [rewrite feedf_unfold by exact Hokc; unfold feed_body; rewrite Hcl, Hsa; reflexivity|].
          split.
          { unfold mid. cbn. repeat (split; [assumption|]). exists s0, u. repeat split; auto.
            - rewrite (pull_resume s0 a (k_ps c) d Hok0 Hp) in Hsa. exact Hsa.
            - right. exists f, lf, fs', lfs', (l0 :: l). repeat split; auto. discriminate. }
          split; [exact Hdh|]. split; [exact Hpl|]. split; [split; assumption|].
          split; [cbn [ref_messages]; rewrite E1, E2; reflexivity|]. split; [reflexivity|].
          split; [|split; reflexivity].
          unfold remaining. cbn [encode_all]. rewrite Eenc, <- app_assoc, skipn_app, skipn_all, Nat.sub_diag. cbn [skipn List.app]. rewrite Erem. reflexivity.
      + (* the read goes beyond this frame *)
        subst d.
        destruct (pull_one_frame s0 (is_text_msg open) u f lf (l ++ rem') u' Hb Hpf Hform Hv Hval) as (s' & Hpull & Hab').
        assert (Hpull2 : fp_pull (k_ps c) (b ++ l) = Item (IFrame f) s' l).
        { destruct (pull_one_frame s0 (is_text_msg open) u f lf l u' Hb Hpf Hform Hv Hval) as (s2 & Hpull2 & Hab2).
          rewrite Eb, <- app_assoc in Hpull2. rewrite <- (pull_resume s0 a (k_ps c) (b ++ l) Hok0 Hp) in Hpull2.
          rewrite Hab2 in Hpull2. rewrite Hab'. exact Hpull2. }
        assert (Hokc : fp_ok (k_ps c)) by (pose proof (fp_pull_ok s0 a Hok0) as H; rewrite Hp in H; exact H).
        destruct (frame_step cf app app_benign no_ping_timeout (c <| k_ps := s' |>) open f ms1 open1)
          as (c1 & Eitem & S1 & S2 & S3 & S4 & S5 & S6 & S7 & S8 & S9 & S10 & _); auto.
        { destruct Hpf as (A & _). exact A. }
        assert (Hidle1 : idle c1 open1).
        { unfold idle. repeat split; auto. exists (u_after f (is_text_msg open) u u'). split; [|exact Hts].
          rewrite S1. cbn. rewrite <- Hita. exact Hab'. }
        destruct (IH lfs' l c1 open1 [] ms2 open2 rem' (mid_of_idle _ _ _ _ Hidle1) S8 Hprest Hforms E2)
          as (c' & open3 & fs3 & lfs3 & a3 & m3 & m4 & Efeed & Hmid3 & Hdh3 & Hpl3 & Hf3 & Href3 & Ems & Hrem3 & Hmsgs & Hsock).
        { unfold remaining. cbn [length skipn]. exact Eenc. }
        exists c', open3, fs3, lfs3, a3, (ms1 ++ m3), m4.
        split; [rewrite feedf_unfold by exact Hokc; unfold feed_body; rewrite Hcl, Hpull2, Eitem; exact Efeed|].
        split; [exact Hmid3|]. split; [exact Hdh3|]. split; [exact Hpl3|]. split; [exact Hf3|]. split; [exact Href3|].
        split; [rewrite Ems, app_assoc; reflexivity|]. split; [exact Hrem3|]. split.
        * rewrite Hmsgs, S9. cbn. rewrite map_app, rev_app_distr, app_assoc. reflexivity.
        * rewrite Hsock, S10. reflexivity.
  Qed.
End Delivery4.

Section Delivery5.
  Variable cf : cfg.
  Variable app : strategy.
  Hypothesis app_benign : benign app.
  Hypothesis no_ping_timeout : zpos (c_ping_timeout cf) = None.

  (* a quiet environment: time passes, the selector times out, or a read returns the next bytes of the stream *)
  Definition quiet_step (st : step) : Prop :=
    match st with StTimeout _ => True | StRead _ (RData (_ :: _)) => True | _ => False end.
  Fixpoint reads_of (steps : list step) : list bytes :=
    match steps with
    | [] => []
    | StRead _ (RData d) :: r => d :: reads_of r
    | _ :: r => reads_of r
    end.

  Lemma advance_core c dt : same_core c (advance c dt) /\ msg_events (k_tr (advance c dt)) = msg_events (k_tr c).
  Proof. split; [unfold same_core; cbn; tauto|reflexivity]. Qed.

  (* housekeeping between two reads *)
  Lemma tick_quiet c dt : k_sent_close_time c = None ->
    exists c1, regular cf app (advance c dt) = (c1, SOk) /\ same_core c c1 /\ msg_events (k_tr c1) = msg_events (k_tr c).
  Proof.
    intros Hs. destruct (advance_core c dt) as [A M].
    assert (Hs' : k_sent_close_time (advance c dt) = None) by exact Hs.
    destruct (regular_quiet cf app app_benign no_ping_timeout (advance c dt) Hs') as (R1 & R2 & R3).
    destruct (regular cf app (advance c dt)) as [c1 st]. cbn [fst snd] in *. subst st.
    exists c1. split; [reflexivity|]. split; [exact (same_core_trans _ _ _ A R2)|congruence].
  Qed.

  Theorem loop_delivers steps : forall c open fs lfs a ms open' rem',
    Forall quiet_step steps -> mid c open fs lfs a -> data_head open -> k_sock c = true ->
    Forall plain fs -> forms_ok fs lfs -> ref_messages open fs = Some (ms, open') ->
    remaining fs lfs a = concat (reads_of steps) ++ rem' ->
    exists c' open1 fs1 lfs1 a1 ms1 ms2,
      loop cf app steps c = emit TBlocked c' /\ mid c' open1 fs1 lfs1 a1 /\ forms_ok fs1 lfs1 /\
      ref_messages open1 fs1 = Some (ms2, open') /\ ms = ms1 ++ ms2 /\ remaining fs1 lfs1 a1 = rem' /\
      msg_events (k_tr c') = rev (map ev_of ms1) ++ msg_events (k_tr c).
  Proof.
    induction steps as [|st rest IH]; intros c open fs lfs a ms open' rem' Hq Hmid Hdh Hsock Hpl Hforms Href Hrem.
    - cbn [loop]. destruct Hmid as (Hcl & Hmid'). rewrite Hcl. cbn [reads_of concat List.app] in Hrem.
      exists c, open, fs, lfs, a, [], ms. split; [reflexivity|]. split; [split; assumption|]. repeat split; auto.
    - inversion Hq as [|? ? Hst Hrest]; subst.
      pose proof Hmid as (Hcl & _ & _ & Hsc & _).
      cbn [loop]. rewrite Hcl.
      destruct st as [dt|dt r|dt]; try contradiction.
      + (* an idle timeout *)
        destruct (tick_quiet c dt Hsc) as (c1 & E1 & C1 & M1). rewrite E1.
        assert (Hsock1 : k_sock c1 = true) by (destruct C1 as (_&_&_&_&_&_&_&S8); congruence).
        destruct (IH c1 open fs lfs a ms open' rem' Hrest (mid_same_core c c1 open fs lfs a C1 Hmid) Hdh Hsock1 Hpl Hforms Href Hrem)
          as (c' & open1 & fs1 & lfs1 & a1 & ms1 & ms2 & El & Hm & Hfo & Hr & Ems & Hre & Hmsg).
        exists c', open1, fs1, lfs1, a1, ms1, ms2.
        split; [exact El|]. split; [exact Hm|]. split; [exact Hfo|]. split; [exact Hr|]. split; [exact Ems|]. split; [exact Hre|].
        rewrite Hmsg, M1. reflexivity.
      + (* a read *)
        destruct r as [d| | |]; try contradiction. destruct d as [|b0 d]; [contradiction|].
        destruct (tick_quiet c dt Hsc) as (c1 & E1 & C1 & M1). rewrite E1.
        assert (Hsock1 : k_sock c1 = true) by (destruct C1 as (_&_&_&_&_&_&_&S8); congruence).
        rewrite Hsock1.
        cbn [reads_of concat] in Hrem. rewrite <- app_assoc in Hrem.
        destruct (feed_chunk cf app app_benign no_ping_timeout fs lfs (b0 :: d) c1 open a ms open' _
                    (mid_same_core c c1 open fs lfs a C1 Hmid) Hdh Hpl Hforms Href Hrem)
          as (c2 & open2 & fs2 & lfs2 & a2 & m1 & m2 & Ef & Hmid2 & Hdh2 & Hpl2 & Hf2 & Href2 & Ems2 & Hrem2 & Hmsg2 & Hsock2).
        rewrite Ef.
        destruct (IH c2 open2 fs2 lfs2 a2 m2 open' rem' Hrest Hmid2 Hdh2 ltac:(congruence) Hpl2 Hf2 Href2 Hrem2)
          as (c' & open3 & fs3 & lfs3 & a3 & m3 & m4 & El & Hm & Hfo & Hr & Ems & Hre & Hmsg).
        exists c', open3, fs3, lfs3, a3, (m1 ++ m3), m4.
        split; [exact El|]. split; [exact Hm|]. split; [exact Hfo|]. split; [exact Hr|]. split; [rewrite Ems2, Ems, app_assoc; reflexivity|].
        split; [exact Hre|]. rewrite Hmsg, Hmsg2, M1, map_app, rev_app_distr, app_assoc. reflexivity.
  Qed.

  (* when the reads deliver the whole stream, every message of the reference reading has been yielded *)
  Lemma enc_frame_nonempty f lf : enc_frame f lf <> [].
  Proof. unfold enc_frame. discriminate. Qed.

  Corollary loop_delivers_all steps c open fs lfs ms open' :
    Forall quiet_step steps -> idle c open -> data_head open -> k_sock c = true ->
    Forall plain fs -> forms_ok fs lfs -> ref_messages open fs = Some (ms, open') ->
    encode_all fs lfs = concat (reads_of steps) ->
    exists c', loop cf app steps c = emit TBlocked c' /\ idle c' open' /\
               msg_events (k_tr c') = rev (map ev_of ms) ++ msg_events (k_tr c).
  Proof.
    intros Hq Hidle Hdh Hsock Hpl Hforms Href Henc.
    destruct (loop_delivers steps c open fs lfs [] ms open' [] Hq (mid_of_idle c open fs lfs Hidle) Hdh Hsock Hpl Hforms Href)
      as (c' & open1 & fs1 & lfs1 & a1 & ms1 & ms2 & El & Hm & Hfo & Hr & Ems & Hre & Hmsg).
    { unfold remaining. cbn [length skipn]. rewrite app_nil_r. exact Henc. }
    (* nothing remains: no frame is left and none is half read *)
    assert (Hnil : fs1 = [] /\ a1 = []).
    { destruct Hm as (_&_&_&_&_&_&s0&u&_&_&_&Ha). unfold remaining in Hre.
      destruct Ha as [->|(f&lf&fs'&lfs'&b&E1&E2&E3&Hne)].
      - split; [|reflexivity]. cbn [length skipn] in Hre. destruct fs1 as [|f fs1]; [reflexivity|].
        destruct lfs1 as [|lf lfs1]; [contradiction|].
        cbn [encode_all] in Hre. exfalso. pose proof (enc_frame_nonempty f lf) as Hn. destruct (enc_frame f lf); [congruence|discriminate].
      - exfalso. subst fs1 lfs1. cbn [encode_all] in Hre. rewrite E3, <- app_assoc, skipn_app, skipn_all, Nat.sub_diag in Hre.
        cbn [skipn List.app] in Hre. destruct b; [congruence|discriminate]. }
    destruct Hnil as [-> ->]. cbn in Hr. injection Hr as <- <-. rewrite app_nil_r in Ems. subst ms1.
    exists c'. split; [exact El|]. split; [eapply idle_of_mid; exact Hm|exact Hmsg].
  Qed.
End Delivery5.

(* ====================================================================================================== *)
(* from the very start of a connection attempt: the upgrade reply, then the stream *)
Section Delivery6.
  Variable cf : cfg.
  Variable app : strategy.
  Hypothesis app_passive : passive app.
  Hypothesis no_ping_timeout : zpos (c_ping_timeout cf) = None.

  (* a reply block: nothing after its terminating CRLFCRLF, which occurs only at the end, at most 16 KiB *)
  Definition reply_block (reply : bytes) : Prop :=
    exists i, find_sep CRLFCRLF reply = Some i /\ (i + 4 = length reply)%nat /\ N.of_nat (length reply) <= 16384.

  Lemma pull_reply reply : reply_block reply ->
    exists s', fp_pull fp_init reply = Item (IHeader reply) s' [] /\ at_boundary s' false UAcc.
  Proof.
    intros (i & Hf & Hi & Hl).
    rewrite fp_pull_unfold by exact fp_init_ok. unfold pull_body.
    destruct reply as [|r0 reply']; [cbn in Hf; discriminate|].
    cbn [fp_init paw pbuf pg prem List.app]. rewrite Hf. cbn [length CRLFCRLF]. rewrite Hi.
    assert (Etl : too_long (Some 16384) (length (r0 :: reply')) = false).
    { unfold too_long. apply N.ltb_ge. exact Hl. }
    rewrite Etl. rewrite firstn_all, skipn_all. unfold fp_resume. cbn [fp_phase after_resume].
    eexists. split; [reflexivity|]. reflexivity.
  Qed.

  Lemma msg_events_not_event l tr : Forall not_event l -> msg_events (l ++ tr) = msg_events tr.
  Proof. induction 1 as [|x l Hx _ IH]; [reflexivity|]. destruct x; cbn in *; try contradiction; exact IH. Qed.

  (* the accepted upgrade reply (no compression negotiated) takes a fresh connection to the state between two frames *)
  Lemma handshake_idle c reply proto :
    k_ps c = fp_init -> k_closed c = false -> k_closing c = false -> k_deflate c = None -> k_sent_close_time c = None ->
    k_frames c = [] -> reply_block reply ->
    on_response (c_accept cf) (parse_response reply) = HReady proto None ->
    exists c', feedf cf app c reply = (c', SOk) /\ idle c' [] /\ msg_events (k_tr c') = msg_events (k_tr c) /\
               k_sock c' = k_sock c.
  Proof.
    intros Hps Hcl Hcg Hdf Hsc Hfr Hrb Hresp.
    destruct (pull_reply reply Hrb) as (s' & Hpull & Hab).
    rewrite feedf_unfold by (rewrite Hps; exact fp_init_ok). unfold feed_body. rewrite Hcl, Hps, Hpull.
    unfold on_item. rewrite Hresp. unfold feed_yield, in_feed_yield. cbn [on_event].
    rewrite (deliver_passive app app_passive).
    match goal with |- context [regular cf app ?x] => set (cr := x) end.
    assert (Hscr : k_sent_close_time cr = None) by exact Hsc.
    destruct (regular_quiet cf app (passive_benign app app_passive) no_ping_timeout cr Hscr) as (R1 & (S1&S2&S3&S4&S5&S6&S7&S8) & R3).
    destruct (regular cf app cr) as [c2 st2]. cbn [fst snd] in *. subst st2.
    assert (Hokc2 : fp_ok (k_ps c2)) by (rewrite S1; unfold cr; cbn; rewrite Hab; unfold fp_ok, st_ok; cbn; lia).
    assert (F1 : k_closed c2 = false) by (rewrite S4; exact Hcl).
    assert (F2 : k_closing c2 = false) by (rewrite S3; exact Hcg).
    assert (F3 : k_deflate c2 = None) by (rewrite S5; exact Hdf).
    assert (F4 : k_sent_close_time c2 = None) by (rewrite S6; exact Hsc).
    assert (F5 : k_frames c2 = []) by (rewrite S2; exact Hfr).
    assert (F6 : k_ps c2 = s') by (rewrite S1; reflexivity).
    exists c2. split.
    { rewrite feedf_unfold by exact Hokc2. unfold feed_body. rewrite F1.
      change (fp_pull (k_ps c2) []) with (NeedMore (item:=pitem) (err:=perr) (k_ps c2)). cbv beta iota.
      rewrite set_ps_same. reflexivity. }
    split.
    { unfold idle. rewrite F1, F2, F3, F4, F5, F6. repeat split; auto. exists UAcc. split; [exact Hab|reflexivity]. }
    split; [rewrite R3; reflexivity|rewrite S8; reflexivity].
  Qed.

  (* C01 for the whole run: connect, the accepted reply in one read, then the conforming stream in any pieces with any
     waiting in between: the message events of the run are exactly the messages of the reference reading, in order *)
  Theorem run_delivers keys wf zt ct dt0 reply proto steps fs lfs ms open' :
    (match wf with [] => True | w :: _ => w = WOk end) ->
    reply_block reply -> on_response (c_accept cf) (parse_response reply) = HReady proto None ->
    Forall quiet_step steps -> Forall plain fs -> forms_ok fs lfs ->
    ref_messages [] fs = Some (ms, open') -> encode_all fs lfs = concat (reads_of steps) ->
    msg_events (k_tr (run cf app (init keys wf zt ct) CnOk (StRead dt0 (RData reply) :: steps))) = rev (map ev_of ms).
  Proof.
    intros Hwf Hrb Hresp Hq Hpl Hforms Href Henc.
    assert (W : forall c, msg_events (k_tr (if k_with c then close_socket c else c)) = msg_events (k_tr c)).
    { intros c. destruct (k_with c); [|reflexivity]. destruct (ext_close_socket c) as (l & E & F). rewrite E. apply msg_events_not_event. exact F. }
    unfold run. rewrite W. unfold run_gen. rewrite !(deliver_passive app app_passive).
    set (c1 := emit (TEv EvConnecting) (init keys wf zt ct)).
    set (c2 := c1 <| k_sock := true |>).
    assert (E3 : exists c3, (let '(w, c') := pop_wfault c2 in
                  match w with WOk => (emit (TWriteReq true) c', @None exn) | _ => (emit (TWriteReq false) c', Some XTransportFail) end) = (c3, None)
                 /\ k_ps c3 = fp_init /\ k_closed c3 = false /\ k_closing c3 = false /\ k_deflate c3 = None /\
                    k_sent_close_time c3 = None /\ k_frames c3 = [] /\ k_sock c3 = true /\ k_ready c3 = false /\ msg_events (k_tr c3) = []).
    { unfold pop_wfault, c2, c1. cbn [k_wfaults init emit]. destruct wf as [|w ws].
      - eexists. split; [reflexivity|]. cbn. repeat split; reflexivity.
      - subst w. eexists. split; [reflexivity|]. cbn. repeat split; reflexivity. }
    destruct E3 as (c3 & E3 & P1 & P2 & P3 & P4 & P5 & P6 & P7 & P8 & P9).
    change (negb (k_sock c2)) with false. change (k_closed c2) with false. change (k_closing c2) with false. cbv beta iota.
    rewrite E3. rewrite (deliver_passive app app_passive).
    set (c4 := emit (TEv EvConnected) c3).
    cbn [loop]. change (k_closed c4) with (k_closed c3). rewrite P2.
    assert (Er : regular cf app (advance c4 dt0) = (advance c4 dt0, SOk)).
    { unfold regular. change (k_ready (advance c4 dt0)) with (k_ready c3). rewrite P8. reflexivity. }
    rewrite Er. change (k_sock (advance c4 dt0)) with (k_sock c3). rewrite P7.
    destruct Hrb as (i & Hf & Hi & Hl). assert (Hrb : reply_block reply) by (exists i; auto).
    destruct reply as [|r0 reply']; [cbn in Hf; discriminate|].
    destruct (handshake_idle (advance c4 dt0) (r0 :: reply') proto) as (c5 & E5 & Hidle & M5 & S5); auto.
    rewrite E5.
    destruct (loop_delivers_all cf app (passive_benign app app_passive) no_ping_timeout steps c5 [] fs lfs ms open' Hq Hidle I ltac:(rewrite S5; exact P7) Hpl Hforms Href Henc)
      as (c' & El & _ & Hmsg).
    rewrite El. change (k_tr (emit TBlocked c')) with (TBlocked :: k_tr c'). cbn [msg_events]. rewrite Hmsg, M5.
    change (msg_events (k_tr (advance c4 dt0))) with (msg_events (k_tr c3)). rewrite P9. apply app_nil_r.
  Qed.
End Delivery6.

(* ---------- while there is no socket, nothing the application sends consumes a scheduled write outcome ---------- *)
Lemma write_nosock c d cl : k_sock c = false -> write c d cl = (c, Some XUnavailable).
Proof. intros H. unfold write. rewrite H. reflexivity. Qed.

Lemma send_frame_nosock c op r p : k_sock c = false -> k_wfaults (fst (send_frame c op r p)) = k_wfaults c.
Proof.
  intros H. unfold send_frame, pop_key. destruct (k_keys c) as [|k ks]; rewrite write_nosock by exact H; reflexivity.
Qed.

Lemma send_data_nosock c op p z : k_sock c = false -> k_wfaults (fst (send_data c op p z)) = k_wfaults c.
Proof.
  intros H. unfold send_data. destruct (k_deflate c) as [d|]; [|apply send_frame_nosock; exact H].
  destruct z; [|apply send_frame_nosock; exact H].
  destruct (k_ctape c) as [|z0 zs]; cbv zeta; destruct (c_reset d); rewrite send_frame_nosock by exact H; reflexivity.
Qed.

Lemma api_send_nosock c a : send_action (ACall a) -> k_sock c = false -> k_wfaults (fst (api_call c a)) = k_wfaults c.
Proof.
  intros Ha H. destruct a; cbn [api_call send_action] in *; try contradiction;
    try (apply send_data_nosock; exact H);
    (destruct (125 <? blen payload); [reflexivity|apply send_frame_nosock; exact H]).
Qed.

Lemma do_actions_nosock acts : Forall send_action acts -> forall c, k_sock c = false ->
  k_wfaults (fst (do_actions c acts)) = k_wfaults c.
Proof.
  induction 1 as [|a acts Ha _ IH]; intros c Hs; [reflexivity|].
  destruct a as [cl|w]; [|contradiction]. cbn [do_actions].
  destruct (api_send_core c cl Ha) as [(_&_&_&_&_&_&_&A8) _]. pose proof (api_send_nosock c cl Ha Hs) as B.
  destruct (api_call c cl) as [c1 r]. cbn [fst] in *.
  rewrite IH by (cbn; congruence). exact B.
Qed.

Section Delivery7.
  Variable cf : cfg.
  Variable app : strategy.
  Hypothesis app_benign : benign app.
  Hypothesis no_ping_timeout : zpos (c_ping_timeout cf) = None.

  Lemma deliver_nosock c e : k_sock c = false -> k_wfaults (fst (deliver app c e)) = k_wfaults c.
  Proof. intros H. unfold deliver. rewrite do_actions_nosock; [reflexivity|apply app_benign|exact H]. Qed.

  (* the accepted upgrade reply takes a fresh connection to the state between two frames -- whatever the application
     sends at the Ready event *)
  Lemma handshake_idle_benign c reply proto :
    k_ps c = fp_init -> k_closed c = false -> k_closing c = false -> k_deflate c = None -> k_sent_close_time c = None ->
    k_frames c = [] -> reply_block reply ->
    on_response (c_accept cf) (parse_response reply) = HReady proto None ->
    exists c', feedf cf app c reply = (c', SOk) /\ idle c' [] /\ msg_events (k_tr c') = msg_events (k_tr c) /\
               k_sock c' = k_sock c.
  Proof.
    intros Hps Hcl Hcg Hdf Hsc Hfr Hrb Hresp.
    destruct (pull_reply reply Hrb) as (s' & Hpull & Hab).
    rewrite feedf_unfold by (rewrite Hps; exact fp_init_ok). unfold feed_body. rewrite Hcl, Hps, Hpull.
    unfold on_item. rewrite Hresp. unfold feed_yield, in_feed_yield. cbn [on_event].
    match goal with |- context [deliver app ?x ?e] => set (cr := x); destruct (deliver_benign app app_benign cr e) as (c1 & E1 & C1 & M1) end.
    rewrite E1. cbv beta iota.
    destruct C1 as (A1&A2&A3&A4&A5&A6&A7&A8).
    assert (Hs1 : k_sent_close_time c1 = None) by (rewrite A6; exact Hsc).
    destruct (regular_quiet cf app app_benign no_ping_timeout c1 Hs1) as (R1 & (S1&S2&S3&S4&S5&S6&S7&S8) & R3).
    destruct (regular cf app c1) as [c2 st2]. cbn [fst snd] in *. subst st2. cbv beta iota.
    assert (F6 : k_ps c2 = s') by (rewrite S1, A1; reflexivity).
    assert (Hokc2 : fp_ok (k_ps c2)) by (rewrite F6, Hab; unfold fp_ok, st_ok; cbn; lia).
    assert (F1 : k_closed c2 = false) by (rewrite S4, A4; exact Hcl).
    assert (F2 : k_closing c2 = false) by (rewrite S3, A3; exact Hcg).
    assert (F3 : k_deflate c2 = None) by (rewrite S5, A5; exact Hdf).
    assert (F4 : k_sent_close_time c2 = None) by (rewrite S6, A6; exact Hsc).
    assert (F5 : k_frames c2 = []) by (rewrite S2, A2; exact Hfr).
    exists c2. split.
    { rewrite feedf_unfold by exact Hokc2. unfold feed_body. rewrite F1.
      change (fp_pull (k_ps c2) []) with (NeedMore (item:=pitem) (err:=perr) (k_ps c2)). cbv beta iota.
      rewrite set_ps_same. reflexivity. }
    split.
    { unfold idle. rewrite F1, F2, F3, F4, F5, F6. repeat split; auto. exists UAcc. split; [exact Hab|reflexivity]. }
    split; [rewrite R3, M1; reflexivity|rewrite S8, A8; reflexivity].
  Qed.

  (* C01 for the whole run and ANY application that only sends (at Connecting, Connected, Ready, at every message, at every
     Poll): connect, the accepted reply in one read, then the conforming stream in any pieces with any waiting in between:
     the message events of the run are exactly the messages of the reference reading, in order *)
  Theorem run_delivers_benign keys wf zt ct dt0 reply proto steps fs lfs ms open' :
    (match wf with [] => True | w :: _ => w = WOk end) ->
    reply_block reply -> on_response (c_accept cf) (parse_response reply) = HReady proto None ->
    Forall quiet_step steps -> Forall plain fs -> forms_ok fs lfs ->
    ref_messages [] fs = Some (ms, open') -> encode_all fs lfs = concat (reads_of steps) ->
    msg_events (k_tr (run cf app (init keys wf zt ct) CnOk (StRead dt0 (RData reply) :: steps))) = rev (map ev_of ms).
  Proof.
    intros Hwf Hrb Hresp Hq Hpl Hforms Href Henc.
    assert (W : forall c, msg_events (k_tr (if k_with c then close_socket c else c)) = msg_events (k_tr c)).
    { intros c. destruct (k_with c); [|reflexivity]. destruct (ext_close_socket c) as (l & E & F). rewrite E. apply msg_events_not_event. exact F. }
    unfold run. rewrite W. unfold run_gen.
    set (c0 := init keys wf zt ct).
    destruct (deliver_benign app app_benign c0 EvConnecting) as (c1 & E1 & (A1&A2&A3&A4&A5&A6&A7&A8) & M1).
    pose proof (deliver_nosock c0 EvConnecting eq_refl) as Wf1. rewrite E1 in Wf1. cbn [fst] in Wf1. rewrite E1.
    set (c2 := c1 <| k_sock := true |>).
    assert (E3 : exists c3, (let '(w, c') := pop_wfault c2 in
                  match w with WOk => (emit (TWriteReq true) c', @None exn) | _ => (emit (TWriteReq false) c', Some XTransportFail) end) = (c3, None)
                 /\ k_ps c3 = fp_init /\ k_closed c3 = false /\ k_closing c3 = false /\ k_deflate c3 = None /\
                    k_sent_close_time c3 = None /\ k_frames c3 = [] /\ k_sock c3 = true /\ k_ready c3 = false /\ msg_events (k_tr c3) = []).
    { unfold pop_wfault. change (k_wfaults c2) with (k_wfaults c1). rewrite Wf1. change (k_wfaults c0) with wf.
      destruct wf as [|w ws]; [|subst w]; (eexists; split; [reflexivity|]);
        (split; [exact A1|]); (split; [exact A4|]); (split; [exact A3|]); (split; [exact A5|]); (split; [exact A6|]);
        (split; [exact A2|]); (split; [reflexivity|]); (split; [exact A7|exact M1]). }
    destruct E3 as (c3 & E3 & P1 & P2 & P3 & P4 & P5 & P6 & P7 & P8 & P9).
    cbv zeta. fold c2.
    change (negb (k_sock c2)) with false. change (k_closed c2) with (k_closed c1). change (k_closing c2) with (k_closing c1).
    rewrite A4, A3. change (k_closed c0) with false. change (k_closing c0) with false. cbv beta iota.
    rewrite E3.
    destruct (deliver_benign app app_benign c3 EvConnected) as (c4 & E4 & (B1&B2&B3&B4&B5&B6&B7&B8) & M4). rewrite E4.
    cbn [loop]. rewrite B4, P2.
    assert (Er : regular cf app (advance c4 dt0) = (advance c4 dt0, SOk)).
    { unfold regular. change (k_ready (advance c4 dt0)) with (k_ready c4). rewrite B7, P8. reflexivity. }
    rewrite Er. change (k_sock (advance c4 dt0)) with (k_sock c4). rewrite B8, P7.
    destruct Hrb as (i & Hf & Hi & Hl). assert (Hrb : reply_block reply) by (exists i; auto).
    destruct reply as [|r0 reply']; [cbn in Hf; discriminate|].
    assert (Q1 : k_ps (advance c4 dt0) = fp_init) by (change (k_ps c4 = fp_init); congruence).
    assert (Q2 : k_closed (advance c4 dt0) = false) by (change (k_closed c4 = false); congruence).
    assert (Q3 : k_closing (advance c4 dt0) = false) by (change (k_closing c4 = false); congruence).
    assert (Q4 : k_deflate (advance c4 dt0) = None) by (change (k_deflate c4 = None); congruence).
    assert (Q5 : k_sent_close_time (advance c4 dt0) = None) by (change (k_sent_close_time c4 = None); congruence).
    assert (Q6 : k_frames (advance c4 dt0) = []) by (change (k_frames c4 = []); congruence).
    destruct (handshake_idle_benign (advance c4 dt0) (r0 :: reply') proto Q1 Q2 Q3 Q4 Q5 Q6 Hrb Hresp) as (c5 & E5 & Hidle & M5 & S5).
    rewrite E5.
    destruct (loop_delivers_all cf app app_benign no_ping_timeout steps c5 [] fs lfs ms open' Hq Hidle I
                ltac:(rewrite S5; change (k_sock (advance c4 dt0)) with (k_sock c4); congruence) Hpl Hforms Href Henc)
      as (c' & El & _ & Hmsg).
    rewrite El. change (k_tr (emit TBlocked c')) with (TBlocked :: k_tr c'). cbn [msg_events]. rewrite Hmsg, M5.
    change (msg_events (k_tr (advance c4 dt0))) with (msg_events (k_tr c4)). rewrite M4, P9. apply app_nil_r.
  Qed.
End Delivery7.
