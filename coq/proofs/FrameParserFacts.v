(* The frame parser instance satisfies the hypotheses of the generic segmentation lemma. *)
From Coq Require Import List NArith Arith Lia Bool.
From Coq.Strings Require Import Byte.
From Model Require Import Bytes Utf8 Frame Parser FrameParser.
From Proofs Require Import BytesFacts Utf8Facts ParserFacts.
Import ListNotations.
Open Scope N_scope.

Lemma crlfcrlf_nonempty : CRLFCRLF <> [].
Proof. discriminate. Qed.

Lemma fp_validate_app g a b :
  fp_validate g (a ++ b) = match fp_validate g a with Some g' => fp_validate g' b | None => None end.
Proof.
  unfold fp_validate. rewrite uvalidate_app.
  destruct (uvalidate (fp_u g) a) as [u|]; [|reflexivity]. reflexivity.
Qed.

Lemma fp_validate_nil g : fp_validate g [] = Some g.
Proof. unfold fp_validate. simpl. destruct g; reflexivity. Qed.

Lemma finish_frame_ok g h key p :
  match finish_frame g h key p with
  | RItem _ _ a n | RAwait _ a n => aw_ok a n
  | RErr _ => True end.
Proof. unfold finish_frame. destruct (h_mask h); simpl; auto. lia. Qed.

Lemma after_mask_ok g h len key :
  match after_mask g h len key with
  | RItem _ _ a n | RAwait _ a n => aw_ok a n
  | RErr _ => True end.
Proof.
  unfold after_mask. destruct (validate_err _ _ _); [exact I|].
  destruct (len =? 0) eqn:E.
  - apply finish_frame_ok.
  - simpl. apply N.eqb_neq in E. lia.
Qed.

Lemma after_len_ok g h len :
  match after_len g h len with
  | RItem _ _ a n | RAwait _ a n => aw_ok a n
  | RErr _ => True end.
Proof.
  unfold after_len. destruct (_ <? len); [exact I|].
  destruct (h_mask h); [simpl; lia|apply after_mask_ok].
Qed.

Lemma fp_resume_ok g buf :
  match fp_resume g buf with
  | RItem _ _ a n | RAwait _ a n => aw_ok a n
  | RErr _ => True end.
Proof.
  unfold fp_resume. destruct (fp_phase g).
  - simpl. lia.
  - cbv zeta. destruct (_ =? 126); [simpl; lia|]. destruct (_ =? 127); [simpl; lia|]. apply after_len_ok.
  - apply after_len_ok.
  - apply after_len_ok.
  - apply after_mask_ok.
  - apply finish_frame_ok.
Qed.

Definition fp_ok (s : fpst) : Prop := st_ok fpg CRLFCRLF s.

Lemma fp_init_ok : fp_ok fp_init.
Proof. unfold fp_ok, st_ok. reflexivity. Qed.

Lemma fp_enable_compression_ok s : fp_ok s -> fp_ok (fp_enable_compression s).
Proof. unfold fp_ok, st_ok, fp_enable_compression. simpl. auto. Qed.

(* the segmentation lemma for the frame parser *)
Theorem fp_pull_split s a b : fp_ok s ->
  fp_pull s (a ++ b) = out_app fpg pitem perr (fp_pull s a) b (fun s' => fp_pull s' b).
Proof.
  intros H. unfold fp_pull.
  apply (pull_split fpg pitem perr CRLFCRLF crlfcrlf_nonempty fp_resume fp_validate PE_Utf8 PE_HeaderTooLong
           fp_validate_app fp_validate_nil fp_resume_ok (length a)); auto.
Qed.

Theorem fp_pull_ok s d : fp_ok s ->
  match fp_pull s d with
  | Item _ s' r => fp_ok s' /\ (length r < length d)%nat
  | NeedMore s' => fp_ok s'
  | Err _ => True
  end.
Proof.
  intros H. unfold fp_pull, fp_ok.
  eapply pullf_ok; try exact fp_resume_ok; try exact crlfcrlf_nonempty; try exact fp_validate_app; try exact fp_validate_nil; auto.
Qed.
