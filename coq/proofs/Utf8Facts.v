(* The automaton of Model.Utf8 accepts exactly the RFC 3629 grammar; rejection = non-viability. *)
From Coq Require Import List NArith Bool Lia.
From Coq.Strings Require Import Byte.
From Model Require Import Bytes Utf8.
From Proofs Require Import BytesFacts.
Import ListNotations.
Open Scope N_scope.

Lemma urun_app s a b : urun s (a ++ b) = urun (urun s a) b.
Proof. unfold urun. apply fold_left_app. Qed.

Lemma urun_cons s a t : urun s (a :: t) = urun (ustep s a) t.
Proof. reflexivity. Qed.

Lemma urun_rej t : urun URej t = URej.
Proof. induction t as [|b t IH]; [reflexivity|]. rewrite urun_cons. exact IH. Qed.

Lemma rng_spec lo hi n : rng lo hi n = true <-> lo <= n <= hi.
Proof. unfold rng. rewrite andb_true_iff, !N.leb_le. tauto. Qed.

Lemma rng_false lo hi n : rng lo hi n = false <-> ~ (lo <= n <= hi).
Proof. rewrite <- rng_spec. destruct (rng lo hi n); split; intros; try congruence; tauto. Qed.

Ltac brk :=
  repeat match goal with
  | H : context [rng ?lo ?hi ?n] |- _ =>
      let E := fresh "E" in destruct (rng lo hi n) eqn:E; [apply rng_spec in E|apply rng_false in E]
  | |- context [rng ?lo ?hi ?n] =>
      let E := fresh "E" in destruct (rng lo hi n) eqn:E; [apply rng_spec in E|apply rng_false in E]
  | H : context [N.eqb ?a ?b] |- _ =>
      let E := fresh "E" in destruct (N.eqb a b) eqn:E; [apply N.eqb_eq in E|apply N.eqb_neq in E]
  | |- context [N.eqb ?a ?b] =>
      let E := fresh "E" in destruct (N.eqb a b) eqn:E; [apply N.eqb_eq in E|apply N.eqb_neq in E]
  end.

(* ---- wf -> accepted ---- *)
Lemma char_accepted c : utf8_char c -> urun UAcc c = UAcc.
Proof.
  intros H; destruct H; unfold in_range, tail, in_range in *; unfold urun;
    repeat (cbn [fold_left ustep]; brk; try reflexivity; try lia).
Qed.

Lemma wf_accepted bs : utf8_wf bs -> urun UAcc bs = UAcc.
Proof.
  induction 1 as [|c rest Hc _ IH]; [reflexivity|].
  rewrite urun_app, (char_accepted c Hc). exact IH.
Qed.

(* ---- accepted -> wf ---- *)
Lemma need_byte s t : s <> UAcc -> urun s t = UAcc -> exists b t', t = b :: t'.
Proof. intros Hs H. destruct t as [|b t']; [simpl in H; congruence|eauto]. Qed.

Lemma acc_T1 t : urun UT1 t = UAcc -> exists b t', t = b :: t' /\ tail b /\ urun UAcc t' = UAcc.
Proof.
  intros H. destruct (need_byte UT1 t ltac:(discriminate) H) as (b & t' & ->).
  exists b, t'. rewrite urun_cons in H. cbn [ustep] in H. unfold tail, in_range.
  brk; [auto|rewrite urun_rej in H; discriminate].
Qed.

Lemma acc_gen s lo hi s' t :
  (forall b, ustep s b = if rng lo hi (b2n b) then s' else URej) -> s <> UAcc ->
  urun s t = UAcc -> exists b t', t = b :: t' /\ in_range lo hi b /\ urun s' t' = UAcc.
Proof.
  intros Hst Hs H. destruct (need_byte s t Hs H) as (b & t' & ->).
  exists b, t'. rewrite urun_cons, Hst in H. unfold in_range.
  brk; [auto|rewrite urun_rej in H; discriminate].
Qed.

Lemma accepted_wf_len n : forall bs, (length bs <= n)%nat -> urun UAcc bs = UAcc -> utf8_wf bs.
Proof.
  induction n as [|n IH]; intros bs L H.
  { destruct bs; [constructor|simpl in L; lia]. }
  destruct bs as [|a t]; [constructor|].
  rewrite urun_cons in H. cbn [ustep] in H.
  assert (T1 : forall t0, (length t0 <= n)%nat -> urun UT1 t0 = UAcc ->
               exists b t', t0 = b :: t' /\ tail b /\ utf8_wf t').
  { intros t0 L0 H0. destruct (acc_T1 _ H0) as (b & t' & -> & Hb & Hr).
    exists b, t'. split; [reflexivity|]. split; [exact Hb|]. apply IH; auto. simpl in L0. lia. }
  assert (T2 : forall t0, (length t0 <= n)%nat -> urun UT2 t0 = UAcc ->
               exists b c t', t0 = b :: c :: t' /\ tail b /\ tail c /\ utf8_wf t').
  { intros t0 L0 H0.
    destruct (acc_gen UT2 128 191 UT1 t0 ltac:(reflexivity) ltac:(discriminate) H0) as (b & t1 & -> & Hb & Hr).
    destruct (T1 t1 ltac:(simpl in L0; lia) Hr) as (c & t' & -> & Hc & Hw).
    exists b, c, t'. split; [reflexivity|]. split; [exact Hb|]. split; [exact Hc|exact Hw]. }
  simpl in L.
  destruct (rng 0 127 (b2n a)) eqn:E0.
  { apply rng_spec in E0. change (a :: t) with ([a] ++ t). constructor; [constructor; exact E0|apply IH; auto; lia]. }
  destruct (rng 194 223 (b2n a)) eqn:E1.
  { apply rng_spec in E1. destruct (T1 t ltac:(lia) H) as (b & t' & -> & Hb & Hw).
    change (a :: b :: t') with ([a; b] ++ t'). constructor; [apply U2; auto|auto]. }
  destruct (b2n a =? 224) eqn:E2.
  { apply N.eqb_eq in E2.
    destruct (acc_gen UE0 160 191 UT1 t ltac:(reflexivity) ltac:(discriminate) H) as (b & t1 & -> & Hb & Hr).
    destruct (T1 t1 ltac:(simpl in L; lia) Hr) as (c & t' & -> & Hc & Hw).
    change (a :: b :: c :: t') with ([a; b; c] ++ t'). constructor; [apply U3a; auto|auto]. }
  destruct (rng 225 236 (b2n a)) eqn:E3.
  { apply rng_spec in E3. destruct (T2 t ltac:(lia) H) as (b & c & t' & -> & Hb & Hc & Hw).
    change (a :: b :: c :: t') with ([a; b; c] ++ t'). constructor; [apply U3b; auto|auto]. }
  destruct (b2n a =? 237) eqn:E4.
  { apply N.eqb_eq in E4.
    destruct (acc_gen UED 128 159 UT1 t ltac:(reflexivity) ltac:(discriminate) H) as (b & t1 & -> & Hb & Hr).
    destruct (T1 t1 ltac:(simpl in L; lia) Hr) as (c & t' & -> & Hc & Hw).
    change (a :: b :: c :: t') with ([a; b; c] ++ t'). constructor; [apply U3c; auto|auto]. }
  destruct (rng 238 239 (b2n a)) eqn:E5.
  { apply rng_spec in E5. destruct (T2 t ltac:(lia) H) as (b & c & t' & -> & Hb & Hc & Hw).
    change (a :: b :: c :: t') with ([a; b; c] ++ t'). constructor; [apply U3d; auto|auto]. }
  destruct (b2n a =? 240) eqn:E6.
  { apply N.eqb_eq in E6.
    destruct (acc_gen UF0 144 191 UT2 t ltac:(reflexivity) ltac:(discriminate) H) as (b & t1 & -> & Hb & Hr).
    destruct (T2 t1 ltac:(simpl in L; lia) Hr) as (c & d & t' & -> & Hc & Hd & Hw).
    change (a :: b :: c :: d :: t') with ([a; b; c; d] ++ t'). constructor; [apply U4a; auto|auto]. }
  destruct (rng 241 243 (b2n a)) eqn:E7.
  { apply rng_spec in E7.
    destruct (acc_gen UT3 128 191 UT2 t ltac:(reflexivity) ltac:(discriminate) H) as (b & t1 & -> & Hb & Hr).
    destruct (T2 t1 ltac:(simpl in L; lia) Hr) as (c & d & t' & -> & Hc & Hd & Hw).
    change (a :: b :: c :: d :: t') with ([a; b; c; d] ++ t'). constructor; [apply U4b; auto|auto]. }
  destruct (b2n a =? 244) eqn:E8.
  { apply N.eqb_eq in E8.
    destruct (acc_gen UF4 128 143 UT2 t ltac:(reflexivity) ltac:(discriminate) H) as (b & t1 & -> & Hb & Hr).
    destruct (T2 t1 ltac:(simpl in L; lia) Hr) as (c & d & t' & -> & Hc & Hd & Hw).
    change (a :: b :: c :: d :: t') with ([a; b; c; d] ++ t'). constructor; [apply U4c; auto|auto]. }
  rewrite urun_rej in H. discriminate.
Qed.

Theorem accepts_iff_wf bs : urun UAcc bs = UAcc <-> utf8_wf bs.
Proof. split; [apply (accepted_wf_len (length bs)); lia|apply wf_accepted]. Qed.

Corollary validb_iff_wf bs : utf8_validb bs = true <-> utf8_wf bs.
Proof.
  unfold utf8_validb. rewrite <- accepts_iff_wf.
  destruct (urun UAcc bs); simpl; split; intros; congruence.
Qed.

(* ---- viability ---- *)
Definition compl (s : ustate) : bytes :=
  match s with
  | UAcc | URej => []
  | UT1 => [x80] | UT2 => [x80; x80] | UE0 => [xa0; x80] | UED => [x80; x80]
  | UF0 => [x90; x80; x80] | UT3 => [x80; x80; x80] | UF4 => [x80; x80; x80]
  end.
Lemma compl_ok s : s <> URej -> urun s (compl s) = UAcc.
Proof. destruct s; intros H; try congruence; vm_compute; reflexivity. Qed.

Theorem viable_iff_not_rejected p : viable p <-> urun UAcc p <> URej.
Proof.
  split.
  - intros (s & Hs) E. apply accepts_iff_wf in Hs. rewrite urun_app, E, urun_rej in Hs. discriminate.
  - intros H. exists (compl (urun UAcc p)). apply accepts_iff_wf. rewrite urun_app. apply compl_ok. exact H.
Qed.

(* ---- the incremental validator ---- *)
Lemma uvalidate_app s a b :
  uvalidate s (a ++ b) = match uvalidate s a with Some s' => uvalidate s' b | None => None end.
Proof.
  revert s; induction a as [|x a IH]; intros s; [reflexivity|].
  cbn [app uvalidate]. destruct (ustep s x); auto.
Qed.

Lemma uvalidate_nil s : uvalidate s [] = Some s.
Proof. reflexivity. Qed.

Lemma uvalidate_some s bs s' : s <> URej -> uvalidate s bs = Some s' -> urun s bs = s' /\ s' <> URej.
Proof.
  revert s; induction bs as [|b t IH]; intros s Hs H.
  - inversion H; subst. auto.
  - cbn [uvalidate] in H. rewrite urun_cons. destruct (ustep s b) eqn:E; try discriminate; apply IH; auto; discriminate.
Qed.

Lemma uvalidate_none s bs : uvalidate s bs = None -> urun s bs = URej.
Proof.
  revert s; induction bs as [|b t IH]; intros s H; [discriminate|].
  cbn [uvalidate] in H. rewrite urun_cons. destruct (ustep s b) eqn:E; try (apply IH; exact H). apply urun_rej.
Qed.

Lemma uvalidate_run s bs : s <> URej ->
  uvalidate s bs = match urun s bs with URej => None | s' => Some s' end.
Proof.
  intros Hs. destruct (uvalidate s bs) as [s'|] eqn:E.
  - apply uvalidate_some in E as [E1 E2]; auto. rewrite E1. destruct s'; congruence.
  - apply uvalidate_none in E. rewrite E. reflexivity.
Qed.

(* fail-fast: the validator rejects a prefix exactly when no continuation can make it well-formed *)
Theorem validate_rejects_iff_not_viable p : uvalidate UAcc p = None <-> ~ viable p.
Proof.
  rewrite viable_iff_not_rejected, uvalidate_run by discriminate.
  destruct (urun UAcc p); split; intros H; try discriminate; try congruence; exfalso; apply H; discriminate.
Qed.
