(* C09, "a refused connect on every resolved address (each address is tried before giving up)": facts about the model of
   _connect_sock -- the address in use is the FIRST one whose socket can be created and connected; every earlier address
   was tried, in order; nothing behind it is touched; the socket of every failed connect is closed, and no other. *)
From Coq Require Import List Bool Arith Lia.
From Model Require Import Connect.
Import ListNotations.

Definition usable (a : attempt) : bool := fst a && snd a.

Fixpoint first_usable (i : nat) (addrs : list attempt) : option nat :=
  match addrs with
  | [] => None
  | a :: rest => if usable a then Some i else first_usable (S i) rest
  end.

Theorem connect_uses_first_usable addrs : forall i, fst (connect_from i addrs) = first_usable i addrs.
Proof.
  induction addrs as [|[cr co] rest IH]; intros i; [reflexivity|].
  cbn [connect_from first_usable usable fst snd]. destruct cr; cbn [negb andb].
  - destruct co; [reflexivity|]. specialize (IH (S i)). destruct (connect_from (S i) rest). exact IH.
  - specialize (IH (S i)). destruct (connect_from (S i) rest). exact IH.
Qed.

(* connect() is called exactly on the creatable addresses up to and including the one in use (all of them when none is
   usable), in order *)
Fixpoint expected_connects (i : nat) (addrs : list attempt) : list nat :=
  match addrs with
  | [] => []
  | (cr, co) :: rest => if negb cr then expected_connects (S i) rest
                        else if co then [i] else i :: expected_connects (S i) rest
  end.
Definition connects (ops : list cop) : list nat := flat_map (fun o => match o with OConnect i => [i] | _ => [] end) ops.
Definition closes (ops : list cop) : list nat := flat_map (fun o => match o with OClose i => [i] | _ => [] end) ops.

Theorem connects_in_order addrs : forall i, connects (snd (connect_from i addrs)) = expected_connects i addrs.
Proof.
  induction addrs as [|[cr co] rest IH]; intros i; [reflexivity|].
  cbn [connect_from expected_connects]. destruct cr; cbn [negb].
  - destruct co; [reflexivity|]. specialize (IH (S i)). destruct (connect_from (S i) rest). cbn [snd] in *.
    unfold connects in *. cbn [flat_map app]. rewrite IH. reflexivity.
  - specialize (IH (S i)). destruct (connect_from (S i) rest). cbn [snd] in *. unfold connects in *. cbn [flat_map app]. exact IH.
Qed.

(* the sockets closed are exactly those whose connect() failed: connects minus the one in use *)
Theorem failed_attempts_are_closed addrs : forall i,
  closes (snd (connect_from i addrs)) =
  match fst (connect_from i addrs) with
  | Some k => filter (fun j => negb (Nat.eqb j k)) (connects (snd (connect_from i addrs)))
  | None => connects (snd (connect_from i addrs))
  end /\
  (forall k, fst (connect_from i addrs) = Some k -> i <= k) /\
  Forall (fun j => i <= j) (connects (snd (connect_from i addrs))).
Proof.
  unfold closes, connects.
  induction addrs as [|[cr co] rest IH]; intros i; [cbn; split; [reflexivity|split; [intros k H; discriminate|constructor]]|].
  cbn [connect_from]. destruct cr; cbn [negb].
  - destruct co.
    + cbn [fst snd flat_map app filter]. rewrite Nat.eqb_refl. cbn [negb].
      split; [reflexivity|]. split; [intros k H; inversion H; lia|repeat constructor].
    + destruct (IH (S i)) as (A & B & C). destruct (connect_from (S i) rest) as [r ops]. cbn [fst snd flat_map app] in *.
      split; [|split].
      * destruct r as [k|].
        -- specialize (B k eq_refl). cbn [filter]. replace (Nat.eqb i k) with false by (symmetry; apply Nat.eqb_neq; lia).
           cbn [negb]. rewrite A. reflexivity.
        -- rewrite A. reflexivity.
      * intros k H. specialize (B k H). lia.
      * constructor; [lia|]. eapply Forall_impl; [|exact C]. intros j Hj. cbv beta in Hj. lia.
  - destruct (IH (S i)) as (A & B & C). destruct (connect_from (S i) rest) as [r ops]. cbn [fst snd flat_map app] in *.
    split; [exact A|]. split; [intros k H; specialize (B k H); lia|].
    eapply Forall_impl; [|exact C]. intros j Hj. cbv beta in Hj. lia.
Qed.

(* giving up only after every address: no address in use iff no address is usable; then every creatable one was tried *)
Theorem gives_up_only_after_all addrs : fst (connect_sock true addrs) = None <-> Forall (fun a => usable a = false) addrs.
Proof.
  unfold connect_sock. rewrite connect_uses_first_usable. generalize 0.
  induction addrs as [|a rest IH]; intros i; cbn [first_usable]; [split; [constructor|reflexivity]|].
  destruct (usable a) eqn:E.
  - split; [discriminate|]. intros H. inversion H; subst. congruence.
  - rewrite IH. split; [intros H; constructor; assumption|intros H; inversion H; assumption].
Qed.

Example connect_example :
  connect_sock true [(true, false); (false, true); (true, true); (true, true)] = (Some 2, [OConnect 0; OClose 0; OCreateFail 1; OConnect 2]).
Proof. reflexivity. Qed.
