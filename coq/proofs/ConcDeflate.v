(* C11: compressed messages reach the wire in the order in which they went through the shared deflate context --
   for EVERY schedule.  (With context takeover the peer can only inflate them in that order.) *)
From Coq Require Import List NArith Arith Lia Bool.
From Model Require Import Conc.
From Proofs Require Import ConcFacts ConcOrder.
Import ListNotations.
Local Open Scope nat_scope.

(* the compressed frames completed on the wire, most recent first *)
Definition zmine (w : wpart) : bool := w_rsv1 w && negb (is_p1 w).
Definition zwire (s : shared) : list (tid * nat) := map (fun w => (w_tid w, w_msg w)) (filter zmine (s_wire s)).

(* no frame can be written any more *)
Definition dead (s : shared) : bool := negb (s_sock s) || s_closing s || s_closed s.

(* the deflate order is the wire order, except for messages compressed last and not (or never) written *)
Definition zweak (s : shared) : Prop := exists pre, s_zorder s = pre ++ zwire s.
Definition zok (s : shared) : Prop := exists pre, s_zorder s = pre ++ zwire s /\ (pre <> [] -> dead s = true).

(* program counters at which a compressed call holds Deflate.lock *)
Definition zwindow (p : pc) : bool :=
  match p with
  | PZCompress | PZFlush | PLock | PReadSock | PReadClosing | PReadClosed | PSend1 | PSend2 | PUnlock _ | PZUnlock _ => true
  | _ => false
  end.
Definition zheld (c : ccall) (p : pc) : bool := compressed c && zwindow p.
Definition zonly (p : pc) : bool := match p with PZLock | PZCompress | PZFlush | PZUnlock _ => true | _ => false end.

Definition zlocal (s : shared) (t : tid) (c : ccall) (p : pc) : Prop :=
  let me := (t, msg_of c) in
  match p with
  | PZCompress => zok s
  | PZFlush => zok s /\ s_zhalf s = Some me
  | PLock | PReadSock => exists pre, s_zorder s = me :: pre ++ zwire s /\ (pre <> [] -> dead s = true)
  | PReadClosing => exists pre, s_zorder s = me :: pre ++ zwire s /\ (pre <> [] -> s_closing s || s_closed s = true)
  | PReadClosed => exists pre, s_zorder s = me :: pre ++ zwire s /\ (pre <> [] -> s_closed s = true)
  | PSend1 | PSend2 => s_zorder s = me :: zwire s
  | PUnlock _ | PZUnlock _ => zok s
  | _ => True
  end.

Lemma zlocal_weak s t c p : zheld c p = true -> zlocal s t c p -> zweak s.
Proof.
  unfold zheld. intros H L. apply andb_true_iff in H as [_ H].
  destruct p; cbn [zwindow] in H; try discriminate; cbn [zlocal] in L;
    try (destruct L as (pre & E & _); exists pre; exact E);
    try (destruct L as ((pre & E & _) & _); exists pre; exact E);
    try (destruct L as (pre & E & _); exists ((t, msg_of c) :: pre); exact E);
    try (exists [(t, msg_of c)]; exact L).
Qed.

(* what the other threads may assume about a step of thread t *)
Definition zframe (s s' : shared) (t : tid) : Prop :=
  (s_zlock s' = s_zlock s \/ (s_zlock s = None /\ s_zlock s' = Some t) \/ (s_zlock s = Some t /\ s_zlock s' = None)) /\
  ((s_zorder s' = s_zorder s /\ s_zhalf s' = s_zhalf s /\ zwire s' = zwire s) \/ s_zlock s = Some t) /\
  (s_closed s = true -> s_closed s' = true) /\
  (s_closing s || s_closed s = true -> s_closing s' || s_closed s' = true) /\
  (dead s = true -> dead s' = true).

Lemma zok_mono s s' : s_zorder s' = s_zorder s -> zwire s' = zwire s -> (dead s = true -> dead s' = true) -> zok s -> zok s'.
Proof. intros E1 E2 Hd (pre & E & H). exists pre. rewrite E1, E2. split; [exact E|auto]. Qed.

Lemma other_zlocal s s' t u c p :
  u <> t -> zframe s s' t -> s_zlock s = Some u -> zlocal s u c p -> zlocal s' u c p.
Proof.
  intros Hne (Fl & Fz & Fc & Fcc & Fd) Hown L.
  destruct Fz as [(E1 & E2 & E3)|Fz]; [|congruence].
  destruct p; cbn [zlocal] in *; rewrite ?E1, ?E2, ?E3; try exact I; try (eapply zok_mono; eauto; fail).
  - destruct L as [L1 L2]. split; [eapply zok_mono; eauto|exact L2].
  - destruct L as (pre & E & H). exists pre. split; [exact E|auto].
  - destruct L as (pre & E & H). exists pre. split; [exact E|auto].
  - destruct L as (pre & E & H). exists pre. split; [exact E|auto].
  - destruct L as (pre & E & H). exists pre. split; [exact E|auto].
  - exact L.
  - exact L.
Qed.

(* ---------- one action of the thread itself ---------- *)
Lemma cstep_sock s t c p s' p' : cstep s t c p = (s', p') -> s_sock s = false -> s_sock s' = false.
Proof.
  intros E H. destruct p; cbn [cstep] in E;
    repeat match type of E with (if ?b then _ else _) = _ => destruct b end;
    injection E as <- <-; cbn; auto.
Qed.

Lemma dead_mono s s' : (s_sock s = false -> s_sock s' = false) ->
  (s_closing s || s_closed s = true -> s_closing s' || s_closed s' = true) -> dead s = true -> dead s' = true.
Proof.
  unfold dead. intros Hs Hc H. destruct (s_sock s) eqn:Es; cbn [negb orb] in H.
  - rewrite <- orb_assoc. rewrite (Hc H). apply orb_true_r.
  - rewrite (Hs eq_refl). reflexivity.
Qed.

Lemma zmine_p1 t c : zmine (mkp t c P1) = false.
Proof. unfold zmine, mkp, is_p1. cbn. apply andb_false_r. Qed.
Lemma zmine_p2 t c : zmine (mkp t c P2) = compressed c.
Proof. unfold zmine, mkp, is_p1. cbn. apply andb_true_r. Qed.

Definition zsame (s s' : shared) : Prop :=
  s_zlock s' = s_zlock s /\ s_zorder s' = s_zorder s /\ s_zhalf s' = s_zhalf s /\ zwire s' = zwire s.

(* the actions that touch neither the deflate bookkeeping nor the compressed part of the wire *)
Lemma cstep_zsame s t c p s' p' : cstep s t c p = (s', p') ->
  match p with
  | PZLock | PZCompress | PZFlush | PZUnlock _ => True
  | PSend2 => compressed c = false -> zsame s s'
  | _ => zsame s s'
  end.
Proof.
  intros E. destruct p; try exact I; cbn [cstep] in E;
    repeat match type of E with (if ?b then _ else _) = _ => destruct b end;
    try (injection E as <- <-; unfold zsame, zwire; cbn; auto; fail).
  - injection E as <- <-. unfold zsame, zwire. cbn [set_wire s_zlock s_zorder s_zhalf s_wire filter]. fold (mkp t c P1). rewrite zmine_p1. auto.
  - intros Hc. injection E as <- <-. unfold zsame, zwire. cbn [set_wire s_zlock s_zorder s_zhalf s_wire filter]. fold (mkp t c P2). rewrite zmine_p2, Hc. auto.
Qed.

Lemma zsame_ok s s' : zsame s s' -> (dead s = true -> dead s' = true) -> zok s -> zok s'.
Proof. intros (_ & E1 & _ & E2) Hd. apply zok_mono; assumption. Qed.
Lemma zsame_weak s s' : zsame s s' -> zweak s -> zweak s'.
Proof. intros (_ & E1 & _ & E2) (pre & E). exists pre. rewrite E1, E2. exact E. Qed.

Record zfacts (s : shared) (t : tid) (c : ccall) (p : pc) : Prop := {
  zf_only : zonly p = true -> compressed c = true;
  zf_send : compressed c = true -> send_pc p = true;
  zf_nrs : p <> PReadSock;
  zf_iff : zheld c p = true <-> s_zlock s = Some t;
  zf_local : zheld c p = true -> zlocal s t c p
}.

Lemma compressed_send c : compressed c = true -> exists m, c = KSend true true m.
Proof. destruct c as [d z m| | |]; cbn; try discriminate. destruct d, z; try discriminate. eauto. Qed.

Lemma zframe_of s s' t :
  (s_zlock s' = s_zlock s \/ (s_zlock s = None /\ s_zlock s' = Some t) \/ (s_zlock s = Some t /\ s_zlock s' = None)) ->
  ((s_zorder s' = s_zorder s /\ s_zhalf s' = s_zhalf s /\ zwire s' = zwire s) \/ s_zlock s = Some t) ->
  step_frame s s' t -> (s_sock s = false -> s_sock s' = false) -> zframe s s' t.
Proof.
  intros A B (_ & _ & Fc & Fcc) Hs. unfold zframe. split; [exact A|]. split; [exact B|]. split; [exact Fc|]. split; [exact Fcc|].
  apply dead_mono; assumption.
Qed.

Lemma cstep_zonly s t c p s' p' : cstep s t c p = (s', p') -> zonly p' = true -> zonly p = true \/ compressed c = true.
Proof.
  intros E H. destruct p; cbn [cstep] in E;
    repeat match type of E with (if ?b then _ else _) = _ => destruct b end;
    try (injection E as <- <-; cbn in *; auto; try discriminate; fail).
  all: injection E as <- <-; cbn in *; try (destruct (s_sock s); cbn in *; discriminate);
    try (destruct c; cbn in *; try discriminate; fail).
  unfold after_write in H. destruct c as [d z m|m| |]; cbn in *; try discriminate.
  destruct d, z; cbn in *; try discriminate. right. reflexivity.
Qed.

Lemma cstep_nrs s t c p s' p' : cstep s t c p = (s', p') -> p' <> PReadSock.
Proof.
  intros E. destruct p; cbn [cstep] in E;
    repeat match type of E with (if ?b then _ else _) = _ => destruct b end;
    try (injection E as <- <-; try discriminate; try (destruct (s_sock s); discriminate); try (destruct c; discriminate); fail).
  injection E as <- <-. unfold after_write. destruct c; try discriminate. destruct (compressed _); discriminate.
Qed.

Lemma zheld_false c p : compressed c = false -> zheld c p = false.
Proof. intros H. unfold zheld. rewrite H. reflexivity. Qed.

Lemma cstep_z s t c p s' p' :
  cstep s t c p = (s', p') -> step_frame s s' t ->
  (p = PZLock -> s_zlock s = None) ->
  zfacts s t c p -> zweak s -> (s_zlock s = None -> zok s) ->
  zframe s s' t /\ zweak s' /\ (s_zlock s' = None -> zok s') /\
  match p' with PDone _ => s_zlock s' <> Some t | _ => zfacts s' t c p' end.
Proof.
  intros E SF Hen [Fo Fs Fn Fi Fl] W G.
  pose proof (cstep_sock _ _ _ _ _ _ E) as Hsock.
  assert (Hd : dead s = true -> dead s' = true) by (destruct SF as (_ & _ & _ & Fcc); apply dead_mono; assumption).
  destruct (compressed c) eqn:Ec.
  2:{ (* an uncompressed call never touches the deflate side *)
    assert (Hzo : zonly p = false) by (destruct (zonly p); [specialize (Fo eq_refl); discriminate|reflexivity]).
    assert (Hnl : s_zlock s <> Some t) by (intros H; apply Fi in H; rewrite zheld_false in H by exact Ec; discriminate).
    assert (Zs : zsame s s').
    { pose proof (cstep_zsame _ _ _ _ _ _ E) as H. destruct p; cbn [zonly] in Hzo; try discriminate; auto. }
    pose proof Zs as (Zl & Zo & Zh & Zw).
    split; [apply zframe_of; auto|]. split; [eapply zsame_weak; eauto|].
    split; [intros H; rewrite Zl in H; eapply zsame_ok; eauto|].
    assert (Hfacts : zfacts s' t c p').
    { constructor.
      - intros H. destruct (cstep_zonly _ _ _ _ _ _ E H); congruence.
      - intros H; congruence.
      - eapply cstep_nrs; eauto.
      - rewrite zheld_false by exact Ec. rewrite Zl. split; [discriminate|intros H; congruence].
      - rewrite zheld_false by exact Ec. discriminate. }
    destruct p'; try exact Hfacts. rewrite Zl. exact Hnl. }
  destruct (compressed_send c Ec) as [m ->]. specialize (Fs eq_refl).
  set (me := (t, m)) in *.
  destruct p; cbn [send_pc] in Fs; try discriminate; cbn [cstep] in E.
  - (* PZLock *) injection E as <- <-. specialize (Hen eq_refl). specialize (G Hen).
    split; [apply zframe_of; auto|]. split; [exact W|]. split; [discriminate|].
    constructor; try reflexivity; try discriminate; [tauto|]. intros _. exact G.
  - (* PZCompress *) injection E as <- <-.
    assert (Hl : s_zlock s = Some t) by (apply Fi; reflexivity). specialize (Fl eq_refl). cbn [zlocal] in Fl.
    split; [apply zframe_of; auto|]. split; [exact W|]. split; [cbn; congruence|].
    constructor; try reflexivity; try discriminate; [cbn; tauto|]. intros _. split; [exact Fl|reflexivity].
  - (* PZFlush *) injection E as <- <-.
    assert (Hl : s_zlock s = Some t) by (apply Fi; reflexivity). destruct (Fl eq_refl) as [(pre & E0 & Hp) Hh].
    cbn [msg_of] in Hh. split; [apply zframe_of; auto|].
    assert (Eo : s_zorder (set_z s (match s_zhalf s with Some x => x :: s_zorder s | None => s_zorder s end) None) = me :: pre ++ zwire s).
    { cbn. rewrite Hh, E0. reflexivity. }
    split; [exists (me :: pre); exact Eo|]. split; [cbn; congruence|].
    constructor; try reflexivity; try discriminate; [cbn; tauto|]. intros _. exists pre. split; [exact Eo|exact Hp].
  - (* PLock *)
    assert (Hl : s_zlock s = Some t) by (apply Fi; reflexivity). destruct (Fl eq_refl) as (pre & E0 & Hp).
    destruct (s_sock s) eqn:Es; injection E as <- <-.
    + split; [apply zframe_of; auto|]. split; [exact W|]. split; [cbn; congruence|].
      constructor; try reflexivity; try discriminate; [cbn; tauto|]. intros _. exists pre. split; [exact E0|].
      intros Hne. specialize (Hp Hne). unfold dead in Hp. rewrite Es in Hp. exact Hp.
    + split; [apply zframe_of; auto|]. split; [exact W|]. split; [cbn; congruence|].
      constructor; try reflexivity; try discriminate; [cbn; tauto|]. intros _. exists (me :: pre). split; [exact E0|].
      intros _. unfold dead. cbn. rewrite Es. reflexivity.
  - (* PReadSock *) congruence.
  - (* PReadClosing *)
    assert (Hl : s_zlock s = Some t) by (apply Fi; reflexivity). destruct (Fl eq_refl) as (pre & E0 & Hp).
    destruct (s_closing s) eqn:Ecl; injection E as <- <-.
    + split; [apply zframe_of; auto|]. split; [exact W|]. split; [congruence|].
      constructor; try reflexivity; try discriminate; [tauto|]. intros _. exists (me :: pre). split; [exact E0|].
      intros _. unfold dead. rewrite Ecl. apply orb_true_iff. left. apply orb_true_r.
    + split; [apply zframe_of; auto|]. split; [exact W|]. split; [congruence|].
      constructor; try reflexivity; try discriminate; [tauto|]. intros _. exists pre. split; [exact E0|].
      intros Hne. specialize (Hp Hne). rewrite ?Ecl in Hp. exact Hp.
  - (* PReadClosed *)
    assert (Hl : s_zlock s = Some t) by (apply Fi; reflexivity). destruct (Fl eq_refl) as (pre & E0 & Hp).
    destruct (s_closed s) eqn:Ecl; injection E as <- <-.
    + split; [apply zframe_of; auto|]. split; [exact W|]. split; [congruence|].
      constructor; try reflexivity; try discriminate; [tauto|]. intros _. exists (me :: pre). split; [exact E0|].
      intros _. unfold dead. rewrite Ecl. apply orb_true_r.
    + split; [apply zframe_of; auto|]. split; [exact W|]. split; [congruence|].
      cbn [is_close_call]. constructor; try reflexivity; try discriminate; [tauto|]. intros _. cbn [zlocal msg_of].
      destruct pre as [|x pre]; [exact E0|]. specialize (Hp ltac:(discriminate)). discriminate.
  - (* PSend1 *)
    assert (Hl : s_zlock s = Some t) by (apply Fi; reflexivity). specialize (Fl eq_refl). cbn [zlocal msg_of] in Fl.
    pose proof (cstep_zsame s t (KSend true true m) PSend1 s' p' E) as Zs. cbn in Zs.
    injection E as <- <-. destruct Zs as (Zl & Zo & Zh & Zw).
    split; [apply zframe_of; auto|]. split; [eapply zsame_weak; [|exact W]; repeat split; assumption|]. split; [rewrite Zl; congruence|].
    constructor; try reflexivity; try discriminate; [rewrite Zl; tauto|]. intros _. cbn [zlocal msg_of]. rewrite Zw, Zo. exact Fl.
  - (* PSend2 *)
    assert (Hl : s_zlock s = Some t) by (apply Fi; reflexivity). specialize (Fl eq_refl). cbn [zlocal msg_of] in Fl.
    injection E as <- <-.
    set (s2 := set_wire s _).
    assert (Ew : zwire s2 = me :: zwire s).
    { unfold zwire, s2. cbn [set_wire s_wire filter]. unfold zmine at 1, is_p1. cbn. reflexivity. }
    assert (Ok : zok s2) by (exists []; split; [rewrite Ew; exact Fl|congruence]).
    split; [apply zframe_of; auto|]. split; [exists []; rewrite Ew; exact Fl|]. split; [intros _; exact Ok|].
    constructor; try reflexivity; try discriminate; [tauto|]. intros _. exact Ok.
  - (* PUnlock *)
    assert (Hl : s_zlock s = Some t) by (apply Fi; reflexivity). specialize (Fl eq_refl). cbn [zlocal] in Fl.
    injection E as <- <-. cbn [after_write compressed].
    split; [apply zframe_of; auto|]. split; [exact W|]. split; [cbn; congruence|].
    constructor; try reflexivity; try discriminate; [cbn; tauto|]. intros _. exact Fl.
  - (* PZUnlock *)
    assert (Hl : s_zlock s = Some t) by (apply Fi; reflexivity). specialize (Fl eq_refl). cbn [zlocal] in Fl.
    injection E as <- <-.
    split; [apply zframe_of; auto|]. split; [exact W|]. split; [intros _; exact Fl|]. cbn. discriminate.
Qed.

(* ---------- the invariant of the whole system ---------- *)
Definition th_zinv (s : shared) (t : tid) (th : thread) : Prop :=
  match th_cur th with Some (c, p) => zfacts s t c p | None => s_zlock s <> Some t end.

Definition sys_zinv (st : shared * threads) : Prop :=
  zweak (fst st) /\ (s_zlock (fst st) = None -> zok (fst st)) /\
  forall t th, nth_error (snd st) t = Some th -> th_zinv (fst st) t th.

Lemma zfacts_add_log s t0 p0 t c p : zfacts (add_log s t0 p0) t c p <-> zfacts s t c p.
Proof. split; intros [A B C D E]; constructor; auto. Qed.

Lemma other_th_zinv s s' t u thu : u <> t -> zframe s s' t -> th_zinv s u thu -> th_zinv s' u thu.
Proof.
  intros Hne F H. pose proof F as (Fl & _). unfold th_zinv in *.
  assert (Hlock : s_zlock s' = Some u <-> s_zlock s = Some u).
  { destruct Fl as [E|[[E1 E2]|[E1 E2]]]; [rewrite E; tauto|rewrite E1, E2|rewrite E1, E2]; split; intros X; try discriminate; congruence. }
  destruct (th_cur thu) as [[c p]|].
  - destruct H as [A B C D E]. constructor; auto.
    + rewrite Hlock. exact D.
    + intros Hh. eapply other_zlocal; eauto. apply D. exact Hh.
  - rewrite Hlock. exact H.
Qed.

Lemma start_zfacts s t c : s_zlock s <> Some t -> zfacts s t c (start_pc c).
Proof.
  intros H. constructor.
  - destruct c as [d z m|m| |]; cbn; try discriminate. destruct d, z; cbn; try discriminate. reflexivity.
  - intros Hc. destruct (compressed_send c Hc) as [m ->]. reflexivity.
  - destruct c as [d z m|m| |]; cbn; try discriminate. destruct d, z; discriminate.
  - assert (E : zheld c (start_pc c) = false).
    { unfold zheld. destruct c as [d z m|m| |]; cbn; try reflexivity. destruct d, z; reflexivity. }
    rewrite E. split; [discriminate|intros X; congruence].
  - assert (E : zheld c (start_pc c) = false).
    { unfold zheld. destruct c as [d z m|m| |]; cbn; try reflexivity. destruct d, z; reflexivity. }
    rewrite E. discriminate.
Qed.

Theorem sched_step_zinv st t : sys_inv st -> sys_zinv st -> sys_zinv (sched_step st t).
Proof.
  destruct st as [s ths]. intros (G & TH & LK) (W & Gz & TZ). cbn [fst snd] in *. unfold sched_step.
  destruct (nth_error ths t) as [th|] eqn:Eth; [|split; [exact W|split; [exact Gz|exact TZ]]].
  destruct (enabled s t th) eqn:Een; [|split; [exact W|split; [exact Gz|exact TZ]]].
  pose proof (TH t th Eth) as Ht. pose proof (TZ t th Eth) as Hz. unfold th_inv in Ht. unfold th_zinv in Hz.
  pose proof (nth_some_lt _ _ _ Eth) as Hlt.
  unfold step_thread.
  assert (K : forall c p rest res th',
             p <> PStart -> local s t c p -> (p = PLock \/ p = PDiscLock -> s_lock s = None) ->
             (p = PZLock -> s_zlock s = None) -> zfacts s t c p ->
             (let '(s', p') := cstep (add_log s t p) t c p in
              match p' with
              | PDone r => (s', {| th_cur := None; th_todo := rest; th_results := (c, r) :: res |})
              | _ => (s', {| th_cur := Some (c, p'); th_todo := rest; th_results := res |})
              end) = th' ->
             sys_zinv (fst th', upd ths t (snd th'))).
  { intros c p rest res th' Hns Hloc Hen Henz Hf Eq.
    destruct (cstep (add_log s t p) t c p) as [s' p'] eqn:Ec.
    pose proof (cstep_preserves _ _ _ _ _ _ Ec Hns Hen (proj2 (global_add_log s t p) G) (proj2 (local_add_log s t p t c p) Hloc)) as (_ & F' & _).
    pose proof (cstep_z _ _ _ _ _ _ Ec F' Henz (proj2 (zfacts_add_log s t p t c p) Hf) W Gz) as (ZF & W' & Gz' & Hnew).
    assert (ZF' : zframe s s' t) by exact ZF.
    assert (Hothers : forall u thu, u <> t -> nth_error ths u = Some thu -> th_zinv s' u thu).
    { intros u thu Hne Hu. eapply other_th_zinv; eauto. }
    destruct p'; subst th'; unfold sys_zinv; cbn [fst snd];
      (split; [exact W'|split; [exact Gz'|]]);
      intros u thu Hu;
      (destruct (Nat.eq_dec u t) as [->|Hne];
       [rewrite nth_upd_same in Hu by exact Hlt; injection Hu as <-; unfold th_zinv; cbn [th_cur]; exact Hnew
       |rewrite nth_upd_other in Hu by congruence; apply Hothers; auto]). }
  destruct th as [cur todo res]. cbn [th_cur th_todo th_results] in *.
  destruct cur as [[c p]|].
  - destruct Ht as (Hns & Hloc & Hown).
    assert (Henz : p = PZLock -> s_zlock s = None).
    { intros ->. unfold enabled in Een. cbn in Een. destruct (s_zlock s); [discriminate|reflexivity]. }
    specialize (K c p todo res _ Hns Hloc (enabled_lock s t c p todo res Een) Henz Hz eq_refl).
    destruct (cstep (add_log s t p) t c p) as [s' p']. destruct p'; exact K.
  - destruct todo as [|c rest]; [unfold enabled in Een; cbn in Een; discriminate|].
    assert (Hen : start_pc c = PLock \/ start_pc c = PDiscLock -> s_lock s = None).
    { unfold enabled in Een. cbn in Een. intros [E|E]; rewrite E in Een; destruct (s_lock s); congruence. }
    assert (Henz : start_pc c = PZLock -> s_zlock s = None).
    { unfold enabled in Een. cbn in Een. intros E; rewrite E in Een; destruct (s_zlock s); congruence. }
    specialize (K c (start_pc c) rest res _ (start_pc_not_start c) (start_pc_local s t c) Hen Henz (start_zfacts s t c Hz) eq_refl).
    destruct (cstep (add_log s t (start_pc c)) t c (start_pc c)) as [s' p']. destruct p'; exact K.
Qed.

Theorem exec_zinv sched : forall st, sys_inv st -> sys_zinv st -> sys_zinv (exec st sched).
Proof.
  unfold exec. induction sched as [|t rest IH]; intros st H Hz; [exact Hz|].
  cbn [fold_left]. apply IH; [apply sched_step_inv; exact H|apply sched_step_zinv; assumption].
Qed.

Lemma init_zinv progs : sys_zinv (init_shared, map mk_thread progs).
Proof.
  split; [exists []; reflexivity|]. split; [intros _; exists []; split; [reflexivity|congruence]|].
  intros t th H. cbn in H. apply nth_error_In in H. apply in_map_iff in H as (calls & <- & _). cbn. discriminate.
Qed.

(* C11: for every set of programs and every schedule, the sequence in which compressed messages went through the shared
   deflate context ends with (chronologically: begins with) exactly the compressed messages on the wire, in wire order;
   what it has in addition are messages compressed last and not written: one in flight under Deflate.lock, or -- only
   once the connection can no longer carry any frame -- sends that were refused *)
Theorem deflate_order progs sched :
  let s := fst (exec (init_shared, map mk_thread progs) sched) in
  (exists pre, s_zorder s = pre ++ zwire s) /\
  (s_zlock s = None -> exists pre, s_zorder s = pre ++ zwire s /\ (pre <> [] -> dead s = true)).
Proof.
  cbv zeta. pose proof (exec_zinv sched _ (init_sys_inv progs) (init_zinv progs)) as (W & Gz & _). split; [exact W|exact Gz].
Qed.
