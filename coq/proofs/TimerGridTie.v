(* (T1) The keep-alive decisions of the RUNNING code -- WebsocketSession._check_poll, _check_auto_ping, _check_ping_timeout,
   _check_close_timeout executed one by one, and _regular executed as a whole, on a grid of tick values (coq/gen/GenTimers.v,
   regenerated from /repo on every run) -- are the step functions the C15 theorems are about (TimerFacts.v), composed in the
   order of _regular. *)
From Coq Require Import List ZArith Bool.
From Proofs Require Import TimerFacts.
From Gen Require Import GenTimers.
Import ListNotations.
Open Scope Z_scope.

Definition oz (x : Z) : option Z := if x <? 0 then None else Some x.
Definition zo (x : option Z) : Z := match x with Some v => v | None => -1 end.
Definition zb (b : bool) : Z := if b then 1 else 0.

Definition poll_row_ok (row : list Z) : bool :=
  match row with
  | [p; ps; t; ps'; fired] => let '(s, f) := poll_step p (oz ps) t in (zo s =? ps') && (zb f =? fired)
  | _ => false
  end.
Definition ping_row_ok (row : list Z) : bool :=
  match row with
  | [r; np; t; np'; n] => let '(x, f) := ping_step r np t in (x =? np') && (zb f =? n)
  | _ => false
  end.
Definition unresponsive_row_ok (row : list Z) : bool :=
  match row with
  | [T; lp; t; u] => zb (unresponsive (oz T) lp t) =? u
  | _ => false
  end.
Definition close_row_ok (row : list Z) : bool :=
  match row with
  | [C; sent; t; f] => zb (close_overdue (oz C) (oz sent) t) =? f
  | _ => false
  end.

(* _regular: Poll first, then the automatic Ping, then Unresponsive + forced disconnect, then the close deadline (reached only
   when the ping timeout has not fired) *)
Definition regular_row_ok (row : list Z) : bool :=
  match row with
  | [p; r; T; C; ps; np; lp; sent; t; ps'; polled; np'; pinged; unresp; forced; ordered] =>
      let '(s, f) := poll_step p (oz ps) t in
      let '(x, g) := ping_step r np t in
      let u := unresponsive (oz T) lp t in
      (zo s =? ps') && (zb f =? polled) && (x =? np') && (zb g =? pinged) && (zb u =? unresp) &&
      (zb (u || close_overdue (oz C) (oz sent) t) =? forced) && (ordered =? 1)
  | _ => false
  end.

Theorem impl_poll_is_model : forallb poll_row_ok impl_poll_rows = true.
Proof. vm_compute. reflexivity. Qed.
Theorem impl_ping_is_model : forallb ping_row_ok impl_ping_rows = true.
Proof. vm_compute. reflexivity. Qed.
Theorem impl_unresponsive_is_model : forallb unresponsive_row_ok impl_unresponsive_rows = true.
Proof. vm_compute. reflexivity. Qed.
Theorem impl_close_is_model : forallb close_row_ok impl_close_rows = true.
Proof. vm_compute. reflexivity. Qed.
Theorem impl_regular_is_model : forallb regular_row_ok impl_regular_rows = true.
Proof. vm_compute. reflexivity. Qed.

(* the grids are not degenerate: every outcome occurs, on both sides of every comparison *)
Theorem impl_timer_grids_cover :
  existsb (fun row => match row with [_; _; _; _; f] => f =? 1 | _ => false end) impl_poll_rows &&
  existsb (fun row => match row with [_; ps; _; _; f] => (f =? 0) && (0 <=? ps) | _ => false end) impl_poll_rows &&
  existsb (fun row => match row with [r; np; t; _; n] => (n =? 1) && negb (t mod r =? 0) | _ => false end) impl_ping_rows &&
  existsb (fun row => match row with [r; np; t; _; n] => (n =? 0) && negb (r =? 0) && (t =? np) | _ => false end) impl_ping_rows &&
  existsb (fun row => match row with [r; np; t; _; n] => (n =? 0) && (r =? 0) && (np <? t) | _ => false end) impl_ping_rows &&
  existsb (fun row => match row with [T; lp; t; u] => (u =? 1) | _ => false end) impl_unresponsive_rows &&
  existsb (fun row => match row with [T; lp; t; u] => (u =? 0) && (t - lp =? T) && (0 <? T) | _ => false end) impl_unresponsive_rows &&
  existsb (fun row => match row with [C; s; t; f] => (f =? 1) && (t =? s + C) | _ => false end) impl_close_rows &&
  existsb (fun row => match row with [C; s; t; f] => (f =? 0) && (t + 1 =? s + C) && (0 <=? s) && (0 <? C) | _ => false end) impl_close_rows &&
  existsb (fun row => match row with [_; _; _; _; _; _; _; _; _; _; po; _; pi; un; fo; _] => (po =? 1) && (pi =? 1) && (un =? 1) && (fo =? 1) | _ => false end) impl_regular_rows &&
  existsb (fun row => match row with [_; _; _; _; _; _; _; _; _; _; po; _; pi; un; fo; _] => (un =? 0) && (fo =? 1) | _ => false end) impl_regular_rows = true.
Proof. vm_compute. reflexivity. Qed.
